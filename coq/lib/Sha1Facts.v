(* Structural facts about lib/Sha1.v: a SHA-1 digest is 20 bytes, each below 256; hence the hex form
   of an HMAC-SHA1 is 40 lowercase hexadecimal digits.  No security claim of any kind. *)
From Coq Require Import NArith List Ascii String Bool Lia.
From AV Require Import lib.Str lib.Sha1 lib.TokSplit.
Import ListNotations.
Local Open Scope N_scope.

Lemma be_bytes_length n x : List.length (be_bytes n x) = n.
Proof. unfold be_bytes. rewrite map_length, seq_length. reflexivity. Qed.

Lemma be_bytes_small n x : Forall (fun b => b < 256) (be_bytes n x).
Proof.
  unfold be_bytes. apply Forall_forall. intros b Hb. apply in_map_iff in Hb. destruct Hb as [i [<- _]].
  change 255 with (N.ones 8). rewrite N.land_ones. apply N.mod_lt. discriminate.
Qed.

Lemma sha1_length msg : List.length (sha1 msg) = 20%nat.
Proof.
  unfold sha1. destruct (fold_left _ _ _) as [[[[a b] c] d] e].
  rewrite !app_length, !be_bytes_length. reflexivity.
Qed.

Lemma sha1_small msg : Forall (fun b => b < 256) (sha1 msg).
Proof.
  unfold sha1. destruct (fold_left _ _ _) as [[[[a b] c] d] e].
  repeat (apply Forall_app; split); apply be_bytes_small.
Qed.

Lemma hmac_sha1_length key msg : List.length (hmac_sha1 key msg) = 20%nat.
Proof. unfold hmac_sha1. apply sha1_length. Qed.
Lemma hmac_sha1_small key msg : Forall (fun b => b < 256) (hmac_sha1 key msg).
Proof. unfold hmac_sha1. apply sha1_small. Qed.

Theorem hmac_hex_length key msg : String.length (hmac_sha1_hex key msg) = 40%nat.
Proof. unfold hmac_sha1_hex. rewrite hex_length, hmac_sha1_length. reflexivity. Qed.
Theorem hmac_hex_lhex key msg : all_chars is_lhex (hmac_sha1_hex key msg) = true.
Proof. unfold hmac_sha1_hex. apply hex_lhex, hmac_sha1_small. Qed.
