(* Path helpers used by the collection-filesystem models: strings.Split(s, "/"), path.Split,
   strings.TrimRight(s, "/"). *)
From Coq Require Import List Ascii String Bool.
Import ListNotations.
Local Open Scope string_scope.

(* strings.Split(s, sep) for a one-character separator *)
Fixpoint split_acc (sep : ascii) (s : string) (cur : string -> string) : list string :=
  match s with
  | EmptyString => [cur EmptyString]
  | String c r => if Ascii.eqb c sep then cur EmptyString :: split_acc sep r (fun x => x)
                  else split_acc sep r (fun x => cur (String c x))
  end.
Definition split_char (sep : ascii) (s : string) : list string := split_acc sep s (fun x => x).
Definition split_slash (s : string) : list string := split_char "/"%char s.

Fixpoint join_with (sep : string) (l : list string) : string :=
  match l with
  | [] => ""
  | [x] => x
  | x :: r => x ++ sep ++ join_with sep r
  end.

(* path.Split: dir = everything up to and including the final slash, file = the rest *)
Definition path_split (s : string) : string * string :=
  let parts := split_slash s in
  match rev parts with
  | [] => ("", "")
  | last :: rest_rev =>
      match rest_rev with
      | [] => ("", last)
      | _ => (join_with "/" (rev rest_rev) ++ "/", last)
      end
  end.

(* strings.TrimRight(s, "/") *)
Definition trim_right_slash (s : string) : string :=
  let fix drop_empty (l : list string) : list string :=
      match l with
      | "" :: r => drop_empty r
      | _ => l
      end in
  join_with "/" (rev (drop_empty (rev (split_slash s)))).
