(* Manifest grammar and tokeniser (doc/architecture/manifest-format, sections Manifest v1 and Keep
   locator format), built on lib/TokSplit.v.

     manifest = zero or more streams
     stream   = name, one or more (SP locator), one or more (SP file-segment), NL
     locator  = 32 lowercase hex digits, PLUS, one or more decimal digits,
                then zero or more hints: PLUS, one letter A-Z, then characters of [-A-Za-z0-9@_]
     file-segment = digits COLON digits COLON filename

   [parse] splits on newline, space and PLUS; [render] is its inverse on what [parse] accepts
   ([parse_sound]); [wf_stream] is the well-formedness that [parse] guarantees.  Stream and file names
   are only required to be non-empty and free of space and newline (a superset of the documented
   grammar, so statements quantified over valid manifests cover every documented manifest).
   No axioms. *)
From Coq Require Import NArith List Ascii String Bool Lia Arith.
From AV Require Import lib.Str lib.TokSplit.
Import ListNotations.
Local Open Scope string_scope.

Record mloc := { l_hash : string; l_size : string; l_hints : list string }.
Record mstream := { s_name : string; s_locs : list mloc; s_files : list string }.

Definition sp : ascii := " "%char.
Definition nl : ascii := "010"%char.
Definition plus : ascii := "+"%char.
Definition colon : ascii := ":"%char.

(* ---------- rendering ---------- *)
Definition render_loc (l : mloc) : string := join plus (l_hash l :: l_size l :: l_hints l).
Definition stream_tokens (s : mstream) : list string := s_name s :: map render_loc (s_locs s) ++ s_files s.
Definition render_stream (s : mstream) : string := join sp (stream_tokens s) ++ String nl "".
Fixpoint render (ss : list mstream) : string :=
  match ss with [] => "" | s :: r => render_stream s ++ render r end.

(* ---------- well-formedness ---------- *)
Definition is_hintchar (c : ascii) : bool :=
  is_upper c || is_lower c || is_digit c || Ascii.eqb c "-" || Ascii.eqb c "@" || Ascii.eqb c "_".
Definition wf_hint (h : string) : bool :=
  match h with String c r => is_upper c && all_chars is_hintchar r | EmptyString => false end.
Definition nonempty (s : string) : bool := match s with EmptyString => false | _ => true end.
Definition wf_loc (l : mloc) : bool :=
  Nat.eqb (String.length (l_hash l)) 32 && all_chars is_lhex (l_hash l) &&
  nonempty (l_size l) && all_chars is_digit (l_size l) && forallb wf_hint (l_hints l).
Definition plain (s : string) : bool := nonempty s && negb (has_char sp s) && negb (has_char nl s).
(* position ":" size ":" filename *)
Definition wf_file (f : string) : bool :=
  plain f &&
  match split_on colon f with
  | p :: z :: n :: _ => nonempty p && all_chars is_digit p && nonempty z && all_chars is_digit z && nonempty n
  | _ => false
  end.
Definition nonempty_list {A} (l : list A) : bool := match l with [] => false | _ => true end.
Definition wf_stream (s : mstream) : bool :=
  plain (s_name s) && nonempty_list (s_locs s) && forallb wf_loc (s_locs s) &&
  nonempty_list (s_files s) && forallb wf_file (s_files s).

(* ---------- parsing ---------- *)
Definition parse_loc (t : string) : option mloc :=
  match split_on plus t with
  | h :: z :: hints =>
    let l := {| l_hash := h; l_size := z; l_hints := hints |} in if wf_loc l then Some l else None
  | _ => None
  end.
(* the locators of a line are its longest prefix of locator tokens *)
Fixpoint span_locs (ts : list string) : list mloc * list string :=
  match ts with
  | [] => ([], [])
  | t :: r =>
    match parse_loc t with
    | Some l => let (ls, fs) := span_locs r in (l :: ls, fs)
    | None => ([], ts)
    end
  end.
Definition parse_line (line : string) : option mstream :=
  match split_on sp line with
  | name :: toks =>
    let (ls, fs) := span_locs toks in
    let s := {| s_name := name; s_locs := ls; s_files := fs |} in
    if wf_stream s then Some s else None
  | [] => None
  end.
(* lines = split on newline; the text must end with a newline, i.e. the last piece is empty *)
Fixpoint parse_lines (ls : list string) : option (list mstream) :=
  match ls with
  | [] => None
  | [last] => if nonempty last then None else Some []
  | l :: r =>
    match parse_line l, parse_lines r with
    | Some s, Some ss => Some (s :: ss)
    | _, _ => None
    end
  end.
(* "A manifest may not contain TAB characters, nor other ASCII whitespace characters or control codes other
   than the spaces or newlines used as delimiters" *)
Definition clean_char (c : ascii) : bool :=
  Ascii.eqb c sp || Ascii.eqb c nl || ((32 <? cN c)%N && negb (cN c =? 127)%N).
Definition parse (m : string) : option (list mstream) :=
  if all_chars clean_char m then parse_lines (split_on nl m) else None.
Definition valid_manifest (m : string) : bool := match parse m with Some _ => true | None => false end.

(* ---------- soundness of the parser ---------- *)
Lemma parse_loc_sound t l : parse_loc t = Some l -> wf_loc l = true /\ render_loc l = t.
Proof.
  unfold parse_loc. pose proof (join_split plus t) as J.
  destruct (split_on plus t) as [|h [|z hints]]; try discriminate.
  destruct (wf_loc {| l_hash := h; l_size := z; l_hints := hints |}) eqn:W; [|discriminate].
  intros E. injection E as <-. split; [exact W|exact J].
Qed.
Lemma span_locs_sound ts : forall ls fs, span_locs ts = (ls, fs) ->
  forallb wf_loc ls = true /\ (map render_loc ls ++ fs)%list = ts.
Proof.
  induction ts as [|t r IH]; intros ls fs H; cbn [span_locs] in H.
  - injection H as <- <-. split; reflexivity.
  - destruct (parse_loc t) as [l|] eqn:P.
    + destruct (span_locs r) as [ls' fs'] eqn:S. injection H as <- <-. destruct (IH _ _ eq_refl) as [A B].
      destruct (parse_loc_sound t l P) as [W R]. split; [cbn [forallb]; rewrite W, A; reflexivity|].
      cbn [map app]. rewrite R, B. reflexivity.
    + injection H as <- <-. split; reflexivity.
Qed.
Lemma parse_line_sound line s : parse_line line = Some s -> wf_stream s = true /\ join sp (stream_tokens s) = line.
Proof.
  unfold parse_line. pose proof (join_split sp line) as J.
  destruct (split_on sp line) as [|name toks]; [discriminate|].
  destruct (span_locs toks) as [ls fs] eqn:S.
  destruct (wf_stream {| s_name := name; s_locs := ls; s_files := fs |}) eqn:W; [|discriminate].
  intros E. injection E as <-. split; [exact W|]. unfold stream_tokens. cbn [s_name s_locs s_files].
  destruct (span_locs_sound toks ls fs S) as [_ ->]. exact J.
Qed.
Lemma parse_lines_sound ls : forall ss, parse_lines ls = Some ss ->
  forallb wf_stream ss = true /\ render ss = join nl ls.
Proof.
  induction ls as [|l r IH]; intros ss H; [discriminate|]. destruct r as [|l2 r].
  - cbn [parse_lines] in H. destruct l; [|discriminate]. injection H as <-. split; reflexivity.
  - cbn [parse_lines] in H. fold (parse_lines (l2 :: r)) in H.
    change (match parse_line l, parse_lines (l2 :: r) with Some s, Some ss0 => Some (s :: ss0) | _, _ => None end = Some ss) in H.
    destruct (parse_line l) as [s|] eqn:P; [|discriminate].
    destruct (parse_lines (l2 :: r)) as [ss'|] eqn:Q; [|discriminate]. injection H as <-.
    destruct (IH ss' eq_refl) as [A B]. destruct (parse_line_sound l s P) as [W R].
    split; [cbn [forallb]; rewrite W, A; reflexivity|].
    cbn [render]. rewrite B. unfold render_stream. rewrite R. rewrite join_cons.
    rewrite app_assoc_s. reflexivity.
Qed.
Theorem parse_sound m ss : parse m = Some ss -> forallb wf_stream ss = true /\ render ss = m.
Proof.
  unfold parse. destruct (all_chars clean_char m); [|discriminate].
  intros H. destruct (parse_lines_sound _ _ H) as [A B]. split; [exact A|].
  rewrite B. apply join_split.
Qed.

(* the two examples of the format documentation *)
Example doc_example_1 :
  valid_manifest (". 930625b054ce894ac40596c3f5a0d947+33 0:0:a 0:0:b 0:33:output.txt" ++ String nl
                  "./c d41d8cd98f00b204e9800998ecf8427e+0 0:0:d" ++ String nl "") = true.
Proof. vm_compute. reflexivity. Qed.
Example doc_example_2 :
  valid_manifest (". 930625b054ce894ac40596c3f5a0d947+33+A1f27a35dd9af37191d63ad8eb8985624451e7b79@5835c8bc 0:0:a 0:0:b 0:33:output.txt"
                  ++ String nl "") = true /\
  valid_manifest ". 930625b054ce894ac40596c3f5a0d947+33 0:0:a" = false /\
  valid_manifest (". 930625b054ce894ac40596c3f5a0d947 0:0:a" ++ String nl "") = false /\
  valid_manifest "" = true /\
  valid_manifest (". 930625b054ce894ac40596c3f5a0d947+33 0:0:a" ++ String "013" (String nl "")) = false.
Proof. vm_compute. repeat split; reflexivity. Qed.
