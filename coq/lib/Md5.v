(* Executable MD5 over lists of bytes (N). Only used to compute; no security property is assumed. *)
From Coq Require Import NArith List Ascii String.
From AV Require Import lib.Str.
Import ListNotations.
Local Open Scope N_scope.

Definition w32 (x : N) : N := N.land x 4294967295.
Definition add32 (a b : N) : N := w32 (a + b).
Definition rotl32 (x : N) (c : N) : N :=
  w32 (N.lor (N.shiftl x c) (N.shiftr x (32 - c))).
Definition not32 (x : N) : N := N.lxor x 4294967295.

Definition Ktab : list N := [
3614090360;3905402710;606105819;3250441966;4118548399;1200080426;2821735955;4249261313;
1770035416;2336552879;4294925233;2304563134;1804603682;4254626195;2792965006;1236535329;
4129170786;3225465664;643717713;3921069994;3593408605;38016083;3634488961;3889429448;
568446438;3275163606;4107603335;1163531501;2850285829;4243563512;1735328473;2368359562;
4294588738;2272392833;1839030562;4259657740;2763975236;1272893353;4139469664;3200236656;
681279174;3936430074;3572445317;76029189;3654602809;3873151461;530742520;3299628645;
4096336452;1126891415;2878612391;4237533241;1700485571;2399980690;4293915773;2240044497;
1873313359;4264355552;2734768916;1309151649;4149444226;3174756917;718787259;3951481745].
Definition Stab : list N := [
7;12;17;22;7;12;17;22;7;12;17;22;7;12;17;22;
5;9;14;20;5;9;14;20;5;9;14;20;5;9;14;20;
4;11;16;23;4;11;16;23;4;11;16;23;4;11;16;23;
6;10;15;21;6;10;15;21;6;10;15;21;6;10;15;21].

Fixpoint bytes_to_words (l : list N) : list N :=
  match l with
  | a :: b :: c :: d :: r => (a + 256 * (b + 256 * (c + 256 * d))) :: bytes_to_words r
  | _ => []
  end.

Definition step (M : list N) (st : N * N * N * N) (i : nat) : N * N * N * N :=
  let '(a, b, c, d) := st in
  let iN := N.of_nat i in
  let '(f, g) :=
    if (iN <? 16) then (N.lor (N.land b c) (N.land (not32 b) d), iN)
    else if (iN <? 32) then (N.lor (N.land d b) (N.land (not32 d) c), (5 * iN + 1) mod 16)
    else if (iN <? 48) then (N.lxor b (N.lxor c d), (3 * iN + 5) mod 16)
    else (N.lxor c (N.lor b (not32 d)), (7 * iN) mod 16) in
  let f' := add32 (add32 (add32 f a) (nth i Ktab 0)) (nth (N.to_nat g) M 0) in
  (d, add32 b (rotl32 f' (nth i Stab 0)), b, c).

Definition block (st : N * N * N * N) (blk : list N) : N * N * N * N :=
  let M := bytes_to_words blk in
  let '(a0, b0, c0, d0) := st in
  let '(a, b, c, d) := fold_left (step M) (seq 0 64) st in
  (add32 a0 a, add32 b0 b, add32 c0 c, add32 d0 d).

Fixpoint chunks (fuel : nat) (l : list N) : list (list N) :=
  match fuel with
  | O => []
  | S f => match l with [] => [] | _ => firstn 64 l :: chunks f (skipn 64 l) end
  end.

Definition le_bytes (n : nat) (x : N) : list N :=
  map (fun i => N.land (N.shiftr x (8 * N.of_nat i)) 255) (seq 0 n).

Definition pad (msg : list N) : list N :=
  let len := N.of_nat (List.length msg) in
  let zeros := N.to_nat ((119 - (len mod 64)) mod 64) in
  msg ++ [128] ++ repeat 0 zeros ++ le_bytes 8 (8 * len).

Definition md5 (msg : list N) : list N :=
  let p := pad msg in
  let '(a, b, c, d) := fold_left block (chunks (S (Nat.div (List.length p) 64)) p)
     (1732584193, 4023233417, 2562383102, 271733878) in
  le_bytes 4 a ++ le_bytes 4 b ++ le_bytes 4 c ++ le_bytes 4 d.

Definition md5hex (s : string) : string := hex (md5 (bytes_of_string s)).
