(* Executable SHA-1 and HMAC-SHA1 over lists of bytes (N). *)
From Coq Require Import NArith List Ascii String.
From AV Require Import lib.Str.
Import ListNotations.
Local Open Scope N_scope.

Definition w32 (x : N) : N := N.land x 4294967295.
Definition add32 (a b : N) : N := w32 (a + b).
Definition rotl32 (x : N) (c : N) : N := w32 (N.lor (N.shiftl x c) (N.shiftr x (32 - c))).
Definition not32 (x : N) : N := N.lxor x 4294967295.

Fixpoint be_words (l : list N) : list N :=
  match l with
  | a :: b :: c :: d :: r => (((a * 256 + b) * 256 + c) * 256 + d) :: be_words r
  | _ => []
  end.

(* message schedule: w[i] = rotl1 (w[i-3] xor w[i-8] xor w[i-14] xor w[i-16]); keep the list reversed *)
Fixpoint extend (n : nat) (rev_w : list N) : list N :=
  match n with
  | O => rev_w
  | S n =>
    let x := N.lxor (N.lxor (nth 2 rev_w 0) (nth 7 rev_w 0)) (N.lxor (nth 13 rev_w 0) (nth 15 rev_w 0)) in
    extend n (rotl32 x 1 :: rev_w)
  end.

Definition round (st : N * N * N * N * N) (iw : nat * N) : N * N * N * N * N :=
  let '(a, b, c, d, e) := st in
  let '(i, w) := iw in
  let '(f, k) :=
    if Nat.ltb i 20 then (N.lor (N.land b c) (N.land (not32 b) d), 1518500249)
    else if Nat.ltb i 40 then (N.lxor b (N.lxor c d), 1859775393)
    else if Nat.ltb i 60 then (N.lor (N.lor (N.land b c) (N.land b d)) (N.land c d), 2400959708)
    else (N.lxor b (N.lxor c d), 3395469782) in
  let t := add32 (add32 (add32 (add32 (rotl32 a 5) f) e) k) w in
  (t, a, rotl32 b 30, c, d).

Definition block (h : N * N * N * N * N) (blk : list N) : N * N * N * N * N :=
  let w := rev (extend 64 (rev (be_words blk))) in
  let '(a, b, c, d, e) := fold_left round (combine (seq 0 80) w) h in
  let '(h0, h1, h2, h3, h4) := h in
  (add32 h0 a, add32 h1 b, add32 h2 c, add32 h3 d, add32 h4 e).

Fixpoint chunks (fuel : nat) (l : list N) : list (list N) :=
  match fuel with
  | O => []
  | S f => match l with [] => [] | _ => firstn 64 l :: chunks f (skipn 64 l) end
  end.

Definition be_bytes (n : nat) (x : N) : list N :=
  map (fun i => N.land (N.shiftr x (8 * N.of_nat (n - 1 - i))) 255) (seq 0 n).

Definition pad (msg : list N) : list N :=
  let len := N.of_nat (List.length msg) in
  let zeros := N.to_nat ((119 - (len mod 64)) mod 64) in
  msg ++ [128] ++ repeat 0 zeros ++ be_bytes 8 (8 * len).

Definition sha1 (msg : list N) : list N :=
  let p := pad msg in
  let '(a, b, c, d, e) := fold_left block (chunks (S (Nat.div (List.length p) 64)) p)
     (1732584193, 4023233417, 2562383102, 271733878, 3285377520) in
  be_bytes 4 a ++ be_bytes 4 b ++ be_bytes 4 c ++ be_bytes 4 d ++ be_bytes 4 e.

Definition hmac_sha1 (key msg : list N) : list N :=
  let key := if Nat.ltb 64 (List.length key) then sha1 key else key in
  let key := key ++ repeat 0 (64 - List.length key) in
  let ipad := map (fun b => N.lxor b 54) key in
  let opad := map (fun b => N.lxor b 92) key in
  sha1 (opad ++ sha1 (ipad ++ msg)).

Definition hmac_sha1_hex (key msg : string) : string := hex (hmac_sha1 (bytes_of_string key) (bytes_of_string msg)).
