(* Prototype of the shared sorting library (C12, also C05/C06/C16): insertion sort by a key with a
   decidable strict total order given as section hypotheses (no axioms: they are discharged at
   instantiation, e.g. for lexicographic order on hex strings or for nat) *)
From Coq Require Import List Bool Sorted Permutation Lia.
Import ListNotations.

Section Sort.
Variables (A K : Type) (key : A -> K) (ltb : K -> K -> bool).
Hypothesis lt_irrefl : forall x, ltb x x = false.
Hypothesis lt_trans : forall x y z, ltb x y = true -> ltb y z = true -> ltb x z = true.
Hypothesis lt_total : forall x y, ltb x y = true \/ ltb y x = true \/ x = y.

(* descending: heavier keys first, as in NewRootSorter *)
Definition gt (a b : A) : Prop := ltb (key b) (key a) = true.

Fixpoint insert (x : A) (l : list A) : list A :=
  match l with
  | [] => [x]
  | y :: r => if ltb (key y) (key x) then x :: l else y :: insert x r
  end.
Definition sort (l : list A) : list A := fold_right insert [] l.

Lemma insert_perm x l : Permutation (insert x l) (x :: l).
Proof.
  induction l as [|y r IH]; cbn [insert]; [reflexivity|].
  destruct (ltb (key y) (key x)); [reflexivity|].
  rewrite IH. apply perm_swap.
Qed.
Theorem sort_perm l : Permutation (sort l) l.
Proof. induction l as [|x l IH]; cbn [sort fold_right]; [reflexivity|]. rewrite insert_perm. constructor; exact IH. Qed.

Lemma insert_in x y l : In y (insert x l) <-> y = x \/ In y l.
Proof.
  induction l as [|z l IH]; cbn [insert In]; [intuition|].
  destruct (ltb (key z) (key x)); cbn [In]; [intuition|]. rewrite IH. intuition.
Qed.

Definition distinct_keys (l : list A) : Prop := NoDup (map key l).

Lemma insert_sorted x l :
  (forall y, In y l -> key y <> key x) ->
  StronglySorted gt l -> StronglySorted gt (insert x l).
Proof.
  induction l as [|z l IH]; intros Hne Hs; cbn [insert].
  - constructor; constructor.
  - inversion Hs as [|? ? Hs' Hall]; subst. rewrite Forall_forall in Hall.
    destruct (ltb (key z) (key x)) eqn:E.
    + constructor; [exact Hs|]. rewrite Forall_forall. intros y [<-|Hy]; [exact E|].
      unfold gt. eapply lt_trans; [apply Hall; exact Hy|exact E].
    + constructor.
      * apply IH; auto. intros y Hy. apply Hne. right; exact Hy.
      * rewrite Forall_forall. intros y Hy. apply -> insert_in in Hy. destruct Hy as [->|Hy]; [|apply Hall; exact Hy].
        unfold gt. destruct (lt_total (key x) (key z)) as [H|[H|H]]; [exact H|congruence|].
        exfalso. apply (Hne z); [left; reflexivity|]. symmetry; exact H.
Qed.

Theorem sort_sorted l : distinct_keys l -> StronglySorted gt (sort l).
Proof.
  unfold distinct_keys. induction l as [|x l IH]; intros Hnd; cbn [sort fold_right]; [constructor|].
  inversion Hnd as [|? ? Hnin Hnd']; subst.
  apply insert_sorted; [|apply IH; exact Hnd'].
  intros y Hy E. apply Hnin. rewrite <- E. apply in_map.
  eapply Permutation_in; [apply sort_perm|exact Hy].
Qed.

(* uniqueness: with distinct keys there is only one descending arrangement, so the result does not
   depend on map iteration order nor on the (unstable) sorting algorithm *)
Lemma sorted_perm_unique l1 : forall l2,
  StronglySorted gt l1 -> StronglySorted gt l2 -> Permutation l1 l2 -> l1 = l2.
Proof.
  induction l1 as [|a l1 IH]; intros l2 H1 H2 Hp.
  - apply Permutation_nil in Hp. subst; reflexivity.
  - destruct l2 as [|b l2]; [apply Permutation_sym, Permutation_nil in Hp; discriminate|].
    inversion H1 as [|? ? H1' A1]; subst. inversion H2 as [|? ? H2' A2]; subst.
    rewrite Forall_forall in A1, A2.
    assert (a = b).
    { assert (Ha : In a (b :: l2)) by (eapply Permutation_in; [exact Hp|left; reflexivity]).
      assert (Hb : In b (a :: l1)) by (eapply Permutation_in; [apply Permutation_sym; exact Hp|left; reflexivity]).
      destruct Ha as [->|Ha]; [reflexivity|]. destruct Hb as [->|Hb]; [reflexivity|].
      specialize (A1 b Hb). specialize (A2 a Ha). unfold gt in *.
      pose proof (lt_trans _ _ _ A1 A2) as X. rewrite lt_irrefl in X. discriminate. }
    subst b. f_equal. apply IH; auto. eapply Permutation_cons_inv; exact Hp.
Qed.

Theorem sort_unique l l' :
  distinct_keys l -> Permutation l' l -> StronglySorted gt l' -> l' = sort l.
Proof.
  intros Hd Hp Hs. apply sorted_perm_unique; auto.
  - apply sort_sorted; exact Hd.
  - rewrite Hp. symmetry. apply sort_perm.
Qed.

(* removing (or keeping only) some services never reorders the others *)
Lemma sorted_filter p l : StronglySorted gt l -> StronglySorted gt (filter p l).
Proof.
  induction l as [|a l IH]; intros H; cbn [filter]; [constructor|].
  inversion H as [|? ? H' Hall]; subst. destruct (p a); [|apply IH; exact H'].
  constructor; [apply IH; exact H'|]. rewrite Forall_forall in *. intros y Hy. apply Hall.
  apply filter_In in Hy. tauto.
Qed.
Lemma distinct_filter p l : distinct_keys l -> distinct_keys (filter p l).
Proof.
  unfold distinct_keys. induction l as [|a l IH]; cbn [filter map]; intros H; [constructor|].
  inversion H as [|? ? Hn Hd]; subst. destruct (p a); cbn [map]; [|apply IH; exact Hd].
  constructor; [|apply IH; exact Hd]. intro X. apply Hn. apply in_map_iff in X. destruct X as (y & E & Hy).
  apply filter_In in Hy. apply in_map_iff. exists y. tauto.
Qed.
Lemma perm_filter (p : A -> bool) l1 l2 : Permutation l1 l2 -> Permutation (filter p l1) (filter p l2).
Proof.
  induction 1; cbn [filter].
  - reflexivity.
  - destruct (p x); [constructor|]; assumption.
  - destruct (p x), (p y); try reflexivity. apply perm_swap.
  - etransitivity; eassumption.
Qed.
Theorem sort_filter p l : distinct_keys l -> sort (filter p l) = filter p (sort l).
Proof.
  intros Hd. symmetry. apply sort_unique.
  - apply distinct_filter; exact Hd.
  - apply perm_filter. apply sort_perm.
  - apply sorted_filter. apply sort_sorted; exact Hd.
Qed.
End Sort.
