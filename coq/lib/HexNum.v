(* Facts about TokSplit.hexn / hex08 / hexnum: lowercase hex digits only, the numeral denotes the
   number (so printing is injective), eight digits exactly for numbers below 2^32, no padding needed
   from 2^28 on. *)
From Coq Require Import NArith List Ascii String Bool Lia Arith.
From AV Require Import lib.Str lib.TokSplit.
Import ListNotations.
Local Open Scope N_scope.

Definition val16 (ds : list N) : N := fold_right (fun d a => d + 16 * a) 0 ds.

Lemma digits16_val f : forall n, n < 16 ^ N.of_nat f -> val16 (digits16 f n) = n.
Proof.
  induction f as [|f IH]; intros n Hn.
  - cbn in Hn. cbn. lia.
  - cbn [digits16]. destruct (N.eqb_spec n 0) as [->|Hz]; [reflexivity|].
    cbn [val16 fold_right]. fold (val16 (digits16 f (n / 16))). rewrite IH.
    + pose proof (N.div_mod n 16 ltac:(discriminate)). lia.
    + rewrite Nnat.Nat2N.inj_succ, N.pow_succ_r' in Hn. apply N.div_lt_upper_bound; [discriminate|exact Hn].
Qed.

Lemma digits16_small f : forall n, Forall (fun d => d < 16) (digits16 f n).
Proof.
  induction f as [|f IH]; intros n; cbn [digits16]; [constructor|].
  destruct (n =? 0); constructor; [apply N.mod_lt; discriminate|apply IH].
Qed.

Lemma digits16_length_le f : forall n k, n < 16 ^ N.of_nat k -> (List.length (digits16 f n) <= k)%nat.
Proof.
  induction f as [|f IH]; intros n k Hn; cbn [digits16 List.length]; [lia|].
  destruct (N.eqb_spec n 0) as [->|Hz]; [cbn; lia|].
  destruct k as [|k]; [cbn in Hn; lia|]. cbn [List.length]. apply -> Nat.succ_le_mono. apply IH.
  rewrite Nnat.Nat2N.inj_succ, N.pow_succ_r' in Hn. apply N.div_lt_upper_bound; [discriminate|exact Hn].
Qed.

Lemma digits16_length_ge f : forall n k, 16 ^ N.of_nat k <= n -> n < 16 ^ N.of_nat f -> (k < List.length (digits16 f n))%nat.
Proof.
  induction f as [|f IH]; intros n k Hk Hn.
  - cbn in Hn. assert (16 ^ N.of_nat k <> 0) by (apply N.pow_nonzero; lia). lia.
  - cbn [digits16]. destruct (N.eqb_spec n 0) as [->|Hz].
    + assert (16 ^ N.of_nat k <> 0) by (apply N.pow_nonzero; lia). lia.
    + cbn [List.length]. destruct k as [|k]; [lia|]. apply -> Nat.succ_lt_mono. apply IH.
      * rewrite Nnat.Nat2N.inj_succ, N.pow_succ_r' in Hk. apply N.div_le_lower_bound; [discriminate|exact Hk].
      * rewrite Nnat.Nat2N.inj_succ, N.pow_succ_r' in Hn. apply N.div_lt_upper_bound; [discriminate|exact Hn].
Qed.

Lemma size_fuel n : n < 16 ^ N.of_nat (N.to_nat (N.size n)).
Proof.
  rewrite Nnat.N2Nat.id. apply N.lt_le_trans with (2 ^ N.size n); [apply N.size_gt|].
  apply N.pow_le_mono_l. lia.
Qed.

(* the digits of n, most significant first *)
Definition mdigits (n : N) : list N := rev (digits16 (N.to_nat (N.size n)) n).

Lemma hexn_nonzero n : n <> 0 -> hexn n = string_of_chars (map hexdigit (mdigits n)).
Proof. intro H. unfold hexn, mdigits. destruct (N.eqb_spec n 0); [contradiction|]. rewrite map_rev. reflexivity. Qed.

Lemma soc_length l : String.length (string_of_chars l) = List.length l.
Proof. induction l as [|c r IH]; cbn; [reflexivity|]. rewrite IH. reflexivity. Qed.
Lemma soc_all f l : all_chars f (string_of_chars l) = forallb f l.
Proof. induction l as [|c r IH]; cbn; [reflexivity|]. rewrite IH. reflexivity. Qed.

Lemma mdigits_small n : Forall (fun d => d < 16) (mdigits n).
Proof. unfold mdigits. apply Forall_rev, digits16_small. Qed.

Theorem hexn_lhex n : all_chars is_lhex (hexn n) = true.
Proof.
  destruct (N.eq_dec n 0) as [->|Hz]; [reflexivity|]. rewrite hexn_nonzero by exact Hz. rewrite soc_all.
  apply forallb_forall. intros c Hc. apply in_map_iff in Hc. destruct Hc as [d [<- Hd]].
  apply hexdigit_lhex. pose proof (mdigits_small n) as HF. rewrite Forall_forall in HF. apply HF, Hd.
Qed.

Lemma hexn_length_pos n : (1 <= String.length (hexn n))%nat.
Proof.
  destruct (N.eq_dec n 0) as [->|Hz]; [cbn; lia|]. rewrite hexn_nonzero by exact Hz.
  rewrite soc_length, map_length. unfold mdigits. rewrite rev_length.
  pose proof (digits16_length_ge (N.to_nat (N.size n)) n 0 ltac:(cbn; lia) (size_fuel n)). lia.
Qed.

Theorem hexn_length_le n k : n < 16 ^ N.of_nat k -> (1 <= k)%nat -> (String.length (hexn n) <= k)%nat.
Proof.
  intros Hn Hk. destruct (N.eq_dec n 0) as [->|Hz]; [cbn; lia|]. rewrite hexn_nonzero by exact Hz.
  rewrite soc_length, map_length. unfold mdigits. rewrite rev_length. apply digits16_length_le, Hn.
Qed.

Theorem hexn_length_ge n k : 16 ^ N.of_nat k <= n -> (k < String.length (hexn n))%nat.
Proof.
  intros Hk. assert (Hz : n <> 0). { assert (16 ^ N.of_nat k <> 0) by (apply N.pow_nonzero; lia). lia. }
  rewrite hexn_nonzero by exact Hz. rewrite soc_length, map_length. unfold mdigits. rewrite rev_length.
  apply digits16_length_ge; [exact Hk|apply size_fuel].
Qed.

(* reading the numeral back *)
Lemma hexnum_acc_digits ms : Forall (fun d => d < 16) ms -> forall acc,
  hexnum_acc (string_of_chars (map hexdigit ms)) acc = Some (fold_left (fun a d => a * 16 + d) ms acc).
Proof.
  induction 1 as [|d ms Hd _ IH]; intros acc; [reflexivity|].
  cbn [map string_of_chars hexnum_acc fold_left]. rewrite (lhex_xdigit _ (hexdigit_lhex d Hd)), hexval_hexdigit by exact Hd.
  apply IH.
Qed.

Lemma fold_left_rev_val ds : fold_left (fun a d => a * 16 + d) (rev ds) 0 = val16 ds.
Proof.
  rewrite <- fold_left_rev_right, rev_involutive. unfold val16. induction ds as [|d r IH]; [reflexivity|].
  cbn [fold_right]. rewrite IH. lia.
Qed.

Theorem hexnum_hexn n : hexnum (hexn n) = Some n.
Proof.
  destruct (N.eq_dec n 0) as [->|Hz]; [reflexivity|].
  pose proof (hexn_length_pos n) as Hl. unfold hexnum. destruct (hexn n) as [|c r] eqn:E; [cbn in Hl; lia|].
  rewrite <- E, hexn_nonzero by exact Hz. rewrite hexnum_acc_digits by apply mdigits_small.
  unfold mdigits. rewrite fold_left_rev_val, digits16_val; [reflexivity|apply size_fuel].
Qed.

Theorem hexn_inj n m : hexn n = hexn m -> n = m.
Proof. intro H. apply (f_equal hexnum) in H. rewrite !hexnum_hexn in H. congruence. Qed.

(* %08x *)
Lemma zeros_length k : String.length (zeros k) = k.
Proof. induction k as [|k IH]; cbn; [reflexivity|]. rewrite IH. reflexivity. Qed.
Lemma zeros_lhex k : all_chars is_lhex (zeros k) = true.
Proof. induction k as [|k IH]; cbn [zeros all_chars]; [reflexivity|]. rewrite IH. reflexivity. Qed.

Theorem hex08_lhex n : all_chars is_lhex (hex08 n) = true.
Proof. unfold hex08. rewrite all_chars_app, zeros_lhex, hexn_lhex. reflexivity. Qed.

Theorem hex08_length n : n < 4294967296 -> String.length (hex08 n) = 8%nat.
Proof.
  intro Hn. unfold hex08. rewrite length_app, zeros_length.
  pose proof (hexn_length_le n 8 ltac:(exact Hn) ltac:(lia)). lia.
Qed.

Theorem hex08_length_ge n : (8 <= String.length (hex08 n))%nat.
Proof. unfold hex08. rewrite length_app, zeros_length. lia. Qed.

Theorem hex08_big n : 268435456 <= n -> hex08 n = hexn n.
Proof.
  intro Hn. unfold hex08. pose proof (hexn_length_ge n 7 ltac:(exact Hn)).
  replace (8 - String.length (hexn n))%nat with 0%nat by lia. reflexivity.
Qed.

Lemma hexnum_acc_zeros k s : hexnum_acc (zeros k ++ s)%string 0 = hexnum_acc s 0.
Proof. induction k as [|k IH]; [reflexivity|]. cbn [zeros append hexnum_acc]. exact IH. Qed.

Theorem hexnum_hex08 n : hexnum (hex08 n) = Some n.
Proof.
  pose proof (hexnum_hexn n) as H. unfold hexnum in *. unfold hex08.
  pose proof (hexn_length_pos n) as Hl.
  destruct (hexn n) as [|c r] eqn:E; [cbn in Hl; lia|].
  destruct (zeros (8 - String.length (String c r)) ++ String c r)%string as [|c' r'] eqn:E2.
  - destruct (8 - String.length (String c r))%nat; discriminate.
  - rewrite <- E2, hexnum_acc_zeros. exact H.
Qed.

Theorem hex08_inj n m : hex08 n = hex08 m -> n = m.
Proof. intro H. apply (f_equal hexnum) in H. rewrite !hexnum_hex08 in H. congruence. Qed.

(* hex digits never contain the separator *)
Lemma lhex_no_at s : all_chars is_lhex s = true -> has_char "@" s = false.
Proof. apply all_chars_no_char. reflexivity. Qed.
Lemma xdigit_no_at s : all_chars is_xdigit s = true -> has_char "@" s = false.
Proof. apply all_chars_no_char. reflexivity. Qed.
Lemma xdigit_no_plus s : all_chars is_xdigit s = true -> has_char "+" s = false.
Proof. apply all_chars_no_char. reflexivity. Qed.
