(* Shared string utilities: bytes <-> string, hex, lexicographic order (Go's string "<"),
   with the strict-total-order facts needed by SortPerm. No axioms. *)
From Coq Require Import NArith List Ascii String Bool Lia.
Import ListNotations.
Local Open Scope N_scope.

Definition hexdigit (n : N) : ascii := ascii_of_N (if n <? 10 then 48 + n else 87 + n).
Fixpoint hex (l : list N) : string :=
  match l with [] => EmptyString | b :: r => String (hexdigit (b / 16)) (String (hexdigit (b mod 16)) (hex r)) end.
Fixpoint bytes_of_string (s : string) : list N :=
  match s with EmptyString => [] | String c r => N_of_ascii c :: bytes_of_string r end.
Fixpoint string_of_bytes (l : list N) : string :=
  match l with [] => EmptyString | b :: r => String (ascii_of_N b) (string_of_bytes r) end.

(* value of one hex digit (either case); 16 = not a hex digit *)
Definition hexval (c : ascii) : N :=
  let n := N_of_ascii c in
  if (48 <=? n) && (n <=? 57) then n - 48
  else if (97 <=? n) && (n <=? 102) then n - 87
  else if (65 <=? n) && (n <=? 70) then n - 55
  else 16.
(* decode a hex string into bytes; used by generated case files so that no escaping logic is trusted *)
Fixpoint unhex (s : string) : list N :=
  match s with
  | String a (String b r) => (hexval a * 16 + hexval b) :: unhex r
  | _ => []
  end.
Definition hs (s : string) : string := string_of_bytes (unhex s).

Fixpoint drop (n : nat) (s : string) : string :=
  match n, s with O, _ => s | S n, String _ r => drop n r | S _, EmptyString => EmptyString end.
Fixpoint take (n : nat) (s : string) : string :=
  match n, s with O, _ => EmptyString | S n, String c r => String c (take n r) | S _, EmptyString => EmptyString end.

(* Go's s < t on strings: bytewise lexicographic *)
Fixpoint str_ltb (s t : string) : bool :=
  match s, t with
  | _, EmptyString => false
  | EmptyString, String _ _ => true
  | String a s', String b t' =>
      if N_of_ascii a <? N_of_ascii b then true
      else if N_of_ascii b <? N_of_ascii a then false
      else str_ltb s' t'
  end.

Lemma N_of_ascii_inj a b : N_of_ascii a = N_of_ascii b -> a = b.
Proof. intros H. rewrite <- (ascii_N_embedding a), <- (ascii_N_embedding b), H. reflexivity. Qed.

Lemma str_ltb_irrefl s : str_ltb s s = false.
Proof. induction s as [|a s IH]; cbn [str_ltb]; [reflexivity|]. rewrite N.ltb_irrefl. exact IH. Qed.

Lemma str_ltb_trans s : forall t u, str_ltb s t = true -> str_ltb t u = true -> str_ltb s u = true.
Proof.
  induction s as [|a s IH]; intros t u H1 H2.
  - destruct t as [|b t]; [discriminate|]. destruct u as [|c u]; [cbn in H2; discriminate|reflexivity].
  - destruct t as [|b t]; [discriminate|]. destruct u as [|c u]; [cbn in H2; discriminate|].
    cbn [str_ltb] in *.
    destruct (N.ltb_spec (N_of_ascii a) (N_of_ascii b)) as [Hab|Hab];
    destruct (N.ltb_spec (N_of_ascii b) (N_of_ascii c)) as [Hbc|Hbc].
    + destruct (N.ltb_spec (N_of_ascii a) (N_of_ascii c)); [reflexivity|lia].
    + destruct (N.ltb_spec (N_of_ascii c) (N_of_ascii b)) as [Hcb|Hcb]; [discriminate|].
      destruct (N.ltb_spec (N_of_ascii a) (N_of_ascii c)); [reflexivity|lia].
    + destruct (N.ltb_spec (N_of_ascii b) (N_of_ascii a)) as [Hba|Hba]; [discriminate|].
      destruct (N.ltb_spec (N_of_ascii a) (N_of_ascii c)); [reflexivity|lia].
    + destruct (N.ltb_spec (N_of_ascii b) (N_of_ascii a)) as [Hba|Hba]; [discriminate|].
      destruct (N.ltb_spec (N_of_ascii c) (N_of_ascii b)) as [Hcb|Hcb]; [discriminate|].
      destruct (N.ltb_spec (N_of_ascii a) (N_of_ascii c)); [reflexivity|].
      destruct (N.ltb_spec (N_of_ascii c) (N_of_ascii a)); [lia|].
      eapply IH; eassumption.
Qed.

Lemma str_ltb_total s : forall t, str_ltb s t = true \/ str_ltb t s = true \/ s = t.
Proof.
  induction s as [|a s IH]; intros [|b t]; cbn [str_ltb]; auto.
  destruct (N.ltb_spec (N_of_ascii a) (N_of_ascii b)) as [Hab|Hab]; [auto|].
  destruct (N.ltb_spec (N_of_ascii b) (N_of_ascii a)) as [Hba|Hba]; [auto|].
  assert (a = b) by (apply N_of_ascii_inj; lia). subst b.
  destruct (IH t) as [H|[H|H]]; auto. right; right. f_equal; exact H.
Qed.

Definition str_eqb := String.eqb.

(* decimal printing of N (Go's strconv / %d) with explicit fuel = number of digits bound *)
Fixpoint dec_aux (fuel : nat) (n : N) (acc : string) : string :=
  match fuel with
  | O => acc
  | S f => let acc' := String (ascii_of_N (48 + n mod 10)) acc in
           if n / 10 =? 0 then acc' else dec_aux f (n / 10) acc'
  end.
Definition dec (n : N) : string := dec_aux (S (N.to_nat (N.log2 n))) n EmptyString.
