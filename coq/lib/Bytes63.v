(* Fast transport of byte strings into generated case files.
   coqc needs ~65 us per character of a string literal (each character elaborates to 9 constructors); a primitive
   63-bit integer literal is one node.  A string is therefore emitted as a list of integers, each holding up to 7
   bytes (little endian) in bits 0-55 and the number of bytes in bits 56-58, and decoded here with primitive integer
   operations.  Used only by case files (never by a theorem); a decoding error would show up as a correspondence
   mismatch. *)
From Coq Require Import List String Ascii Uint63.
Import ListNotations.
Local Open Scope uint63_scope.

Definition bit63 (v i : int) : bool := negb (((v >> i) land 1) =? 0).
Definition ascii_of_int (v : int) : ascii :=
  Ascii (bit63 v 0) (bit63 v 1) (bit63 v 2) (bit63 v 3) (bit63 v 4) (bit63 v 5) (bit63 v 6) (bit63 v 7).
Fixpoint bytes63 (fuel : nat) (n v : int) (rest : string) : string :=
  match fuel with
  | O => rest
  | S f => if n =? 0 then rest else String (ascii_of_int (v land 255)) (bytes63 f (n - 1) (v >> 8) rest)
  end.
Fixpoint us (l : list int) : string :=
  match l with [] => EmptyString | x :: r => bytes63 7 (x >> 56) x (us r) end.
