(* Shared by C07 and C19: splitting a string on one separator byte (Go's strings.Split with a
   one-byte separator), joining, character classes, all_chars, substring search, and printing of a
   natural number in lowercase hexadecimal (Go's strconv.FormatInt(n,16) / "%x", Ruby's to_s(16)).
   Definitions first, then the lemmas the C07/C19 proofs use.  No axioms. *)
From Coq Require Import NArith List Ascii String Bool Lia Arith.
From AV Require Import lib.Str.
Import ListNotations.
Local Open Scope string_scope.

(* ---------- definitions ---------- *)

Fixpoint split_on (sep : ascii) (s : string) : list string :=
  match s with
  | EmptyString => [EmptyString]
  | String c r =>
    if Ascii.eqb c sep then EmptyString :: split_on sep r
    else match split_on sep r with
         | x :: xs => String c x :: xs
         | [] => [String c EmptyString]
         end
  end.

Fixpoint join (sep : ascii) (l : list string) : string :=
  match l with
  | [] => EmptyString
  | [x] => x
  | x :: r => x ++ String sep (join sep r)
  end.

Fixpoint all_chars (f : ascii -> bool) (s : string) : bool :=
  match s with EmptyString => true | String c r => f c && all_chars f r end.
Fixpoint has_char (c : ascii) (s : string) : bool :=
  match s with EmptyString => false | String d r => Ascii.eqb d c || has_char c r end.

Definition cN (c : ascii) : N := N_of_ascii c.
Definition in_range (lo hi : N) (c : ascii) : bool := ((lo <=? cN c) && (cN c <=? hi))%N.
Definition is_digit (c : ascii) : bool := in_range 48 57 c.
Definition is_lower (c : ascii) : bool := in_range 97 122 c.
Definition is_upper (c : ascii) : bool := in_range 65 90 c.
Definition is_lhex (c : ascii) : bool := is_digit c || in_range 97 102 c.           (* [0-9a-f] *)
Definition is_xdigit (c : ascii) : bool := is_lhex c || in_range 65 70 c.            (* [[:xdigit:]] *)

(* prefix test (strings.HasPrefix s p) *)
Fixpoint has_prefix (p s : string) : bool :=
  match p, s with
  | EmptyString, _ => true
  | String a p', String b s' => Ascii.eqb a b && has_prefix p' s'
  | String _ _, EmptyString => false
  end.
(* strings.Contains s sub *)
Fixpoint contains (sub s : string) : bool :=
  has_prefix sub s || match s with EmptyString => false | String _ r => contains sub r end.

(* lowercase hexadecimal of a number without padding: least significant digit first, with fuel *)
Fixpoint digits16 (fuel : nat) (n : N) : list N :=
  match fuel with
  | O => []
  | S f => if (n =? 0)%N then [] else (n mod 16)%N :: digits16 f (n / 16)%N
  end.
Fixpoint string_of_chars (l : list ascii) : string :=
  match l with [] => EmptyString | c :: r => String c (string_of_chars r) end.
Definition hexn (n : N) : string :=
  if (n =? 0)%N then "0" else string_of_chars (rev (map hexdigit (digits16 (N.to_nat (N.size n)) n))).
Fixpoint zeros (k : nat) : string := match k with O => EmptyString | S k => String "0" (zeros k) end.
(* Go's fmt "%08x" for a non-negative number *)
Definition hex08 (n : N) : string := let s := hexn n in zeros (8 - String.length s) ++ s.

(* value of a hexadecimal numeral (either case); None if empty or a character is no hex digit *)
Fixpoint hexnum_acc (s : string) (acc : N) : option N :=
  match s with
  | EmptyString => Some acc
  | String c r => if is_xdigit c then hexnum_acc r (acc * 16 + hexval c)%N else None
  end.
Definition hexnum (s : string) : option N :=
  match s with EmptyString => None | _ => hexnum_acc s 0%N end.

(* ---------- lemmas ---------- *)

Lemma split_on_nonnil sep s : split_on sep s <> [].
Proof.
  destruct s as [|c r]; cbn [split_on]; [discriminate|].
  destruct (Ascii.eqb c sep); [discriminate|]. destruct (split_on sep r); discriminate.
Qed.

Lemma join_cons sep x y r : join sep (x :: y :: r) = x ++ String sep (join sep (y :: r)).
Proof. reflexivity. Qed.

Lemma join_split sep s : join sep (split_on sep s) = s.
Proof.
  induction s as [|c r IH]; [reflexivity|]. cbn [split_on].
  destruct (Ascii.eqb_spec c sep) as [->|Hne].
  - pose proof (split_on_nonnil sep r) as Hn. destruct (split_on sep r) as [|y l]; [contradiction|].
    rewrite join_cons, IH. reflexivity.
  - pose proof (split_on_nonnil sep r) as Hn. destruct (split_on sep r) as [|y l]; [contradiction|].
    destruct l as [|z l].
    + cbn [join] in *. rewrite IH. reflexivity.
    + rewrite join_cons in *. cbn [append]. rewrite IH. reflexivity.
Qed.

Lemma split_on_nosep sep s : has_char sep s = false -> split_on sep s = [s].
Proof.
  induction s as [|c r IH]; [reflexivity|]. cbn [has_char split_on]. intro H.
  apply orb_false_iff in H. destruct H as [H1 H2]. rewrite H1, (IH H2). reflexivity.
Qed.

Lemma split_on_app sep a b :
  has_char sep a = false ->
  split_on sep (a ++ String sep b) = a :: split_on sep b.
Proof.
  induction a as [|c r IH]; cbn [append has_char split_on]; intro H.
  - rewrite Ascii.eqb_refl. reflexivity.
  - apply orb_false_iff in H. destruct H as [H1 H2]. rewrite H1, (IH H2). reflexivity.
Qed.

(* split is the inverse of join on separator-free fields *)
Lemma split_join sep l :
  l <> [] -> Forall (fun f => has_char sep f = false) l -> split_on sep (join sep l) = l.
Proof.
  induction l as [|x r IH]; [contradiction|]. intros _ HF. inversion HF as [|? ? Hx Hr]; subst.
  destruct r as [|y r].
  - cbn [join]. apply split_on_nosep. exact Hx.
  - rewrite join_cons, split_on_app by exact Hx. rewrite IH; [reflexivity|discriminate|exact Hr].
Qed.

Lemma split_fields_nosep sep s : Forall (fun f => has_char sep f = false) (split_on sep s).
Proof.
  induction s as [|c r IH]; cbn [split_on]; [repeat constructor|].
  destruct (Ascii.eqb_spec c sep) as [->|Hne].
  - constructor; [reflexivity|exact IH].
  - pose proof (split_on_nonnil sep r) as Hn. destruct (split_on sep r) as [|y l]; [contradiction|].
    inversion IH; subst. constructor; [|assumption]. cbn [has_char].
    destruct (Ascii.eqb_spec c sep); [contradiction|]. assumption.
Qed.

Lemma all_chars_app f a b : all_chars f (a ++ b) = all_chars f a && all_chars f b.
Proof. induction a as [|c r IH]; cbn [append all_chars]; [reflexivity|]. rewrite IH, andb_assoc. reflexivity. Qed.

Lemma has_char_app c a b : has_char c (a ++ b) = has_char c a || has_char c b.
Proof. induction a as [|d r IH]; cbn [append has_char]; [reflexivity|]. rewrite IH, orb_assoc. reflexivity. Qed.

Lemma all_chars_no_char f c s : f c = false -> all_chars f s = true -> has_char c s = false.
Proof.
  intros Hc. induction s as [|d r IH]; cbn [all_chars has_char]; [reflexivity|]. intro H.
  apply andb_true_iff in H. destruct H as [H1 H2]. rewrite (IH H2), orb_false_r.
  destruct (Ascii.eqb_spec d c) as [->|]; [congruence|reflexivity].
Qed.

Lemma all_chars_weaken (f g : ascii -> bool) s :
  (forall c, f c = true -> g c = true) -> all_chars f s = true -> all_chars g s = true.
Proof.
  intros Hfg. induction s as [|c r IH]; cbn [all_chars]; [reflexivity|]. intro H.
  apply andb_true_iff in H. destruct H as [H1 H2]. rewrite (Hfg _ H1), (IH H2). reflexivity.
Qed.

Lemma length_app a b : String.length (a ++ b) = String.length a + String.length b.
Proof. induction a as [|c r IH]; cbn [append String.length]; [reflexivity|]. rewrite IH. reflexivity. Qed.

Lemma take_app_exact a b : take (String.length a) (a ++ b) = a.
Proof. induction a as [|c r IH]; cbn [append String.length take]; [destruct b; reflexivity|]. rewrite IH. reflexivity. Qed.
Lemma drop_app_exact a b : drop (String.length a) (a ++ b) = b.
Proof. induction a as [|c r IH]; cbn [append String.length drop]; [reflexivity|]. exact IH. Qed.
Lemma take_drop n s : take n s ++ drop n s = s.
Proof. revert s; induction n as [|n IH]; intros s; [reflexivity|]. destruct s as [|c r]; [reflexivity|]. cbn [take drop append]. rewrite IH. reflexivity. Qed.
Lemma take_length_le n s : String.length (take n s) <= n.
Proof. revert s; induction n as [|n IH]; intros s; [cbn; lia|]. destruct s as [|c r]; cbn [take String.length]; [lia|]. specialize (IH r). lia. Qed.
Lemma take_length n s : n <= String.length s -> String.length (take n s) = n.
Proof. revert s; induction n as [|n IH]; intros s H; [reflexivity|]. destruct s as [|c r]; cbn [String.length] in H; [lia|]. cbn [take String.length]. rewrite IH; lia. Qed.
Lemma take_all n s : String.length s <= n -> take n s = s.
Proof. revert s; induction n as [|n IH]; intros s H; destruct s as [|c r]; cbn [String.length] in H; try reflexivity; [lia|]. cbn [take]. rewrite IH; [reflexivity|lia]. Qed.
Lemma drop_length n s : String.length (drop n s) = String.length s - n.
Proof. revert s; induction n as [|n IH]; intros s; [cbn; lia|]. destruct s as [|c r]; [reflexivity|]. cbn [drop String.length]. apply IH. Qed.
Lemma app_assoc_s (a b c : string) : (a ++ b) ++ c = a ++ (b ++ c).
Proof. induction a as [|x r IH]; cbn [append]; [reflexivity|]. rewrite IH. reflexivity. Qed.
Lemma app_nil_r_s (a : string) : a ++ "" = a.
Proof. induction a as [|x r IH]; cbn [append]; [reflexivity|]. rewrite IH. reflexivity. Qed.

Lemma app_inj_len (a b c d : string) : String.length a = String.length c -> a ++ b = c ++ d -> a = c /\ b = d.
Proof.
  revert c. induction a as [|x a IH]; intros c Hl He; destruct c as [|y c]; cbn [String.length] in Hl; try lia.
  - auto.
  - cbn [append] in He. injection He as -> He. destruct (IH c ltac:(lia) He) as [-> ->]. auto.
Qed.

Lemma string_eqb_eq a b : String.eqb a b = true <-> a = b.
Proof. apply String.eqb_eq. Qed.

(* hex digits *)
Lemma hexdigit_lhex d : (d < 16)%N -> is_lhex (hexdigit d) = true.
Proof.
  intro H. assert (Hc : In d (map N.of_nat (seq 0 16))).
  { replace d with (N.of_nat (N.to_nat d)) by apply Nnat.N2Nat.id. apply in_map, in_seq. lia. }
  cbn in Hc. repeat (destruct Hc as [<-|Hc]; [vm_compute; reflexivity|]). contradiction.
Qed.

Lemma hexdigit_inj a b : (a < 16)%N -> (b < 16)%N -> hexdigit a = hexdigit b -> a = b.
Proof.
  intros Ha Hb H.
  assert (Hv : forall d, (d < 16)%N -> hexval (hexdigit d) = d).
  { intros d Hd. assert (Hc : In d (map N.of_nat (seq 0 16))).
    { replace d with (N.of_nat (N.to_nat d)) by apply Nnat.N2Nat.id. apply in_map, in_seq. lia. }
    cbn in Hc. repeat (destruct Hc as [<-|Hc]; [vm_compute; reflexivity|]). contradiction. }
  rewrite <- (Hv a Ha), <- (Hv b Hb), H. reflexivity.
Qed.

Lemma hexval_hexdigit d : (d < 16)%N -> hexval (hexdigit d) = d.
Proof.
  intros Hd. assert (Hc : In d (map N.of_nat (seq 0 16))).
  { replace d with (N.of_nat (N.to_nat d)) by apply Nnat.N2Nat.id. apply in_map, in_seq. lia. }
  cbn in Hc. repeat (destruct Hc as [<-|Hc]; [vm_compute; reflexivity|]). contradiction.
Qed.

Lemma hex_length l : String.length (hex l) = 2 * List.length l.
Proof. induction l as [|b l IH]; cbn [hex String.length List.length]; [reflexivity|]. rewrite IH. lia. Qed.

Lemma hex_lhex l : Forall (fun b => (b < 256)%N) l -> all_chars is_lhex (hex l) = true.
Proof.
  induction 1 as [|b l Hb _ IH]; cbn [hex all_chars]; [reflexivity|].
  rewrite IH, !hexdigit_lhex; [reflexivity| |].
  - apply N.mod_lt. discriminate.
  - apply N.div_lt_upper_bound; [discriminate|]. exact Hb.
Qed.

Lemma lhex_xdigit c : is_lhex c = true -> is_xdigit c = true.
Proof. unfold is_xdigit. intros ->. reflexivity. Qed.
