(* C19 — a token secret never leaves the cluster unsalted: property theorems only.  Each is closed by
   `exact` of a lemma from proofs/C19_*.v.  Model: model/C19_model.v (salt_token = auth.SaltToken as
   it is after the F6a fix, provide_one/provider = federation.saltedTokenProvider, remote_client =
   keepstore remoteProxy.remoteClient, legacy = controller Handler.saltAuthToken, remote_request =
   Handler.remoteClusterRequest + proxy.Do, crc = federation.Conn.ContainerRequestCreate).
   v2_fields token uuid secret: the first three '/'-separated fields of token are "v2", uuid, secret;
   is_salted_secret s: s is exactly 40 lowercase hex digits; is_obsolete t: 41+ characters [0-9a-z].
   Nothing is assumed about HMAC-SHA1. *)
From Coq Require Import NArith List String Ascii Bool.
From AV Require Import lib.Str lib.Sha1 lib.TokSplit model.C19_model model.C19_run proofs.C19_proofs proofs.C19_spec.
Import ListNotations.
Local Open Scope string_scope.

(* salting replaces the secret by the 40-lowercase-hex HMAC-SHA1 of the remote id keyed with the secret,
   keeps the uuid, drops further path segments *)
Theorem C19_salt_shape : forall token remote uuid secret,
  v2_fields token uuid secret -> is_salted_secret secret = false ->
  salt_token token remote = Salted ("v2/" ++ uuid ++ "/" ++ hmac_sha1_hex secret remote) /\
  String.length (hmac_sha1_hex secret remote) = 40 /\ all_chars is_lhex (hmac_sha1_hex secret remote) = true.
Proof. exact salt_shape. Qed.
Print Assumptions C19_salt_shape.

Theorem C19_salt_deterministic : forall token remote a b,
  salt_token token remote = a -> salt_token token remote = b -> a = b.
Proof. exact salt_deterministic. Qed.
Print Assumptions C19_salt_deterministic.

(* a secret that already is a 40-hex salt is never salted again: the token is returned as it is when
   its uuid belongs to the remote, and reported as already salted otherwise *)
Theorem C19_never_double_salted : forall token remote uuid secret,
  v2_fields token uuid secret -> is_salted_secret secret = true ->
  salt_token token remote = if has_prefix remote uuid then Salted token else ErrSalted.
Proof. exact never_double_salted. Qed.
Print Assumptions C19_never_double_salted.

(* in particular the output of salting is a fixed point / refused for every remote *)
Theorem C19_salted_is_fixed_point : forall token remote uuid secret remote' out,
  v2_fields token uuid secret -> is_salted_secret secret = false ->
  salt_token token remote = Salted out ->
  salt_token out remote' = if has_prefix remote' uuid then Salted out else ErrSalted.
Proof. exact salted_is_fixed_point. Qed.
Print Assumptions C19_salted_is_fixed_point.

(* what is not v2/uuid/secret never yields a token from SaltToken *)
Theorem C19_salt_not_v2_is_error : forall token remote,
  not_v2 token ->
  (is_obsolete token = true /\ salt_token token remote = ErrObsolete) \/
  (is_obsolete token = false /\ salt_token token remote = ErrFormat).
Proof. exact salt_not_v2_is_error. Qed.
Print Assumptions C19_salt_not_v2_is_error.

(* passthrough cases of the provider: unsalted v2 => salted; already salted => as it is; not in
   Arvados format => unchanged; legacy => by the local lookup *)
Theorem C19_passthrough_cases : forall local remote token,
  (forall uuid secret, v2_fields token uuid secret -> is_salted_secret secret = false ->
     provide_one local remote token = Some ("v2/" ++ uuid ++ "/" ++ hmac_sha1_hex secret remote)) /\
  (forall uuid secret, v2_fields token uuid secret -> is_salted_secret secret = true ->
     provide_one local remote token = Some token) /\
  (not_v2 token -> is_obsolete token = false -> provide_one local remote token = Some token) /\
  (not_v2 token -> is_obsolete token = true ->
     provide_one local remote token =
       match local token with
       | AcaUnauthorized => Some token
       | AcaError => None
       | AcaOk uuid api =>
         if has_prefix remote uuid then Some token
         else match salt_token ("v2/" ++ uuid ++ "/" ++ api) remote with Salted t => Some t | _ => None end
       end).
Proof. exact provide_one_meets_spec. Qed.
Print Assumptions C19_passthrough_cases.

(* a legacy token that resolves locally to (uuid, api_token) of another cluster leaves as the salted
   form of v2/uuid/api_token *)
Theorem C19_legacy_token_salted_from_resolved_form : forall local remote token uuid api,
  not_v2 token -> is_obsolete token = true -> local token = AcaOk uuid api ->
  has_prefix remote uuid = false -> has_char "/" uuid = false -> has_char "/" api = false -> is_salted_secret api = false ->
  provide_one local remote token = Some ("v2/" ++ uuid ++ "/" ++ hmac_sha1_hex api remote).
Proof. exact provide_legacy_resolved. Qed.
Print Assumptions C19_legacy_token_salted_from_resolved_form.

(* the provider handles the tokens one by one and fails as a whole if one fails *)
Theorem C19_provider_pointwise : forall local remote tokens outs,
  provider local remote (Some tokens) = Some outs <->
  Forall2 (fun t o => provide_one local remote t = Some o) tokens outs.
Proof. exact provider_pointwise. Qed.
Print Assumptions C19_provider_pointwise.

(* non-disclosure: the secret occurs in v2/uuid/H only where it occurs in "v2", the uuid or the digest;
   a secret longer than 40 characters occurs in it only if it occurs in the uuid *)
Theorem C19_forwarded_has_no_secret : forall uuid secret remote,
  has_char "/" secret = false ->
  let out := "v2/" ++ uuid ++ "/" ++ hmac_sha1_hex secret remote in
  (contains secret out = true ->
   contains secret "v2" = true \/ contains secret uuid = true \/ contains secret (hmac_sha1_hex secret remote) = true) /\
  (40 < String.length secret -> contains secret out = true -> contains secret uuid = true).
Proof. exact forwarded_has_no_secret. Qed.
Print Assumptions C19_forwarded_has_no_secret.

(* ... hence no token the provider forwards contains the long secret of the token it was made from *)
Theorem C19_provider_no_secret : forall local remote ts outs,
  provider local remote (Some ts) = Some outs -> no_secret_b ts outs = true.
Proof. exact provider_no_secret. Qed.
Print Assumptions C19_provider_no_secret.

(* keepstore hands the remote cluster a token only if SaltToken produced it *)
Theorem C19_keepstore_remote_client : forall token remote out,
  remote_client token remote = Some out <-> salt_token token remote = Salted out.
Proof. exact remote_client_salted. Qed.
Print Assumptions C19_keepstore_remote_client.

(* Legacy controller path (F6b, open).  "A forwarded request carries only the salted form of its
   first token" is false: *)
Theorem C19_legacy_forwards_only_salted_refuted :
  ~ (forall db r remote r' t0 rest uuid secret,
       legacy db r remote = LFwd r' -> load_tokens r = t0 :: rest ->
       v2_fields t0 uuid secret -> is_salted_secret secret = false ->
       carried r' = ["v2/" ++ uuid ++ "/" ++ hmac_sha1_hex secret remote]).
Proof. exact legacy_forwards_only_salted_refuted. Qed.
Print Assumptions C19_legacy_forwards_only_salted_refuted.

(* the two witnesses: token only in the urlencoded form body; token in header and cookie *)
Theorem C19_legacy_form_token_forwarded_unsalted_refuted :
  exists r', legacy (fun _ => DbError) f6b_form_request "bbbbb" = LFwd r' /\
             In "v2/aaaaa-gj3su-000000000000000/thisisthesecretpartofthetokenwhichislongerthan40chars" (carried r').
Proof. exact legacy_form_token_forwarded_unsalted. Qed.
Print Assumptions C19_legacy_form_token_forwarded_unsalted_refuted.

Theorem C19_legacy_cookie_token_forwarded_unsalted_refuted :
  exists r', legacy (fun _ => DbError) f6b_cookie_request "bbbbb" = LFwd r' /\
             In "v2/aaaaa-gj3su-000000000000000/thisisthesecretpartofthetokenwhichislongerthan40chars" (carried r').
Proof. exact legacy_cookie_token_forwarded_unsalted. Qed.
Print Assumptions C19_legacy_cookie_token_forwarded_unsalted_refuted.

(* It holds when the request has no api_token in its form body and no token cookie: the forwarded
   request then carries exactly one token, the salted form of the first one found (header, basic-auth
   password, query); every other token is dropped. *)
Theorem C19_legacy_forwards_only_salted_partial : forall db r remote r' t0 rest uuid secret,
  values "api_token" (l_form r) = [] -> l_cookie r = None ->
  legacy db r remote = LFwd r' -> load_tokens r = t0 :: rest ->
  v2_fields t0 uuid secret -> is_salted_secret secret = false ->
  carried r' = ["v2/" ++ uuid ++ "/" ++ hmac_sha1_hex secret remote].
Proof. exact legacy_forwards_only_salted_partial. Qed.
Print Assumptions C19_legacy_forwards_only_salted_partial.

Theorem C19_legacy_carries_one_token_partial : forall db r remote r' t0 rest,
  values "api_token" (l_form r) = [] -> l_cookie r = None ->
  legacy db r remote = LFwd r' -> load_tokens r = t0 :: rest ->
  exists out, carried r' = [out] /\
    (salt_token t0 remote = Salted out \/
     ((salt_token t0 remote = ErrObsolete \/ salt_token t0 remote = ErrFormat) /\
      (out = t0 \/ exists user auth_uuid secret, db t0 = DbFound user auth_uuid secret /\
                                                salt_token ("v2/" ++ auth_uuid ++ "/" ++ secret) remote = Salted out))).
Proof. exact legacy_carries_one_token. Qed.
Print Assumptions C19_legacy_carries_one_token_partial.

(* Whatever the request carries: once a token is found, the forwarded Authorization header is the
   outcome for that first token, the forwarded query has no api_token, and form body and cookie are
   the incoming ones -- an unsalted secret can leave only through the form body or the cookie (this
   is the trigger predicate of F6b) *)
Theorem C19_legacy_leak_confined_to_form_and_cookie : forall db r remote r' t0 rest,
  legacy db r remote = LFwd r' -> load_tokens r = t0 :: rest ->
  (exists out, l_auth r' = ABearer out /\
     (salt_token t0 remote = Salted out \/
      ((salt_token t0 remote = ErrObsolete \/ salt_token t0 remote = ErrFormat) /\
       (out = t0 \/ exists user auth_uuid secret, db t0 = DbFound user auth_uuid secret /\
                                                 salt_token ("v2/" ++ auth_uuid ++ "/" ++ secret) remote = Salted out)))) /\
  values "api_token" (l_query r') = [] /\ l_form r' = l_form r /\ l_cookie r' = l_cookie r.
Proof. exact legacy_leak_confined. Qed.
Print Assumptions C19_legacy_leak_confined_to_form_and_cookie.

(* no token in header, query or cookie: the request is forwarded as it came, form body included *)
Theorem C19_legacy_no_token_found_forwards_unchanged : forall db r remote,
  load_tokens r = [] -> l_ctype r <> "application/x-www-form-encoded" -> legacy db r remote = LFwd r.
Proof. exact legacy_no_token_found. Qed.
Print Assumptions C19_legacy_no_token_found_forwards_unchanged.

(* The evaluator: boolean specification = Prop-level statements; digest table transparent; the model
   satisfies the specification; known-finding bits only inside the F6b trigger. *)
Theorem C19_spec_salt_reflects : forall token remote o,
  spec_salt_k hmac_sha1_hex token remote o = true <->
  ((forall uuid secret, v2_fields token uuid secret -> is_salted_secret secret = false ->
      o = Salted ("v2/" ++ uuid ++ "/" ++ hmac_sha1_hex secret remote)) /\
   (forall uuid secret, v2_fields token uuid secret -> is_salted_secret secret = true ->
      o = if has_prefix remote uuid then Salted token else ErrSalted) /\
   (not_v2 token -> o = if is_obsolete token then ErrObsolete else ErrFormat)).
Proof. exact spec_salt_reflects. Qed.
Print Assumptions C19_spec_salt_reflects.

Theorem C19_spec_fwd_reflects : forall local remote token out,
  spec_fwd_k hmac_sha1_hex local remote token = out <-> FwdSpec local remote token out.
Proof. exact spec_fwd_reflects. Qed.
Print Assumptions C19_spec_fwd_reflects.

Theorem C19_spec_prov_reflects : forall remote ts local o,
  spec_prov_k hmac_sha1_hex remote (Some ts) local o = true <->
  (o = provider (tab_get local) remote (Some ts) /\ match o with Some outs => no_secret_b ts outs = true | None => True end).
Proof. exact spec_prov_reflects. Qed.
Print Assumptions C19_spec_prov_reflects.

Theorem C19_spec_remote_reflects : forall token remote o,
  spec_remote_k hmac_sha1_hex token remote o = true <->
  match o with Some out => salt_token token remote = Salted out | None => forall out, salt_token token remote <> Salted out end.
Proof. exact spec_remote_reflects. Qed.
Print Assumptions C19_spec_remote_reflects.

Theorem C19_model_meets_spec :
  (forall token remote, spec_salt_k hmac_sha1_hex token remote (salt_token token remote) = true) /\
  (forall remote creds local, spec_prov_k hmac_sha1_hex remote creds local (provider (tab_get local) remote creds) = true) /\
  (forall token remote, spec_remote_k hmac_sha1_hex token remote (remote_client token remote) = true).
Proof. exact (conj model_meets_spec_salt (conj model_meets_spec_prov model_meets_spec_remote)). Qed.
Print Assumptions C19_model_meets_spec.

Theorem C19_check_case_eq : forall c, check_case c = code_of (model_b c) (spec_b c) (known_F6b_bits c).
Proof. exact check_case_eq. Qed.
Print Assumptions C19_check_case_eq.

Theorem C19_known_bits_narrow : forall c,
  known_F6b_bits c <> 0%N ->
  exists r secrets wire,
    ((exists remote dbt o_auth o_query, c = CLegacy r remote dbt secrets false o_auth o_query wire) \/
     (exists dbt sent, c = CStack r dbt secrets sent /\ wire = all_parts sent)) /\
    found LAuth secrets wire = false /\ found LQuery secrets wire = false /\ found LOther secrets wire = false /\
    (found LBody secrets wire = true \/ found LCookie secrets wire = true) /\
    (found LBody secrets wire = true -> form_carries r secrets = true) /\
    (found LCookie secrets wire = true -> cookie_carries r secrets = true) /\
    known_F6b_bits c = ((if found LBody secrets wire then 4 else 0) + (if found LCookie secrets wire then 8 else 0))%N.
Proof. exact known_bits_narrow. Qed.
Print Assumptions C19_known_bits_narrow.

(* What leaves, at the wire.  Handler.remoteClusterRequest puts on the wire exactly the request
   saltAuthToken returned -- header, body and in particular the query string, from which api_token has been
   removed -- so the statements about saltAuthToken hold of what the remote cluster receives *)
Theorem C19_wire_is_salted_request : forall db r remote, remote_request db r remote = legacy db r remote.
Proof. exact remote_request_is_salted_request. Qed.
Print Assumptions C19_wire_is_salted_request.

Theorem C19_wire_leak_confined_to_form_and_cookie : forall db r remote w t0 rest,
  remote_request db r remote = LFwd w -> load_tokens r = t0 :: rest ->
  (exists out, l_auth w = ABearer out /\
     (salt_token t0 remote = Salted out \/
      ((salt_token t0 remote = ErrObsolete \/ salt_token t0 remote = ErrFormat) /\
       (out = t0 \/ exists user auth_uuid secret, db t0 = DbFound user auth_uuid secret /\
                                                 salt_token ("v2/" ++ auth_uuid ++ "/" ++ secret) remote = Salted out)))) /\
  values "api_token" (l_query w) = [] /\ l_form w = l_form r /\ l_cookie w = l_cookie r.
Proof. exact wire_leak_confined. Qed.
Print Assumptions C19_wire_leak_confined_to_form_and_cookie.

Theorem C19_wire_carries_only_salted_partial : forall db r remote w t0 rest uuid secret,
  values "api_token" (l_form r) = [] -> l_cookie r = None ->
  remote_request db r remote = LFwd w -> load_tokens r = t0 :: rest ->
  v2_fields t0 uuid secret -> is_salted_secret secret = false ->
  carried w = ["v2/" ++ uuid ++ "/" ++ hmac_sha1_hex secret remote].
Proof. exact wire_carries_only_salted_partial. Qed.
Print Assumptions C19_wire_carries_only_salted_partial.

(* federation.Conn.ContainerRequestCreate: secrets embedded in the forwarded object.  Without an explicit
   runtime_token, a current token issued by this cluster (uuid with the local cluster's prefix) is never
   what goes into the forwarded request -- a fresh token is created for the user -- whatever the user's own
   origin; the current token is forwarded only when it was issued by another cluster *)
Theorem C19_crc_local_token_minted : forall local uuid api scopes user,
  has_prefix local uuid = true -> scope_all scopes = true ->
  crc_runtime_token local None (Some (uuid, api, scopes)) (Some user) = CrtMint user.
Proof. exact crc_local_token_minted. Qed.
Print Assumptions C19_crc_local_token_minted.

Theorem C19_crc_current_token_only_if_foreign : forall local aca user t,
  crc_runtime_token local None aca user = CrtCurrent t ->
  exists uuid api scopes, aca = Some (uuid, api, scopes) /\ has_prefix local uuid = false /\
                          scope_all scopes = true /\ t = "v2/" ++ uuid ++ "/" ++ api.
Proof. exact crc_current_token_only_if_foreign. Qed.
Print Assumptions C19_crc_current_token_only_if_foreign.

(* the whole call, for every provider lookup and every outcome of creating a token: the runtime_token of the
   request sent to the remote is the caller's explicit one, a freshly created one, or the v2 form of a
   current token issued elsewhere; its Authorization header is the provider's first token for that cluster *)
Theorem C19_crc_sent_runtime_token : forall lookup mint local remotes target creds rt aca user a t,
  crc lookup mint local remotes target creds rt aca user = CrcSent a t ->
  is_remote local remotes target = true /\
  (rt = Some t \/
   (rt = None /\ exists uuid api scopes, aca = Some (uuid, api, scopes) /\ scope_all scopes = true /\
      ((has_prefix local uuid = true /\ exists u, user = Some u /\ mint u = Some t) \/
       (has_prefix local uuid = false /\ t = "v2/" ++ uuid ++ "/" ++ api)))).
Proof. exact crc_sent_runtime_token. Qed.
Print Assumptions C19_crc_sent_runtime_token.

Theorem C19_crc_sent_authorization : forall lookup mint local remotes target creds rt aca user a t,
  crc lookup mint local remotes target creds rt aca user = CrcSent a t ->
  exists dest, cluster_of target = Some dest /\
    match provider lookup dest (Some creds) with
    | Some (x :: _) => a = "Bearer " ++ x
    | Some [] => a = "Bearer -"
    | None => False
    end.
Proof. exact crc_sent_authorization. Qed.
Print Assumptions C19_crc_sent_authorization.

(* The evaluator's search of what leaves.  Occurs sub s: s = a ++ sub ++ b for some a, b.  clean_b secrets
   wire: no listed secret occurs in any part (any place, any reading) of the outgoing requests; the five
   places of spec_wire_b are all there is *)
Theorem C19_contains_is_occurs : forall sub s, contains sub s = true <-> Occurs sub s.
Proof. exact contains_occurs. Qed.
Print Assumptions C19_contains_is_occurs.

Theorem C19_clean_reflects : forall secrets wire,
  clean_b secrets wire = true <-> forall s p, In s secrets -> In p wire -> ~ Occurs s (snd p).
Proof. exact clean_b_reflects. Qed.
Print Assumptions C19_clean_reflects.

Theorem C19_spec_wire_reflects : forall o_err secrets wire,
  spec_wire_b o_err secrets wire = true <->
  (o_err = true \/ forall s p, In s secrets -> In p wire -> ~ Occurs s (snd p)).
Proof. exact spec_wire_reflects. Qed.
Print Assumptions C19_spec_wire_reflects.

(* ContainerRequestCreate: the secrets judged are those of this cluster that the caller holds *)
Theorem C19_crc_secrets_are_local : forall local creds aca s,
  In s (crc_secrets local creds aca) <->
  ((exists t uuid, In t creds /\ v2_fields t uuid s /\ is_salted_secret s = false /\
                   has_prefix local uuid = true /\ 40 < String.length s) \/
   (exists uuid scopes, aca = Some (uuid, s, scopes) /\ has_prefix local uuid = true /\ 40 < String.length s)).
Proof. exact crc_secrets_spec. Qed.
Print Assumptions C19_crc_secrets_are_local.

Theorem C19_spec_crc_reflects : forall local creds rt aca o_sent o_rt wire,
  spec_crc_b local creds rt aca o_sent o_rt wire = true <->
  ((forall s p, In s (crc_secrets local creds aca) -> In p wire -> ~ Occurs s (snd p)) /\
   (o_sent = true -> rt = None -> forall uuid api scopes, aca = Some (uuid, api, scopes) ->
      has_prefix local uuid = true -> o_rt <> Some ("v2/" ++ uuid ++ "/" ++ api))).
Proof. exact spec_crc_reflects. Qed.
Print Assumptions C19_spec_crc_reflects.

(* the model meets the runtime_token clause, provided a freshly created token is not the current one *)
Theorem C19_model_meets_spec_crc : forall lookup mint local remotes target creds aca user a t,
  (forall u t', mint u = Some t' -> forall uuid api scopes, aca = Some (uuid, api, scopes) -> t' <> "v2/" ++ uuid ++ "/" ++ api) ->
  crc lookup mint local remotes target creds None aca user = CrcSent a t ->
  current_token_forwarded local None aca (Some t) = false.
Proof. exact model_meets_spec_crc. Qed.
Print Assumptions C19_model_meets_spec_crc.

(* keepstore remoteProxy.Get at the wire: the secrets judged are the caller's -- the long secret of an unsalted
   v2 token, or a legacy token as a whole *)
Theorem C19_ks_secrets_are_the_callers : forall token s,
  In s (ks_secrets token) <->
  ((exists uuid, v2_fields token uuid s /\ is_salted_secret s = false /\ 40 < String.length s /\ contains s uuid = false) \/
   (not_v2 token /\ is_obsolete token = true /\ s = token)).
Proof. exact ks_secrets_spec. Qed.
Print Assumptions C19_ks_secrets_are_the_callers.

(* ... and, for single and for overlapping requests through the per-remote cached keep client: nothing sent
   on behalf of a caller contains a listed secret, and each request bears "OAuth2 t" with t what SaltToken
   returned for that caller's own token (spec of CKsGet / CKsPair; for a pair the secrets of both callers
   are searched in what is sent for either) *)
Theorem C19_spec_ksget_reflects : forall secrets token remote sent,
  spec_ksget_k hmac_sha1_hex secrets token remote sent = true <->
  ((forall s p, In s secrets -> In p (all_parts sent) -> ~ Occurs s (snd p)) /\
   (forall q, In q sent -> exists t, snd (fst q) = "OAuth2 " ++ t /\ salt_token token remote = Salted t)).
Proof. exact spec_ksget_reflects. Qed.
Print Assumptions C19_spec_ksget_reflects.

Theorem C19_ksget_model_meets_spec : forall token remote sent,
  ksget_model_k hmac_sha1_hex token remote sent = true -> ks_auth_ok_k hmac_sha1_hex token remote sent = true.
Proof. exact ksget_model_auth_ok. Qed.
Print Assumptions C19_ksget_model_meets_spec.

(* Repeated and empty api_token parameters: every api_token value of the query string counts as a token
   (load_tokens), so a request that has the parameter at all -- e.g. ?api_token=&api_token=<token> -- never goes
   to the remote with it *)
Theorem C19_query_tokens_all_count : forall r v, In v (values "api_token" (l_query r)) -> In v (load_tokens r).
Proof. exact query_tokens_all_count. Qed.
Print Assumptions C19_query_tokens_all_count.

Theorem C19_query_token_never_forwarded : forall db r remote w,
  values "api_token" (l_query r) <> [] -> remote_request db r remote = LFwd w -> values "api_token" (l_query w) = [].
Proof. exact query_token_never_forwarded. Qed.
Print Assumptions C19_query_token_never_forwarded.

(* a failing database query is an error, not "token unknown here": nothing is forwarded *)
Theorem C19_db_error_forwards_nothing : forall db r remote t0 rest,
  load_tokens r = t0 :: rest ->
  (salt_token t0 remote = ErrObsolete \/ salt_token t0 remote = ErrFormat) -> db t0 = DbError ->
  legacy db r remote = LErr /\ remote_request db r remote = LErr.
Proof. exact db_error_forwards_nothing. Qed.
Print Assumptions C19_db_error_forwards_nothing.
