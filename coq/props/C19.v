(* C19 — property theorems only. *)
From Coq Require Import NArith List String Ascii Bool.
From AV Require Import lib.Str lib.Sha1 lib.TokSplit model.C19_model proofs.C19_proofs.
Import ListNotations.
Local Open Scope string_scope.

Theorem C19_salt_deterministic : forall token remote a b,
  salt_token token remote = a -> salt_token token remote = b -> a = b.
Proof. exact salt_deterministic. Qed.
Print Assumptions C19_salt_deterministic.
