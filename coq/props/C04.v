(* C04 — a freshly written or touched block survives garbage collection for the TTL.
   Property theorems only; each is closed by `exact` of a lemma from proofs/C04_*.v.
   (H) history level: model/C04_model.v, explicit clock [now] (ns) per request.
   (I) interleaving level: model/C04_race.v, steps = the yield points of the instrumented
       unix_volume.go; every interleaving of a TOUCH/PUT request with a DELETE request.
   (H) cases carry the cluster configuration as written; model/C04_conf.v = the volume manager's reading of it
       (which volumes this server mounts, which of them are writable), model/C04_conf_run.v = the evaluator.
   (D) delayed-write level: model/C04_delay.v, the step programs of (I) executed at explicit clock values
       (time passes while the request waits for the Serialize lock, copies data, ...). *)
From Coq Require Import ZArith NArith List String Bool.
From AV Require Import lib.Str model.C04_model model.C04_run model.C04_old model.C04_race model.C04_race_run
  proofs.C04_proofs proofs.C04_frame_proofs proofs.C04_spec_proofs proofs.C04_meets_proofs proofs.C04_race_proofs
  model.C04_delay model.C04_delay_run proofs.C04_delay_proofs
  model.C04_conf model.C04_conf_run proofs.C04_conf_proofs.
Import ListNotations.
Local Open Scope Z_scope.

(* ================= (H) ================= *)

(* fresh_survives (full strength since /repo fa470fa): after an acknowledged Put/Touch of h at time t,
   for EVERY history of further requests — Put, Touch, Get, trash lists, Delete, EmptyTrash, Untrash, of
   any hash — with a non-decreasing clock that stays below t + ttl, some volume holds h as a block file
   with timestamp >= t.  Every prefix of such a history is such a history, so this holds at every
   later point. *)
Theorem C04_fresh_survives : forall c s t o h code s1 hs,
  (o = Put h \/ o = Touch h) -> step c s t o = (code, s1) -> code = 200%N ->
  nondecr t hs -> Forall (fun p => fst p < t + ttl c) hs ->
  exists v m, In v (vols (final c s1 hs)) /\ find_block (v_blocks v) h = Some m /\ t <= m.
Proof. exact fresh_survives_clock. Qed.
Print Assumptions C04_fresh_survives.

(* regression witness, about the OLD model only (model/C04_old.v = Untrash before fa470fa, finding F20):
   there the statement was false — Untrash renamed an older trashed copy over the fresh block file and
   the next Delete trashed it *)
Theorem C04_old_model_fresh_survives_untrash_refuted :
  exists c s t h code s1 hs,
    step_old c s t (Put h) = (code, s1) /\ code = 200%N /\ nondecr t hs /\
    Forall (fun p => fst p < t + ttl c) hs /\
    ~ (exists v m, In v (vols (final_old c s1 hs)) /\ find_block (v_blocks v) h = Some m).
Proof. exact old_fresh_survives_untrash_refuted. Qed.
Print Assumptions C04_old_model_fresh_survives_untrash_refuted.

(* what a single request can do to a single volume *)
Theorem C04_step_shape : forall c now s o, Forall2 (change c now o) (vols s) (vols (snd (step c s now o))).
Proof. exact step_shape. Qed.
Print Assumptions C04_step_shape.

(* trash_only_matching, trash_only_writable_enabled *)
Theorem C04_trash_only_matching : forall c now s o,
  Forall2 (fun v v' => forall h m, find_block (v_blocks v) h = Some m -> find_block (v_blocks v') h = None ->
     v_ro v = false /\ blob_trash c = true /\ ttl c <= now - m /\
     (o = Delete h \/
      exists its it, o = TrashList its /\ In it its /\ i_hash it = h /\ i_mtime it = m /\
                     (i_mount it = ""%string \/ i_mount it = v_uuid v) /\ ttl c <= now - i_mtime it))
    (vols s) (vols (snd (step c s now o))).
Proof. exact trash_only_matching. Qed.
Print Assumptions C04_trash_only_matching.

Theorem C04_readonly_unchanged : forall c now s o,
  Forall2 (fun v v' => v_ro v = true -> v' = v) (vols s) (vols (snd (step c s now o))).
Proof. exact readonly_unchanged. Qed.
Print Assumptions C04_readonly_unchanged.

Theorem C04_trash_disabled_unchanged : forall c now s o, blob_trash c = false ->
  (match o with Delete _ | TrashList _ => True | _ => False end) ->
  Forall2 (fun v v' => v' = v) (vols s) (vols (snd (step c s now o))).
Proof. exact trash_disabled_unchanged. Qed.
Print Assumptions C04_trash_disabled_unchanged.

(* untrash_until_deadline *)
Theorem C04_untrash_until_deadline : forall c h d i hs s v now,
  nth_error (vols s) i = Some v ->
  (v_ro v = false /\ exists t, In t (v_trash v) /\ t_hash t = h /\ t_dead t = d) ->
  Forall (fun p => fst p / NS < d /\ snd p <> Untrash h) hs ->
  let s1 := final c s hs in
  fst (step c s1 now (Untrash h)) = 200%N /\
  exists v', nth_error (vols (snd (step c s1 now (Untrash h)))) i = Some v' /\ has_block v' h = true.
Proof. exact untrash_until_deadline. Qed.
Print Assumptions C04_untrash_until_deadline.

(* emptytrash_only_expired *)
Theorem C04_emptytrash_only_expired : forall c now s,
  Forall2 (fun v v' => v_blocks v' = v_blocks v /\
                       (forall t, In t (v_trash v') -> In t (v_trash v)) /\
                       (forall t, In t (v_trash v) -> ~ In t (v_trash v') -> t_dead t <= now / NS /\ v_ro v = false) /\
                       (forall t, In t (v_trash v) -> now / NS < t_dead t -> In t (v_trash v')))
    (vols s) (vols (snd (step c s now EmptyTrash))).
Proof. exact emptytrash_only_expired. Qed.
Print Assumptions C04_emptytrash_only_expired.

(* deadline_whole_seconds *)
Theorem C04_deadline_whole_seconds : forall c now s o,
  Forall2 (fun v v' => forall t, In t (v_trash v') -> ~ In t (v_trash v) ->
             t_dead t = (now + life c) / NS /\ exists m, find_block (v_blocks v) (t_hash t) = Some m /\ t_mtime t = m)
    (vols s) (vols (snd (step c s now o))).
Proof. exact deadline_whole_seconds. Qed.
Print Assumptions C04_deadline_whole_seconds.

(* the boolean oracle that judges the observed histories is the Prop-level specification SpecH
   (per step and volume: read-only unchanged; a block disappears only as trash_only_matching says, into
   a trash entry whose deadline lies in the window; trash entries leave only by untrash or an expired
   sweep; new trash entries are removed blocks; block timestamps change only by Put/Touch/Untrash;
   untrash restores; and fresh_survives over the whole history, Untrash included) *)
Theorem C04_spec_b_reflects : forall c, C04_run.spec_b c = true <-> SpecH c.
Proof. exact C04_spec_proofs.spec_b_iff. Qed.
Print Assumptions C04_spec_b_reflects.

(* the model's own trace (every configuration, initial state and history with a non-decreasing clock)
   satisfies the fresh_survives clause of that oracle *)
Theorem C04_model_meets_fresh_clause : forall c hs s prev,
  nondecr prev hs -> fresh_ok c false (obs_run c s hs) = true.
Proof. exact model_fresh_ok_b. Qed.
Print Assumptions C04_model_meets_fresh_clause.

(* ---- "only on writable volumes", from the cluster configuration ---- *)
(* A configured volume is this server's if it has no AccessViaHosts at all or an entry for the server's
   URL; it is writable for this server unless Volumes.<uuid>.ReadOnly or that entry's ReadOnly is set.
   AccessViaHosts is a map (MapLike: one entry per URL). *)

(* the boolean reading used by the oracle is this Prop-level reading *)
Theorem C04_writable_here_reflects : forall host cv,
  (accessible_b host cv = true <-> cv_access cv = [] \/ exists r, In (host, r) (cv_access cv)) /\
  (writable_here_b host cv = true <->
     (cv_access cv = [] \/ exists r, In (host, r) (cv_access cv)) /\
     ~ (cv_ro cv = true \/ In (host, true) (cv_access cv))).
Proof. intros host cv. split; [exact (accessible_b_iff host cv)|exact (writable_here_b_iff host cv)]. Qed.
Print Assumptions C04_writable_here_reflects.

(* the volume manager (makeRRVolumeManager) mounts exactly the server's volumes, in configuration order,
   and marks a mount read-only exactly when the configuration does not make it writable for this server *)
Theorem C04_mounts_from_configuration : forall host cvs, Forall MapLike cvs ->
  Forall2 (fun cv m => m_uuid m = cv_uuid cv /\ Accessible host cv /\ (m_ro m = false <-> WritableHere host cv))
          (filter (accessible_b host) cvs) (make_mounts host cvs).
Proof. exact mounts_from_configuration. Qed.
Print Assumptions C04_mounts_from_configuration.

(* the server built from ANY configuration, its directories planted with anything, after EVERY history of
   Put / Touch / Get / trash lists (any mount_uuid) / Delete / Untrash / EmptyTrash: the i-th of its volumes,
   if not writable for this server (read-only at volume level OR in this server's AccessViaHosts entry,
   whatever other servers may do with it), holds exactly what it held *)
Theorem C04_not_writable_here_unchanged : forall host cvs c ls hs i cv v,
  Forall MapLike cvs ->
  nth_error (filter (accessible_b host) cvs) i = Some cv -> ~ WritableHere host cv ->
  nth_error (vols (conf_state host cvs ls)) i = Some v ->
  nth_error (vols (final c (conf_state host cvs ls) hs)) i = Some v.
Proof. exact not_writable_here_unchanged. Qed.
Print Assumptions C04_not_writable_here_unchanged.

(* the oracle of the configuration-carrying cases judges with flags derived from the configuration: it is
   SpecH's step clauses with "read-only" := not writable for this server (also: not this server's volume
   at all), and fresh_survives over the volumes the server can reach *)
Theorem C04_conf_spec_b_reflects : forall hc, hspec_b hc = true <-> HSpec hc.
Proof. exact hspec_b_iff. Qed.
Print Assumptions C04_conf_spec_b_reflects.

Theorem C04_conf_flags_reflect : forall host cvs,
  Forall2 (fun cv ro => ro = false <-> WritableHere host cv) cvs (guarded_flags host cvs) /\
  Forall2 (fun cv k => k = true <-> Accessible host cv) cvs (reach_flags host cvs).
Proof. intros host cvs. split; [exact (guarded_flags_spec host cvs)|exact (reach_flags_spec host cvs)]. Qed.
Print Assumptions C04_conf_flags_reflect.

(* so an accepted history never shows a change in the directory of a volume that is not writable here *)
Theorem C04_conf_spec_guarded_unchanged : forall hc, HSpec hc ->
  forall i cv, nth_error (hc_conf hc) i = Some cv -> ~ WritableHere (hc_host hc) cv ->
  forall before st rest pre, hc_steps hc = pre ++ st :: rest ->
    before = last (map s_after pre) (hc_init hc) ->
    forall b a, nth_error before i = Some b -> nth_error (s_after st) i = Some a -> ListingEq b a.
Proof. exact hspec_guarded_unchanged. Qed.
Print Assumptions C04_conf_spec_guarded_unchanged.

(* the oracle's flags and the manager's flags agree on the server's volumes (the evaluator's two readings
   of a case, [to_case] for the oracle and [hmodel_case] for the model, describe the same server) *)
Theorem C04_conf_model_flags_agree : forall host cvs, Forall MapLike cvs ->
  map m_ro (make_mounts host cvs) = restrict (reach_flags host cvs) (guarded_flags host cvs) /\
  map m_uuid (make_mounts host cvs) = restrict (reach_flags host cvs) (map cv_uuid cvs) /\
  map (is_mounted host) cvs = reach_flags host cvs.
Proof. exact model_flags_agree. Qed.
Print Assumptions C04_conf_model_flags_agree.

(* regression witness about a VARIANT manager only (writable set from the volume-level flag alone) *)
Theorem C04_variant_cfg_level_writables_refuted :
  exists host cvs c ls hs cv v,
    Forall MapLike cvs /\ nth_error (filter (accessible_b host) cvs) 0 = Some cv /\ ~ WritableHere host cv /\
    nth_error (vols (variant_state host cvs ls)) 0 = Some v /\
    nth_error (vols (final c (variant_state host cvs ls) hs)) 0 <> Some v.
Proof. exact variant_cfg_level_writables_refuted. Qed.
Print Assumptions C04_variant_cfg_level_writables_refuted.

(* ================= (I) ================= *)
Local Close Scope Z_scope.

(* the enumeration the decisions (and the harness) rest on is complete and sound for the step relation *)
Theorem C04_finals_complete : forall fuel n s s', n <= fuel -> rrun n s s' -> succs s' = [] -> In s' (finals fuel s).
Proof. exact finals_complete. Qed.
Print Assumptions C04_finals_complete.

Theorem C04_finals_sound : forall fuel s s', In s' (finals fuel s) -> exists n, rrun n s s'.
Proof. exact finals_sound. Qed.
Print Assumptions C04_finals_sound.

Theorem C04_runs_bounded : forall p put rm n s, rrun n (init p put rm) s -> n <= FUEL.
Proof. exact runs_bounded. Qed.
Print Assumptions C04_runs_bounded.

Theorem C04_schedules_complete : forall fuel s sch s',
  List.length sch <= fuel -> exec s sch = Some s' -> succs s' = [] -> In sch (schedules fuel s).
Proof. exact schedules_complete. Qed.
Print Assumptions C04_schedules_complete.

(* touch_trash_race: EVERY interleaving of a TOUCH request and Trash, every prior state, both trash
   modes: Touch fails or the block is at its path; nobody deadlocks *)
Theorem C04_touch_trash_race : forall p rm n s,
  rrun n (init p false rm) s -> succs s = [] -> contract s = true /\ both_done s = true.
Proof. exact touch_trash_race. Qed.
Print Assumptions C04_touch_trash_race.

(* put_trash_race at full strength (since /repo a9eb270 WriteBlock takes the flock on the file it
   replaces): EVERY interleaving of a PUT request and Trash, every prior copy — absent, intact,
   CORRUPT, fresh — both trash modes: the PUT fails or the intact block is at its path; no deadlock *)
Theorem C04_put_trash_race : forall p rm n s,
  rrun n (init p true rm) s -> succs s = [] -> contract s = true /\ both_done s = true.
Proof. exact put_trash_race. Qed.
Print Assumptions C04_put_trash_race.

(* regression witness, about the OLD model only (init_old = WriteBlock without flock, finding F7): with
   a corrupt old copy the acknowledged block could end in the trash (or be unlinked, lifetime 0) *)
Theorem C04_old_model_put_trash_race_corrupt_refuted : forall rm,
  exists n s, rrun n (init_old POldCorrupt true rm) s /\ succs s = [] /\ contract s = false /\ put_acked_but_gone s = true.
Proof. exact old_put_trash_race_corrupt_refuted. Qed.
Print Assumptions C04_old_model_put_trash_race_corrupt_refuted.

Theorem C04_fresh_block_never_trashed : forall put rm n s,
  rrun n (init PFreshGood put rm) s -> succs s = [] -> exists i, at_path s = Some i /\ i_cont i = Good.
Proof. exact fresh_block_never_trashed. Qed.
Print Assumptions C04_fresh_block_never_trashed.

Theorem C04_race_spec_b_reflects : forall c, C04_race_run.spec_b c = true <-> SpecI c.
Proof. exact race_spec_b_iff. Qed.
Print Assumptions C04_race_spec_b_reflects.

Theorem C04_example_schedule :
  exists s, exec (init POldGood false false) [TA; TA; TA; TA; TA; TB; TB; TB; TB; TB] = Some s /\ succs s = [] /\
            a_ok s = true /\ contract s = true.
Proof. exact ex_touch_first. Qed.
Print Assumptions C04_example_schedule.

(* ================= (D) ================= *)
Local Open Scope Z_scope.

(* WHEN the protecting timestamp is taken.  A timed run gives the clock value at which the request went
   on from each of its yield points (filesystem calls, every write of the copy loop, v.lock = the
   Serialize mutex); [trun] accepts exactly the label sequence of the scenario, the clock values are
   arbitrary.  For every prior copy (absent, intact, corrupt, fresh), PUT and TOUCH, both trash modes:
   the stored timestamp of an acknowledged request is the clock value at the LAST yield point before the
   commit phase (Chtimes, flock of the replaced file, rename, unlock, close) -- in WriteBlock after the
   temp file is complete and closed, in Touch after the flock is held.  No time spent earlier -- waiting
   for the Serialize lock, creating or writing the temp file -- is missing from the protection. *)
Theorem C04_delayed_timestamp : forall p put rm m0 steps T,
  trun (tinit p put rm m0) steps = Some T -> a_ok (t_s T) = true ->
  exists j t, path (t_s T) = Some j /\ last_pre None steps = Some t /\ mtime_of T j = t.
Proof. exact delayed_timestamp. Qed.
Print Assumptions C04_delayed_timestamp.

(* hence a DELETE at clock u (the Trash program of (I), with Fresh <-> u - mtime < ttl) less than ttl
   after that moment leaves the acknowledged block at its path -- after a PUT with the right content *)
Theorem C04_delayed_ack_survives : forall p put rm m0 steps T t u ttl,
  trun (tinit p put rm m0) steps = Some T -> a_ok (t_s T) = true -> last_pre None steps = Some t ->
  u - t < ttl ->
  present (after_trash T u ttl) = true /\
  (put = true -> cont_good (at_path (after_trash T u ttl)) = true) /\
  pb (after_trash T u ttl) = B_done BNoop.
Proof. exact delayed_ack_survives. Qed.
Print Assumptions C04_delayed_ack_survives.

(* and one that arrives ttl or more after it trashes the block (the timestamp is not later either) *)
Theorem C04_delayed_expiry_trashes : forall p put rm m0 steps T t u ttl,
  trun (tinit p put rm m0) steps = Some T -> a_ok (t_s T) = true -> last_pre None steps = Some t ->
  ttl <= u - t ->
  present (after_trash T u ttl) = false /\ pb (after_trash T u ttl) = B_done BTrashed.
Proof. exact delayed_expiry_trashes. Qed.
Print Assumptions C04_delayed_expiry_trashes.

(* the boolean oracle of the delayed-write cases is the Prop-level statement ... *)
Theorem C04_delay_spec_b_reflects : forall c, dspec_b c = true <-> DSpec c.
Proof. exact dspec_b_iff. Qed.
Print Assumptions C04_delay_spec_b_reflects.

(* ... and the model's own behaviour satisfies it: every scenario, every timed run, every DELETE time *)
Theorem C04_delay_model_meets_spec : forall p put rm ttl m0 steps T u,
  trun (tinit p put rm m0) steps = Some T -> DSpec (model_case p put rm ttl m0 steps T u).
Proof. exact delay_model_meets_spec. Qed.
Print Assumptions C04_delay_model_meets_spec.

(* regression witness about a VARIANT model only (t_early = WriteBlock reads the clock when it creates
   the temp file, i.e. before the Serialize lock and the copy): there the statement is false *)
Theorem C04_variant_early_timestamp_refuted :
  exists T t u ttl,
    trun (tinit_gen PAbsent true false 0 true) early_steps = Some T /\ a_ok (t_s T) = true /\
    last_pre None early_steps = Some t /\ u - t < ttl /\ present (after_trash T u ttl) = false.
Proof. exact delayed_early_ts_refuted. Qed.
Print Assumptions C04_variant_early_timestamp_refuted.
