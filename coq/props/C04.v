(* C04 — property theorems only. *)
From Coq Require Import ZArith NArith List String Bool.
From AV Require Import lib.Str model.C04_model model.C04_run proofs.C04_proofs.
Import ListNotations.
Local Open Scope Z_scope.

Theorem C04_deadline_whole_seconds : forall c now, deadline c now = (now + life c) / NS.
Proof. exact deadline_whole_seconds. Qed.
Print Assumptions C04_deadline_whole_seconds.
