(* C12 — property theorems only.  Each is closed by `exact` of a lemma from proofs/C12_proofs.v. *)
From Coq Require Import List String Sorted Permutation.
From AV Require Import lib.Str lib.Md5 lib.SortPerm model.C12_model proofs.C12_proofs.
Import ListNotations.

(* the probe order is a permutation of the service set *)
Theorem C12_order_is_permutation : forall h svcs, Permutation (sorted h svcs) svcs.
Proof. exact sorted_perm. Qed.
Print Assumptions C12_order_is_permutation.

(* ... sorted by strictly descending weight = md5hex(hash ++ last 15 chars of the uuid) *)
Theorem C12_order_sorted_desc : forall h svcs,
  distinct_weights h svcs -> StronglySorted (heavier h) (sorted h svcs).
Proof. exact sorted_desc. Qed.
Print Assumptions C12_order_sorted_desc.

Theorem C12_weight_uses_last_15 : forall h u,
  String.length u = 27 ->
  weight h u = md5hex (h ++ drop 12 u) /\ String.length (drop 12 u) = 15 /\ (take 12 u ++ drop 12 u)%string = u.
Proof. exact weight_uses_last_15. Qed.
Print Assumptions C12_weight_uses_last_15.

(* ... and depends on nothing else: any descending arrangement is this one, whatever order the
   services were enumerated in *)
Theorem C12_order_unique : forall h svcs l',
  distinct_weights h svcs -> Permutation l' svcs -> StronglySorted (heavier h) l' -> l' = sorted h svcs.
Proof. exact sorted_unique. Qed.
Print Assumptions C12_order_unique.

Theorem C12_order_input_order_irrelevant : forall h svcs svcs',
  distinct_weights h svcs -> Permutation svcs svcs' -> sorted h svcs' = sorted h svcs.
Proof. exact sorted_input_order_irrelevant. Qed.
Print Assumptions C12_order_input_order_irrelevant.

(* removing services never changes the relative order of the remaining ones *)
Theorem C12_remove_stable : forall h p svcs,
  distinct_weights h svcs -> sorted h (filter p svcs) = filter p (sorted h svcs).
Proof. exact sorted_filter_commute. Qed.
Print Assumptions C12_remove_stable.

(* adding one service never changes the relative order of the old ones *)
Theorem C12_add_stable : forall h s svcs,
  distinct_weights h (s :: svcs) ->
  forall p, (forall x, In x svcs -> p x = true) -> p s = false ->
  filter p (sorted h (s :: svcs)) = sorted h svcs.
Proof. exact add_stable. Qed.
Print Assumptions C12_add_stable.

(* a writer restricted to writable services uses the reader's order *)
Theorem C12_writer_prefix_of_reader : forall h (w : svc -> bool) svcs k,
  distinct_weights h svcs ->
  firstn k (sorted h (filter w svcs)) = firstn k (filter w (sorted h svcs)).
Proof. exact writer_prefix. Qed.
Print Assumptions C12_writer_prefix_of_reader.

(* keep-balance ranks the servers in the same order *)
Theorem C12_balancer_same_rank : forall h svcs, balancer_order h svcs = map uuid (sorted h svcs).
Proof. exact balancer_order_is_client_order. Qed.
Print Assumptions C12_balancer_same_rank.

(* usable hints, in locator order, come before the rendezvous order *)
Theorem C12_hints_first : forall gw local loc,
  get_sorted_roots gw local loc = (hint_roots gw loc ++ map root (sorted (take 32 loc) local))%list.
Proof. exact hints_then_rendezvous. Qed.
Print Assumptions C12_hints_first.

(* ---- the evaluator used by the correspondence check is itself covered ---- *)
From Coq Require Import Bool.
From AV Require Import model.C12_run proofs.C12_run_proofs.

(* the table-based sort evaluated on generated cases is the model's sort *)
Theorem C12_evaluator_sort_is_model : forall h (all l : list svc),
  (forall s, In s l -> In (uuid s) (map uuid all)) -> sorted_t (mk_wtab h all) l = sorted h l.
Proof. exact sorted_t_eq. Qed.
Print Assumptions C12_evaluator_sort_is_model.

(* what the boolean oracle accepts really is a permutation with non-increasing weights *)
Theorem C12_oracle_sound : forall t svcs out, order_ok_b t svcs out = true ->
  Permutation out (map root svcs) /\
  Sorted (fun a b => str_ltb a b = false)
         (map (fun r => match find_root svcs r with Some s => wlook t (uuid s) | None => ""%string end) out).
Proof. exact order_ok_b_sound. Qed.
Print Assumptions C12_oracle_sound.
