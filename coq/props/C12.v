(* C12 — property theorems only.  Each is closed by `exact` of a lemma from proofs/C12_proofs.v. *)
From Coq Require Import List String Sorted Permutation.
From AV Require Import lib.Str lib.Md5 lib.SortPerm model.C12_model proofs.C12_proofs.
Import ListNotations.

(* the probe order is a permutation of the service set *)
Theorem C12_order_is_permutation : forall h svcs, Permutation (sorted h svcs) svcs.
Proof. exact sorted_perm. Qed.
Print Assumptions C12_order_is_permutation.

(* ... sorted by strictly descending weight = md5hex(hash ++ last 15 chars of the uuid) *)
Theorem C12_order_sorted_desc : forall h svcs,
  distinct_weights h svcs -> StronglySorted (heavier h) (sorted h svcs).
Proof. exact sorted_desc. Qed.
Print Assumptions C12_order_sorted_desc.

Theorem C12_weight_uses_last_15 : forall h u,
  String.length u = 27 ->
  weight h u = md5hex (h ++ drop 12 u) /\ String.length (drop 12 u) = 15 /\ (take 12 u ++ drop 12 u)%string = u.
Proof. exact weight_uses_last_15. Qed.
Print Assumptions C12_weight_uses_last_15.

(* ... and depends on nothing else: any descending arrangement is this one, whatever order the
   services were enumerated in *)
Theorem C12_order_unique : forall h svcs l',
  distinct_weights h svcs -> Permutation l' svcs -> StronglySorted (heavier h) l' -> l' = sorted h svcs.
Proof. exact sorted_unique. Qed.
Print Assumptions C12_order_unique.

Theorem C12_order_input_order_irrelevant : forall h svcs svcs',
  distinct_weights h svcs -> Permutation svcs svcs' -> sorted h svcs' = sorted h svcs.
Proof. exact sorted_input_order_irrelevant. Qed.
Print Assumptions C12_order_input_order_irrelevant.

(* removing services never changes the relative order of the remaining ones *)
Theorem C12_remove_stable : forall h p svcs,
  distinct_weights h svcs -> sorted h (filter p svcs) = filter p (sorted h svcs).
Proof. exact sorted_filter_commute. Qed.
Print Assumptions C12_remove_stable.

(* adding one service never changes the relative order of the old ones *)
Theorem C12_add_stable : forall h s svcs,
  distinct_weights h (s :: svcs) ->
  forall p, (forall x, In x svcs -> p x = true) -> p s = false ->
  filter p (sorted h (s :: svcs)) = sorted h svcs.
Proof. exact add_stable. Qed.
Print Assumptions C12_add_stable.

(* a writer restricted to writable services uses the reader's order *)
Theorem C12_writer_prefix_of_reader : forall h (w : svc -> bool) svcs k,
  distinct_weights h svcs ->
  firstn k (sorted h (filter w svcs)) = firstn k (filter w (sorted h svcs)).
Proof. exact writer_prefix. Qed.
Print Assumptions C12_writer_prefix_of_reader.

(* keep-balance ranks the servers in the same order *)
Theorem C12_balancer_same_rank : forall h svcs, balancer_order h svcs = map uuid (sorted h svcs).
Proof. exact balancer_order_is_client_order. Qed.
Print Assumptions C12_balancer_same_rank.

(* usable hints, in locator order, come before the rendezvous order *)
Theorem C12_hints_first : forall gw local loc,
  get_sorted_roots gw local loc = (hint_roots gw loc ++ map root (sorted (take 32 loc) local))%list.
Proof. exact hints_then_rendezvous. Qed.
Print Assumptions C12_hints_first.

(* ---- the evaluator used by the correspondence check is itself covered ---- *)
From Coq Require Import Bool.
From AV Require Import model.C12_run proofs.C12_run_proofs.

(* the table-based sort evaluated on generated cases is the model's sort *)
Theorem C12_evaluator_sort_is_model : forall h (all l : list svc),
  (forall s, In s l -> In (uuid s) (map uuid all)) -> sorted_t (mk_wtab h all) l = sorted h l.
Proof. exact sorted_t_eq. Qed.
Print Assumptions C12_evaluator_sort_is_model.

(* what the boolean oracle accepts really is a permutation with non-increasing weights *)
Theorem C12_oracle_sound : forall t svcs out, order_ok_b t svcs out = true ->
  Permutation out (map root svcs) /\
  Sorted (fun a b => str_ltb a b = false)
         (map (fun r => match find_root svcs r with Some s => wlook t (uuid s) | None => ""%string end) out).
Proof. exact order_ok_b_sound. Qed.
Print Assumptions C12_oracle_sound.

(* ---- service discovery (model/KC_discover.v, shared with C11): probe order of a client whose roots come from a
   keep_services list.  dsvc = one list item (uuid, host, port, ssl, type, read_only); load_roots l = the maps
   loadKeepServers installs (r_local, r_writable, r_gateway); kept l = items surviving "skip duplicate URLs";
   load_all st ls = a client given the lists ls one after the other; svcs_of = such a map as a service list. ---- *)
From Coq Require Import NArith.
From AV Require Import model.KC_discover proofs.KC_discover_proofs proofs.C12_disc.

(* every listed service — read-only or not, of any type — is a gateway root under its uuid *)
Theorem C12_gateway_has_every_listed_service : forall l, NoDup (map d_uuid l) ->
  forall s, In s (kept l) -> mget (r_gateway (load_roots l)) (d_uuid s) = Some (d_url s).
Proof. exact gateway_has_every_listed. Qed.
Print Assumptions C12_gateway_has_every_listed_service.

(* ... so a +K@<uuid> hint naming a listed service is usable: it contributes exactly that service's URL *)
Theorem C12_hint_to_listed_service : forall l s,
  NoDup (map d_uuid l) -> In s (kept l) -> String.length (d_uuid s) = 27 ->
  hint_root (svcs_of (r_gateway (load_roots l))) ("K@" ++ d_uuid s)%string = [d_url s].
Proof. exact hint_to_listed_service. Qed.
Print Assumptions C12_hint_to_listed_service.

(* ... and the reader tries it before the rendezvous order of the local roots *)
Theorem C12_listed_hint_tried_before_rendezvous : forall l loc s,
  NoDup (map d_uuid l) -> In s (kept l) -> String.length (d_uuid s) = 27 ->
  In ("K@" ++ d_uuid s)%string (split_plus loc) ->
  exists pre post,
    get_sorted_roots (svcs_of (r_gateway (load_roots l))) (svcs_of (r_local (load_roots l))) loc =
    (pre ++ d_url s :: post ++ sorted_roots (take 32 loc) (svcs_of (r_local (load_roots l))))%list.
Proof. exact listed_hint_tried_before_rendezvous. Qed.
Print Assumptions C12_listed_hint_tried_before_rendezvous.

(* readers probe all listed services, writers those that are not read-only *)
Theorem C12_discovered_local_and_writable : forall l, NoDup (map d_uuid l) ->
  svcs_of (r_local (load_roots l)) = map (fun s => {| uuid := d_uuid s; root := d_url s |}) (kept l) /\
  svcs_of (r_writable (load_roots l)) =
    map (fun s => {| uuid := d_uuid s; root := d_url s |}) (filter (fun s => negb (d_ro s)) (kept l)).
Proof. exact discovered_local_and_writable. Qed.
Print Assumptions C12_discovered_local_and_writable.

(* the maps in force are those of the LAST list the client was given *)
Theorem C12_load_history_irrelevant : forall st ls l, k_roots (load_all st (ls ++ [l])) = load_roots l.
Proof. exact load_history_irrelevant. Qed.
Print Assumptions C12_load_history_irrelevant.

(* the evaluator's discovery clause (disc_spec_b, part of spec_b) is the shared roots specification of the last
   list, and the model's maps pass it after any history of lists *)
Theorem C12_disc_spec_b_reflects : forall c : case, c_lists c <> [] ->
  (disc_spec_b c = true <->
   (NoDup (map d_uuid (current_list (c_lists c))) ->
    (forall p, In p (pairs_of (c_local c)) <-> exists s, In s (kept (current_list (c_lists c))) /\ p = root_entry s) /\
    (forall p, In p (pairs_of (mask (c_writable c) (c_local c))) <->
               exists s, In s (kept (current_list (c_lists c))) /\ d_ro s = false /\ p = root_entry s) /\
    (forall s, In s (kept (current_list (c_lists c))) -> In (root_entry s) (pairs_of (c_gw c))) /\
    (forall p, In p (pairs_of (c_gw c)) -> exists s, In s (current_list (c_lists c)) /\ p = root_entry s))).
Proof. exact disc_spec_b_written_out. Qed.
Print Assumptions C12_disc_spec_b_reflects.

Theorem C12_discovery_meets_roots_spec : forall st ls, ls <> [] ->
  let m := k_roots (load_all st ls) in
  roots_spec_b (current_list ls) (r_local m) (r_writable m) (r_gateway m) = true.
Proof. exact model_passes_disc_spec. Qed.
Print Assumptions C12_discovery_meets_roots_spec.

(* ---- one probe order for readers ACROSS retry rounds (model/C12_retry.v; the loop is getOrHead's as transcribed in
   model/C03_model.v: get_or_head ans retries order loc, request log g_log).  ans : service -> round -> response;
   transient = no response / 408 / 429 / >= 500; eligible ans a s = s answered every round before a transiently;
   probe_seq ans retries order = rounds 0..retries, round a = the eligible services in the order of [order],
   cut after the first probe answered 200. ---- *)
From AV Require Import model.C03_model model.C12_retry proofs.C12_retry_proofs.

(* the loop's probe sequence IS that closed form, for every answer function, first-round order and retry limit *)
Theorem C12_retry_loop_is_closed_form : forall ans retries order loc,
  empty_block_loc loc = false -> g_log (get_or_head ans retries order loc) = probe_seq ans retries order.
Proof. exact loop_log_is_probe_seq. Qed.
Print Assumptions C12_retry_loop_is_closed_form.

(* a service is probed in round a only within the retry limit, only if it is a service of the first round, and only
   if it answered EVERY earlier round with a transient failure: never again after a definitive answer (404, 403 ...) *)
Theorem C12_probed_only_while_transient : forall ans retries order s a,
  In (s, a) (probe_seq ans retries order) ->
  a <= retries /\ In s order /\ forall b, b < a -> transient (ans s b) = true.
Proof. exact probed_only_while_transient. Qed.
Print Assumptions C12_probed_only_while_transient.

(* the rounds are walked one after the other, each in the order of the first round (rendezvous order after the usable
   hints), and nothing is probed after a 200 *)
Theorem C12_probe_seq_is_prefix_of_rounds : forall ans retries order,
  exists k, probe_seq ans retries order =
            firstn k (flat_map (fun a => map (fun s => (s, a)) (filter (eligible ans a) order)) (seq 0 (Datatypes.S retries))).
Proof. exact probe_seq_is_prefix_of_rounds. Qed.
Print Assumptions C12_probe_seq_is_prefix_of_rounds.

(* each service at most once per round *)
Theorem C12_probe_seq_nodup : forall ans retries order, NoDup order -> NoDup (probe_seq ans retries order).
Proof. exact probe_seq_nodup. Qed.
Print Assumptions C12_probe_seq_nodup.

(* the boolean oracle of stage c12retry means: the observed probe sequence is the closed form; and the loop passes it *)
Theorem C12_retry_spec_b_reflects : forall c : rcase,
  retry_spec_b c = true <-> (NoDup (r_order c) -> o_probes c = probe_seq (ans_of c) (r_retries c) (r_order c)).
Proof. exact retry_spec_b_reflects. Qed.
Print Assumptions C12_retry_spec_b_reflects.

Theorem C12_retry_model_meets_spec : forall retries loc order script,
  empty_block_loc loc = false ->
  let c0 := {| r_retries := retries; r_loc := loc; r_order := order; r_script := script; o_probes := nil |} in
  retry_spec_b {| r_retries := retries; r_loc := loc; r_order := order; r_script := script;
                  o_probes := g_log (get_or_head (ans_of c0) retries order loc) |} = true.
Proof. exact retry_model_meets_spec. Qed.
Print Assumptions C12_retry_model_meets_spec.
