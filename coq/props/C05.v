(* C05 — keep-balance never trashes a needed or too-new replica: property theorems only.
   Model: model/C05_model.v = cleanupMounts; setupLookupTables; balanceBlock as they are in /repo after
   the fix: commits 4181588 (F1/F10), 0c179f4 (F12), b66ed86 (F8); the rendezvous rank and the
   rendezvousLess order of device ids are parameters.  `m_out c` is the model's output on a case
   (model/C05_run.v); specification vocabulary (physical devices, `Spec`): model/C05_run.v, proofs/C05_spec.v.
   A case is well-formed (wf_b) when mount ids are distinct, replicas point to reported mounts and Desired
   has one entry per class - structural facts of the Go data (pointers, a map).
   The algorithm before the repairs is kept in model/C05_old_model.v: the theorems named *_old_* are about
   it only (regression witnesses: it violates the specification). *)
From Coq Require Import List Arith Bool NArith.
From AV Require Import model.C05_model model.C05_old_model model.C05_run proofs.C05_proofs proofs.C05_safety proofs.C05_repl
  proofs.C05_phys proofs.C05_spec proofs.C05_witness proofs.C05_fixed_proofs proofs.C05_main.
From AV Require Import model.C06_model model.C05_desired model.C05_sweeps proofs.C05_desired_proofs proofs.C05_sweeps_proofs.
Import ListNotations.

(* ---- the whole property, for every layout, replica set and Desired --------------------------------- *)
Theorem C05_meets_spec : forall c, wf_b c = true ->
  let '(chs, lost) := m_out c in Spec c (trashes chs) (pulls chs) lost.
Proof. exact fixed2_meets_spec. Qed.
Print Assumptions C05_meets_spec.

(* ---- its clauses written out ----------------------------------------------------------------------- *)

(* a Trash names an observed replica (mount, mtime), older than MinMtime, on a writable mount (after
   cleanupMounts and the propagation of the service's read-only flag) *)
Theorem C05_trash_old_writable_only : forall c, wf_b c = true -> forall m t,
  In (m, t) (trashes (fst (m_out c))) ->
  In (m, t) (c_repl c) /\ t < c_min c /\
  exists x, In x (setup (c_raw c) (c_sro c)) /\ mid x = m /\ mro x = false.
Proof. exact trash_old_writable_only. Qed.
Print Assumptions C05_trash_old_writable_only.

(* ... i.e. a mount reported writable by a service that is not read-only *)
Theorem C05_effective_writable_is_reported_writable : forall raw sro x,
  In x (setup raw sro) -> mro x = false ->
  exists r, In r raw /\ mid r = mid x /\ msrv r = msrv x /\ mro r = false /\ ~ In (msrv r) sro.
Proof. exact eff_writable_raw. Qed.
Print Assumptions C05_effective_writable_is_reported_writable.

(* nothing at all is trashed while some desired class is under-replicated, counted over distinct
   physical devices (a class that no mount offers counts 0) *)
Theorem C05_no_trash_when_underreplicated : forall c, wf_b c = true -> forall k d,
  In (k, d) (c_desired c) -> 0 < d ->
  phys_repl (c_dflt c) k (setup (c_raw c) (c_sro c)) (held (setup (c_raw c) (c_sro c)) (c_repl c)) < d ->
  trashes (fst (m_out c)) = [].
Proof. exact no_trash_when_underreplicated. Qed.
Print Assumptions C05_no_trash_when_underreplicated.

(* carrying out every trash while no pull succeeds leaves each desired class with at least
   min(desired, before) replication over distinct physical devices *)
Theorem C05_trash_preserves_replication : forall c, wf_b c = true -> forall k d,
  In (k, d) (c_desired c) -> 0 < d ->
  Nat.min d (phys_repl (c_dflt c) k (setup (c_raw c) (c_sro c)) (held (setup (c_raw c) (c_sro c)) (c_repl c))) <=
  phys_repl (c_dflt c) k (setup (c_raw c) (c_sro c))
            (after (setup (c_raw c) (c_sro c)) (c_repl c) (trashes (fst (m_out c)))).
Proof. exact trash_preserves_replication. Qed.
Print Assumptions C05_trash_preserves_replication.

(* a Pull targets a writable mount through which no replica is seen; the source service has one *)
Theorem C05_pull_targets_ok : forall c, wf_b c = true -> forall m f,
  In (m, f) (pulls (fst (m_out c))) ->
  (exists x, In x (setup (c_raw c) (c_sro c)) /\ mid x = m /\ mro x = false) /\
  (forall t, ~ In (m, t) (c_repl c)) /\
  exists i t x, In (i, t) (c_repl c) /\ In x (c_raw c) /\ mid x = i /\ msrv x = f.
Proof. exact pull_targets_ok. Qed.
Print Assumptions C05_pull_targets_ok.

(* a referenced block with no replica anywhere is reported lost - whatever is writable *)
Theorem C05_lost_reported : forall c, wf_b c = true ->
  c_repl c = [] -> (exists k d, In (k, d) (c_desired c) /\ 0 < d) -> snd (m_out c) = true.
Proof. exact lost_reported. Qed.
Print Assumptions C05_lost_reported.

(* ---- the evaluator used by the harness -------------------------------------------------------------- *)

(* the boolean that judges the implementation's output reflects the Prop-level specification *)
Theorem C05_spec_b_reflects : forall c tr pl lost, spec_core c tr pl lost = true <-> Spec c tr pl lost.
Proof. exact spec_core_reflects. Qed.
Print Assumptions C05_spec_b_reflects.

(* well-formed cases exist with trash, pull and lost outcomes *)
Theorem C05_examples :
  wf_b ex_ok1 = true /\ trashes (fst (m_out ex_ok1)) = [(3, 12)] /\
  wf_b ex_ok2 = true /\ pulls (fst (m_out ex_ok2)) = [(1, 1)] /\ trashes (fst (m_out ex_ok2)) = [] /\
  wf_b ex_ok3 = true /\ snd (m_out ex_ok3) = true.
Proof. exact main_examples. Qed.
Print Assumptions C05_examples.

(* ---- regression witnesses: the algorithm BEFORE the repairs (model/C05_old_model.v) ----------------- *)

(* it violated both replication clauses and the lost clause: F1 (device mounted on two servers counted
   twice), F10 (class member trashed after a non-member satisfied the class), F12 (desired class offered
   by no mount), F8 (nothing writable) - each witness was observed on the real code before the fix *)
Theorem C05_old_algorithm_refuted :
  (* F1 *)  (trashes (fst (m_out_old w_f1)) = [(4, 60)] /\ before_of w_f1 1 = 2 /\ wf_b w_f1 = true /\
             phys_repl 1 1 (eff_of w_f1) (after (eff_of w_f1) (c_repl w_f1) (trashes (fst (m_out_old w_f1)))) = 1 /\
             lookup (c_desired w_f1) 1 = 2) /\
  (* F10 *) (trashes (fst (m_out_old w_f10)) = [(2, 11)] /\ before_of w_f10 0 = 2 /\ wf_b w_f10 = true /\
             phys_repl 1 0 (eff_of w_f10) (after (eff_of w_f10) (c_repl w_f10) (trashes (fst (m_out_old w_f10)))) = 1 /\
             lookup (c_desired w_f10) 0 = 2) /\
  (* F12 *) (trashes (fst (m_out_old w_f12)) = [(2, 11)] /\ before_of w_f12 2 = 0 /\ lookup (c_desired w_f12) 2 = 1 /\ wf_b w_f12 = true) /\
  (* F8 *)  (snd (m_out_old w_f8) = false /\ c_repl w_f8 = [] /\ lookup (c_desired w_f8) 1 = 1 /\ wf_b w_f8 = true).
Proof. vm_compute. repeat split; reflexivity. Qed.
Print Assumptions C05_old_algorithm_refuted.

(* ... while the repaired algorithm trashes nothing on these layouts and reports the lost block *)
Theorem C05_repaired_on_old_witnesses :
  trashes (fst (m_out w_f1)) = [] /\ trashes (fst (m_out w_f1b)) = [] /\ trashes (fst (m_out w_f10)) = [] /\
  trashes (fst (m_out w_f12)) = [] /\ snd (m_out w_f8) = true.
Proof. exact fixed2_on_witnesses. Qed.
Print Assumptions C05_repaired_on_old_witnesses.

(* the old algorithm met the specification only under hyp_b: every device mounted once, every desired
   class offered on pairwise different servers, something writable *)
Theorem C05_old_algorithm_partial : forall c, hyp_b c = true ->
  let '(chs, lost) := m_out_old c in Spec c (trashes chs) (pulls chs) lost.
Proof. exact model_meets_spec_partial. Qed.
Print Assumptions C05_old_algorithm_partial.

(* ---- where Desired comes from: the collections that reference the block (model/C05_desired.v = block_state.go
   increaseDesired / IncreaseDesired + balance.go addCollection) ------------------------------------------- *)

(* Desired[class] is the largest replication level among the referencing collections that list the class - a
   collection listing no class lists "default" (id dflt), one without replication_desired counts with the default
   replication dr; `demands` has one entry (class, level) per referencing collection and class it lists *)
Theorem C05_desired_is_max_over_referencing_collections : forall dflt dr ks c,
  lookup (desired_of dflt dr ks) c =
  fold_right Nat.max 0 (map snd (filter (fun kd => fst kd =? c) (demands dflt dr ks))).
Proof. exact desired_of_is_max. Qed.
Print Assumptions C05_desired_is_max_over_referencing_collections.

(* it is a map (one entry per class), covers every positive demand and contains nothing nobody asked for *)
Theorem C05_desired_covers_exactly_the_demands : forall dflt dr ks,
  NoDup (map fst (desired_of dflt dr ks)) /\
  (forall k d, In (k, d) (demands dflt dr ks) -> 0 < d -> exists d', In (k, d') (desired_of dflt dr ks) /\ d <= d') /\
  (forall k d, In (k, d) (desired_of dflt dr ks) -> 0 < d -> In (k, d) (demands dflt dr ks)).
Proof.
  intros dflt dr ks. split; [apply desired_of_nodup|]. split; [apply demand_covered|apply desired_is_some_demand].
Qed.
Print Assumptions C05_desired_covers_exactly_the_demands.

(* the whole property from collections to trash lists: for every layout and replica set (mount ids distinct, replicas
   on reported mounts: wfl_b) and EVERY list of referencing collections - any classes in any order, repeated or
   offered by no mount, any replication levels, with or without replication_desired - the lists computed from the
   derived Desired satisfy the specification with respect to every single demand of every referencing collection
   (b_spec_case b = the layout with c_desired := demands; b_model_case b = the layout with c_desired := desired_of) *)
Theorem C05_collections_to_trash_lists_meet_spec : forall b, wfl_b (b_case b) = true ->
  let '(chs, lost) := m_out (b_model_case b) in Spec (b_spec_case b) (trashes chs) (pulls chs) lost.
Proof. exact coll_meets_spec. Qed.
Print Assumptions C05_collections_to_trash_lists_meet_spec.

(* the boolean that judges the real addCollection + ComputeChangeSets reflects that specification *)
Theorem C05_collection_spec_b_reflects : forall b,
  b_spec_b b = true <-> Spec (b_spec_case b) (o_trash (b_case b)) (o_pull (b_case b)) (o_lost (b_case b)).
Proof. exact b_spec_b_reflects. Qed.
Print Assumptions C05_collection_spec_b_reflects.

(* regression witness: a class loop that stops at the first class whose entry is already high enough forgets the
   remaining classes of that collection; a needed replica is trashed (class 0 falls from 1 to 0) *)
Theorem C05_desired_stopping_variant_refuted :
  desired_of_stop 1 2 (b_colls w_stop) = [(1, 1)] /\
  desired_of 1 2 (b_colls w_stop) = [(1, 1); (0, 1)] /\
  trashes (fst (m_out (with_desired (b_case w_stop) (desired_of_stop 1 2 (b_colls w_stop))))) = [(2, 11)] /\
  trashes (fst (m_out (b_model_case w_stop))) = [] /\
  wfl_b (b_case w_stop) = true /\
  spec_core (b_spec_case w_stop) [(2, 11)] [] false = false.
Proof. exact stop_variant_refuted. Qed.
Print Assumptions C05_desired_stopping_variant_refuted.

(* ---- trash lists across runs of one keep-balance process (model/C05_sweeps.v = Balancer.Run: rendezvousState,
   ClearTrashLists, SafeRendezvousState, CommitPulls, CommitTrash; Server.runOnce hands RunOptions on) -------- *)

(* For every CommitPulls setting, every sequence of runs - any service lists, restarts of keep-balance, at most one
   failing request per run at any point (service list, mounts, sanity checks, a server's clearing PUT, discovery
   document, an index, a collection page, a server's pull or trash list), any computed lists - and whatever trash
   lists the keepstores held before the process started (p0): when the process commits trash lists, no index is
   ever read from a server that holds, at that moment, a non-empty trash list that was not computed for the
   current service list (such a list could be carried out after the index was read and remove a replica the new
   lists rely on).  pend_before = the lists held when run i starts, pend_after = after a prefix of its requests. *)
Theorem C05_no_index_read_under_a_stale_trash_list : forall cp ct ins p0,
  ct = true -> forall i set log, nth_error (logs (seq_model cp ct None ins)) i = Some (set, log) ->
  ~ exists pre s post, log = pre ++ EvIndex s :: post /\
      exists tag, pget (pend_after set pre (pend_before (logs (seq_model cp ct None ins)) p0 i)) s = Some tag /\
                  tag <> Some set.
Proof. exact model_stale_free. Qed.
Print Assumptions C05_no_index_read_under_a_stale_trash_list.

(* the boolean that judges the request sequences seen by the stub keepstores reflects that statement *)
Theorem C05_stale_free_b_reflects : forall ct runs p,
  stale_free ct runs p = true <->
  (ct = true -> forall i set log, nth_error runs i = Some (set, log) ->
   ~ exists pre s post, log = pre ++ EvIndex s :: post /\
       exists tag, pget (pend_after set pre (pend_before runs p i)) s = Some tag /\ tag <> Some set).
Proof. exact stale_free_reflects. Qed.
Print Assumptions C05_stale_free_b_reflects.

(* regression witness: marking the service list "safe" before the clearing lists were accepted - after a failed
   clearing the next run reads server 1's index while it still holds the list computed for services {0,1} *)
Theorem C05_early_safe_marking_variant_refuted :
  stale_free true (logs (seq_model_early true true None w_early)) [] = false /\
  stale_free true (logs (seq_model true true None w_early)) [] = true.
Proof. exact early_marking_refuted. Qed.
Print Assumptions C05_early_safe_marking_variant_refuted.
