(* C05 — keep-balance never trashes a needed or too-new replica: property theorems only.
   Model: model/C05_model.v (`balance` = cleanupMounts; setupLookupTables; balanceBlock, with the
   rendezvous rank and the rendezvousLess order of device ids as parameters).  Specification
   vocabulary (physical devices, `Spec`, `hyp_b`): model/C05_run.v and proofs/C05_spec.v.
   Suffixes: _refuted = the statement fails on the model of the current code (witness observed on the
   real code: known_findings.txt F1, F10, F12, F8); _partial = proved under the stated hypotheses. *)
From Coq Require Import List Arith Bool NArith.
From AV Require Import model.C05_model model.C05_run proofs.C05_proofs proofs.C05_safety proofs.C05_repl
  proofs.C05_phys proofs.C05_spec proofs.C05_witness model.C05_fixed proofs.C05_fixed_proofs
  model.C05_fixed2 proofs.C05_fixed2_proofs.
Import ListNotations.

(* -- clauses that hold for every layout, every replica set, every Desired ------------------------- *)

(* a Trash names an observed replica (mount, mtime) that is older than MinMtime *)
Theorem C05_trash_old_only : forall dflt rank devrank minMtime raw sro repl desired m t,
  In (Trash m t) (fst (balance dflt rank devrank minMtime raw sro repl desired)) ->
  t < minMtime /\ In (m, t) repl.
Proof. exact trash_old_only. Qed.
Print Assumptions C05_trash_old_only.

(* ... on a mount that is reported writable, of a service that is not read-only *)
Theorem C05_trash_writable_only : forall dflt rank devrank minMtime raw sro repl desired m t,
  In (Trash m t) (fst (balance dflt rank devrank minMtime raw sro repl desired)) ->
  exists r, In r raw /\ mid r = m /\ mro r = false /\ ~ In (msrv r) sro.
Proof. exact trash_writable_only. Qed.
Print Assumptions C05_trash_writable_only.

(* a Pull targets a writable mount through which no replica is seen; some replica exists and the
   source is the service of blk.Replicas[0] *)
Theorem C05_pull_targets_ok : forall dflt rank devrank minMtime raw sro repl desired m f,
  In (Pull m f) (fst (balance dflt rank devrank minMtime raw sro repl desired)) ->
  (exists r, In r raw /\ mid r = m /\ mro r = false /\ ~ In (msrv r) sro) /\
  (forall t, ~ In (m, t) repl) /\
  exists m0 t0 rest, repl = (m0, t0) :: rest /\
     f = match find (fun x => mid x =? m0) raw with Some x => msrv x | None => 0 end.
Proof. exact pull_targets_ok. Qed.
Print Assumptions C05_pull_targets_ok.

(* when balanceBlock's own `underreplicated` flag is set, nothing at all is trashed *)
Theorem C05_no_trash_when_flag_set : forall dflt rank devrank minMtime raw sro repl desired,
  under_flag dflt rank devrank (setup raw sro) repl (classes_of dflt (setup raw sro)) desired = true ->
  trashes (fst (balance dflt rank devrank minMtime raw sro repl desired)) = [].
Proof. exact no_trash_when_flag. Qed.
Print Assumptions C05_no_trash_when_flag_set.

(* the flag is set whenever the replicas seen through mounts of a class that balanceBlock walks
   (counted per mount) fall short of the desired replication *)
Theorem C05_flag_set_when_short : forall dflt rank devrank mounts repl classes desired k,
  In k classes -> 0 < lookup desired k ->
  have_m dflt k mounts repl < lookup desired k ->
  under_flag dflt rank devrank mounts repl classes desired = true.
Proof. exact flag_set_when_short. Qed.
Print Assumptions C05_flag_set_when_short.

(* a referenced block without any replica is reported lost if some mount is writable *)
Theorem C05_lost_reported : forall dflt rank devrank minMtime raw sro desired k,
  In k (classes_of dflt (setup raw sro)) -> 0 < lookup desired k ->
  (exists x, In x (setup raw sro) /\ mro x = false) ->
  snd (balance dflt rank devrank minMtime raw sro [] desired) = true.
Proof. intros. eapply lost_reported; eauto. Qed.
Print Assumptions C05_lost_reported.

(* ... but not when everything is read-only (F8) *)
Theorem C05_lost_reported_refuted : exists dflt rank devrank minMtime raw sro desired k,
  In k (classes_of dflt (setup raw sro)) /\ 0 < lookup desired k /\
  snd (balance dflt rank devrank minMtime raw sro [] desired) = false.
Proof.
  exists 1, (fun s => nth s [0; 1] 0), (fun d => nth d [3; 2; 1; 0] 0), 100,
         [mkm 1 0 1 true 1 []; mkm 2 1 2 true 1 [2]; mkm 3 1 3 true 1 [2]], [], [(1, 1); (2, 1)], 1.
  vm_compute. auto.
Qed.
Print Assumptions C05_lost_reported_refuted.

(* -- the two replication-safety clauses, physical-device reading --------------------------------- *)

(* "nothing is trashed while a desired class is under-replicated": fails when a device is mounted on
   two servers (F1: counted twice) and when the desired class is offered by no mount (F12) *)
Theorem C05_no_trash_when_underreplicated_refuted :
  (exists c k, 0 < lookup (c_desired c) k /\ In k (classes_of (c_dflt c) (setup (c_raw c) (c_sro c))) /\
     phys_repl (c_dflt c) k (setup (c_raw c) (c_sro c)) (held (setup (c_raw c) (c_sro c)) (c_repl c)) < lookup (c_desired c) k /\
     trashes (fst (m_out c)) <> []) /\
  (exists c k, 0 < lookup (c_desired c) k /\ unshared (setup (c_raw c) (c_sro c)) /\
     phys_repl (c_dflt c) k (setup (c_raw c) (c_sro c)) (held (setup (c_raw c) (c_sro c)) (c_repl c)) < lookup (c_desired c) k /\
     trashes (fst (m_out c)) <> []).
Proof.
  split.
  - (* F1: empty best mount with Replication 2, one device seen through mounts 2 and 3, a replica on a
       "special" mount; default is physically at 1 < 2 and the special replica is trashed *)
    exists (mkcase 1 [mkm 1 0 1 false 2 []; mkm 2 1 2 false 1 []; mkm 3 2 2 false 1 []; mkm 4 3 3 false 1 [2]] []
                   [(2, 40); (3, 40); (4, 60)] [(1, 2)] [0; 1; 2; 3] [0; 1; 2; 3]), 1.
    vm_compute. split; [auto|]. split; [auto|]. split; [auto|discriminate].
  - exists w_f12, 2. split; [vm_compute; auto|]. split.
    + split; apply nodupb_NoDup; vm_compute; reflexivity.
    + vm_compute. split; [auto|discriminate].
Qed.
Print Assumptions C05_no_trash_when_underreplicated_refuted.

Theorem C05_no_trash_when_underreplicated_partial : forall dflt rank devrank minMtime raw sro repl desired k,
  (* every device is mounted once; the class is offered by some mount (or is "default") *)
  unshared (setup raw sro) -> In k (classes_of dflt (setup raw sro)) ->
  0 < lookup desired k ->
  phys_repl dflt k (setup raw sro) (held (setup raw sro) repl) < lookup desired k ->
  trashes (fst (balance dflt rank devrank minMtime raw sro repl desired)) = [].
Proof. exact under_partial. Qed.
Print Assumptions C05_no_trash_when_underreplicated_partial.

(* "carrying out every trash leaves each class with min(desired, before) replication over distinct
   devices": fails with a shared device (F1) and, without any shared device, when a server has two
   mounts of the class (F10) *)
Theorem C05_trash_preserves_replication_refuted :
  (exists c k, 0 < lookup (c_desired c) k /\
     phys_repl (c_dflt c) k (setup (c_raw c) (c_sro c)) (after (setup (c_raw c) (c_sro c)) (c_repl c) (trashes (fst (m_out c)))) <
     Nat.min (lookup (c_desired c) k) (phys_repl (c_dflt c) k (setup (c_raw c) (c_sro c)) (held (setup (c_raw c) (c_sro c)) (c_repl c)))) /\
  (exists c k, 0 < lookup (c_desired c) k /\ unshared (setup (c_raw c) (c_sro c)) /\
     In k (classes_of (c_dflt c) (setup (c_raw c) (c_sro c))) /\
     phys_repl (c_dflt c) k (setup (c_raw c) (c_sro c)) (after (setup (c_raw c) (c_sro c)) (c_repl c) (trashes (fst (m_out c)))) <
     Nat.min (lookup (c_desired c) k) (phys_repl (c_dflt c) k (setup (c_raw c) (c_sro c)) (held (setup (c_raw c) (c_sro c)) (c_repl c)))).
Proof.
  split.
  - exists w_f1, 1. vm_compute. auto.
  - exists w_f10, 0. split; [vm_compute; auto|]. split; [split; apply nodupb_NoDup; vm_compute; reflexivity|].
    split; [vm_compute; auto|vm_compute; auto].
Qed.
Print Assumptions C05_trash_preserves_replication_refuted.

Theorem C05_trash_preserves_replication_partial : forall dflt rank devrank minMtime raw sro repl desired k,
  (* every device is mounted once; no server has two mounts of class k; k is offered by some mount *)
  unshared (setup raw sro) -> NoDup (map msrv (filter (inclass dflt k) (setup raw sro))) ->
  In k (classes_of dflt (setup raw sro)) -> 0 < lookup desired k ->
  Nat.min (lookup desired k) (phys_repl dflt k (setup raw sro) (held (setup raw sro) repl)) <=
  phys_repl dflt k (setup raw sro)
            (after (setup raw sro) repl (trashes (fst (balance dflt rank devrank minMtime raw sro repl desired)))).
Proof. exact pres_partial. Qed.
Print Assumptions C05_trash_preserves_replication_partial.

(* -- the evaluator used by the harness ---------------------------------------------------------- *)

(* the boolean that judges the implementation's output reflects the Prop-level specification *)
Theorem C05_spec_b_reflects : forall c tr pl lost, spec_core c tr pl lost = true <-> Spec c tr pl lost.
Proof. exact spec_core_reflects. Qed.
Print Assumptions C05_spec_b_reflects.

Theorem C05_spec_bits_zero_iff : forall c tr pl lost, spec_bits c tr pl lost = 0%N <-> spec_core c tr pl lost = true.
Proof. exact spec_bits_zero. Qed.
Print Assumptions C05_spec_bits_zero_iff.

(* under hyp_b (devices mounted once, Desired well-formed, every desired class offered on pairwise
   different servers, something writable) the model's output meets the whole specification; the
   evaluator never accepts a known-finding bit on such a case *)
Theorem C05_model_meets_spec_partial : forall c, hyp_b c = true ->
  let '(chs, lost) := m_out c in Spec c (trashes chs) (pulls chs) lost.
Proof. exact model_meets_spec_partial. Qed.
Print Assumptions C05_model_meets_spec_partial.

(* the hypotheses are satisfiable, with trash / pull / lost outcomes *)
Theorem C05_hypotheses_satisfiable :
  hyp_b ex_ok1 = true /\ trashes (fst (m_out ex_ok1)) = [(3, 12)] /\
  hyp_b ex_ok2 = true /\ pulls (fst (m_out ex_ok2)) = [(1, 1)] /\ trashes (fst (m_out ex_ok2)) = [] /\
  hyp_b ex_ok3 = true /\ snd (m_out ex_ok3) = true.
Proof. exact ex_ok_facts. Qed.
Print Assumptions C05_hypotheses_satisfiable.

(* -- the proposed repairs.  Recommended: model/C05_fixed2.v = current code + fixes/F1_F10.diff, F8.diff,
      F12.diff (protection stays in trySlot; upstream's balancerSuite still passes).  Alternative:
      model/C05_fixed.v = current code + fixes/F1_F10_alt_protection_pass.diff, F8.diff, F12.diff.
      Both are exercised by the harness only on a patched scratch copy (VERIF_C05_FIXED=2 / =1). ------- *)

(* the recommended repair meets the whole specification on every well-formed case *)
Theorem C05_fixed2_meets_spec : forall c, wf_b c = true ->
  let '(chs, lost) := m_out_f2 c in Spec c (trashes chs) (pulls chs) lost.
Proof. exact fixed2_meets_spec. Qed.
Print Assumptions C05_fixed2_meets_spec.


(* the repaired algorithm meets the whole specification on every well-formed case: no hypothesis on
   shared devices, mounts per class and server, offered classes or read-only flags *)
Theorem C05_fixed_meets_spec : forall c, wf_b c = true ->
  let '(chs, lost) := m_out_f c in Spec c (trashes chs) (pulls chs) lost.
Proof. exact fixed_meets_spec. Qed.
Print Assumptions C05_fixed_meets_spec.
