(* C05 — property theorems only (placeholder while the proofs are being ported). *)
From Coq Require Import List Arith Bool.
From AV Require Import model.C05_model proofs.C05_proofs.
Import ListNotations.

Theorem C05_emit_trash_old : forall minMtime norepl from s m t,
  In (Trash m t) (emit minMtime norepl from s) -> t < minMtime /\ srepl s = Some t /\ swant s = false /\ m = mid (smnt s).
Proof. exact emit_trash_old. Qed.
Print Assumptions C05_emit_trash_old.
