(* C06 — keep-balance acts only on a complete view of collections and block indexes: property theorems.
   Models: model/C06_model.v  (a) EachCollection + API list call + concurrent events, (b) the two index
   readers with bufio.Scanner line semantics, (c) keepstore handleIndex, (d) the phases of Balancer.Run. *)
From Coq Require Import List Arith Bool NArith ZArith String.
From AV Require Import model.C06_model proofs.C06_paging proofs.C06_index proofs.C06_sweep proofs.C06_small.
From AV Require Import model.C06_unix proofs.C06_unix_proofs.
From AV Require Import model.C05_model model.C06_mounts proofs.C06_mounts_proofs.
From AV Require Import model.C06_azure proofs.C06_azure_proofs.
Import ListNotations.

(* ---- (a) paging ---------------------------------------------------------------------------------- *)

(* EachCollection returned nil => every collection that existed at the start of the scan and was not
   deleted while it ran was handed to the callback at least once.  For every table with unique uuids
   (any multiplicity of equal timestamps, also more than a page), every page size >= 1, every schedule
   of events between the requests (modifications and additions stamped with the current "now", several
   of them possibly sharing one timestamp; deletions; rows appearing with an arbitrary old timestamp),
   every injected request / callback failure, every fuel that sufficed. *)
Theorem C06_paging_complete : forall fuel n f evs db clock vis w' s',
  1 <= n -> NoDup (map uuid db) -> (forall r, In r db -> 1 <= mtime r <= clock) ->
  each_collection fuel n f evs db clock = (ROk, vis, w', s') ->
  forall u, In u (map uuid db) -> never_deleted u evs -> In u vis.
Proof. exact each_collection_complete. Qed.
Print Assumptions C06_paging_complete.

(* the same statement in the boolean form that the evaluator applies to the implementation's output *)
Theorem C06_paging_spec_b : forall fuel n f evs db clock vis w' s',
  1 <= n -> NoDup (map uuid db) -> (forall r, In r db -> 1 <= mtime r <= clock) ->
  each_collection fuel n f evs db clock = (ROk, vis, w', s') ->
  forallb (fun r => deleted_in (uuid r) evs || existsb (Nat.eqb (uuid r)) vis) db = true.
Proof. exact each_collection_spec. Qed.
Print Assumptions C06_paging_spec_b.

(* the server model used above: a page is sorted by (modified_at, uuid), contains only matching rows,
   is downward closed among the matching rows and non-empty when something matches *)
Theorem C06_page_is_sorted_prefix : forall db f n,
  NoDup (map uuid db) ->
  Sorted.StronglySorted key_lt (page db f n) /\
  (forall r, In r (page db f n) -> In r db /\ matches f r = true) /\
  (forall r r', In r db -> matches f r = true -> In r' (page db f n) -> key_lt r r' -> In r (page db f n)) /\
  (forall r, 1 <= n -> In r db -> matches f r = true -> page db f n <> []).
Proof.
  intros db f n H. split; [apply page_sorted_ok; exact H|]. split; [apply page_in_ok|].
  split; [intros; eapply page_closed_ok; eauto|intros; eapply page_nonempty_ok; eauto].
Qed.
Print Assumptions C06_page_is_sorted_prefix.

(* progress on a quiet table, exhaustively for every table of 0..5 rows with timestamps in {1,2,3} and
   every page size 1..6 (by computation; the unbounded fuel lemma is not proved): nil is returned within
   2*|table|/limit + 4 page requests and every row was visited *)
Theorem C06_paging_progress_small_scope : small_scope = true.
Proof. exact paging_progress_small_scope. Qed.
Print Assumptions C06_paging_progress_small_scope.

(* the hypotheses of C06_paging_complete are satisfiable with a successful scan under concurrent edits *)
Theorem C06_paging_example :
  let '(res, vis, _, _) := each_collection 30 2 nofaults ex_evs ex_db 2 in
  res = ROk /\ vis = [1; 2; 3; 5; 2; 9; 1].
Proof. exact paging_example. Qed.
Print Assumptions C06_paging_example.

(* ---- (b) index readers ---------------------------------------------------------------------------- *)

(* every proper prefix of a well-formed index text (lines `locator SP decimal LF`, then one LF) is
   reported as an error by arvados.KeepService.index ... *)
Theorem C06_index_truncation_parse : forall es p q,
  forallb wf_entry es = true -> (p ++ q)%string = render_index es -> q <> ""%string ->
  exists e, parse_index p = inl e.
Proof. exact parse_index_truncated. Qed.
Print Assumptions C06_index_truncation_parse.

(* ... and by keepclient.KeepClient.GetIndex *)
Theorem C06_index_truncation_getindex : forall es p q,
  forallb wf_entry es = true -> (p ++ q)%string = render_index es -> q <> ""%string ->
  get_index p = None.
Proof. exact get_index_truncated. Qed.
Print Assumptions C06_index_truncation_getindex.

(* the complete text is accepted with exactly its entries (mtimes below 1e12 are read as seconds);
   bounds of the code: a line fits bufio.Scanner's 64 KiB buffer, the mtime fits int64 *)
Theorem C06_index_roundtrip : forall es,
  forallb wf_entry es = true -> forallb fits es = true ->
  parse_index (render_index es) = inr (map conv es) /\ get_index (render_index es) = Some (render_lines es).
Proof. intros es H1 H2. split; [apply parse_index_roundtrip; assumption|apply get_index_roundtrip; assumption]. Qed.
Print Assumptions C06_index_roundtrip.

(* ---- (c) keepstore handleIndex --------------------------------------------------------------------- *)

(* every volume indexed without error: the response is the complete index of all their entries;
   some volume failed after writing any part of its lines: both readers reject the response *)
Theorem C06_index_handler_terminator :
  (forall ess, handle_index (map vol_ok ess) = render_index (List.concat ess)) /\
  (forall ess es_f written rest after,
     forallb wf_entry (List.concat ess ++ es_f) = true ->
     (written ++ rest)%string = render_lines es_f ->
     let body := handle_index (map vol_ok ess ++ {| v_text := written; v_ok := false |} :: after) in
     (exists e, parse_index body = inl e) /\ get_index body = None).
Proof. split; [exact handle_index_complete|exact handle_index_truncated]. Qed.
Print Assumptions C06_index_handler_terminator.

(* ---- (c') a Directory volume behind handleIndex (model/C06_unix.v = unix_volume.go IndexTo) ------------ *)

(* IndexTo returns nil exactly when every root entry it has to look into (lowercase hex name compatible with the
   prefix) could be opened and listed to its end; then every block file of those directories is in the output,
   and the output never contains anything else *)
Theorem C06_unix_index_ok_iff_every_block_directory_was_read : forall pfx ents,
  (snd (unix_index pfx ents) = true <->
   (forall e, In e ents -> dir_selected pfx e = true -> exists files, e_kind e = UDir files None)) /\
  (snd (unix_index pfx ents) = true ->
   forall e files f, In e ents -> dir_selected pfx e = true -> e_kind e = UDir files None ->
     In f files -> file_selected pfx f = true -> In (f_entry f) (fst (unix_index pfx ents))) /\
  (forall x, In x (fst (unix_index pfx ents)) ->
   exists e files fa f, In e ents /\ dir_selected pfx e = true /\ e_kind e = UDir files fa /\ In f files /\
                        file_selected pfx f = true /\ f_entry f = x).
Proof.
  intros pfx ents. split; [apply unix_index_ok_iff|]. split; [apply unix_index_complete|apply unix_index_sound].
Qed.
Print Assumptions C06_unix_index_ok_iff_every_block_directory_was_read.

(* a block directory that could not be opened, or whose listing failed after any number of entries - wherever it
   comes in the root listing and whatever directories are read after it: the handler's response has no
   end-of-index marker and both index readers reject it; otherwise the response is the complete index *)
Theorem C06_unix_partial_index_is_rejected : forall pfx ents,
  (forall e, In e ents -> dir_selected pfx e = true -> ~ (exists files, e_kind e = UDir files None) ->
   forallb wf_entry (fst (unix_index pfx ents)) = true ->
   (exists err, parse_index (unix_response pfx ents) = inl err) /\ get_index (unix_response pfx ents) = None) /\
  (snd (unix_index pfx ents) = true -> unix_response pfx ents = render_index (fst (unix_index pfx ents))).
Proof.
  intros pfx ents. split; [intros e; apply unix_partial_index_rejected|apply unix_complete_index_response].
Qed.
Print Assumptions C06_unix_partial_index_is_rejected.

(* regression witness: a variant that forgets the remembered error (e.g. overwrites it when a later Close succeeds)
   serves an index that GetIndex accepts although the root entry "fff" could not be listed *)
Theorem C06_unix_forgetful_variant_refuted :
  let body := handle_index [{| v_text := render_lines (fst (unix_index_forgetful "" w_forget));
                               v_ok := snd (unix_index_forgetful "" w_forget) |}] in
  get_index body <> None /\ snd (unix_index "" w_forget) = false /\ get_index (unix_response "" w_forget) = None.
Proof. exact forgetful_variant_refuted. Qed.
Print Assumptions C06_unix_forgetful_variant_refuted.

(* ---- (c'') an Azure blob volume behind handleIndex (model/C06_azure.v = azure_blob_volume.go IndexTo, listBlobs) ---- *)

(* IndexTo returns nil exactly when every page of the listing arrived within ListBlobsMaxAttempts requests (a "503
   ServerBusy" answer is retried, another error is not), and then the response is the complete index; a page that does
   not arrive - after any number of pages that did - leaves the response without end marker: both readers reject it *)
Theorem C06_azure_partial_listing_is_rejected : forall n pages,
  (snd (az_index n pages) = true <-> forall p, In p pages -> page_arrives n (p_atts p) = true) /\
  (snd (az_index n pages) = true -> az_response n pages = render_index (List.concat (map p_entries pages))) /\
  (forall p, In p pages -> page_arrives n (p_atts p) = false -> forallb wf_entry (fst (az_index n pages)) = true ->
     (exists err, parse_index (az_response n pages) = inl err) /\ get_index (az_response n pages) = None).
Proof.
  intros n pages. split; [apply az_index_ok_iff|]. split; [apply az_complete_index_response|intros p; apply az_partial_index_rejected].
Qed.
Print Assumptions C06_azure_partial_listing_is_rejected.

(* regression witness: a retry helper that hands back an empty page without error when every attempt was "busy" *)
Theorem C06_azure_swallowed_busy_variant_refuted :
  snd (az_index_swallow 2 w_busy) = true /\ snd (az_index 2 w_busy) = false /\
  get_index (handle_index [{| v_text := render_lines (fst (az_index_swallow 2 w_busy)); v_ok := snd (az_index_swallow 2 w_busy) |}]) <> None /\
  get_index (az_response 2 w_busy) = None.
Proof. exact swallow_variant_refuted. Qed.
Print Assumptions C06_azure_swallowed_busy_variant_refuted.

(* ---- (d') which indexes a sweep fetches (model/C06_mounts.v; cleanupMounts = model/C05_model.v cleanup) -------- *)

(* after cleanupMounts, GetCurrentState asks one mount per device (itself for a blank device id, any mount with the
   same id otherwise - the choice is map order): then EVERY mount advertised by the keepstores is covered by a fetched
   index, including the read-only mounts cleanupMounts dropped (their device is fetched through a read-write mount) *)
Theorem C06_one_index_per_device_covers_every_mount : forall raw idx,
  (forall s, In s (cleanup raw) -> exists i, In i (cleanup raw) /\ In (mid i) idx /\ (i = s \/ (dev s <> 0 /\ dev i = dev s))) ->
  all_covered raw idx = true.
Proof. exact one_index_per_device_covers_all. Qed.
Print Assumptions C06_one_index_per_device_covers_every_mount.

(* the boolean judged on the index requests a successful sweep made *)
Theorem C06_all_covered_b_reflects : forall raw idx,
  all_covered raw idx = true <->
  forall m, In m raw -> exists i, In i raw /\ In (mid i) idx /\ (mid i = mid m \/ (dev m <> 0 /\ dev i = dev m)).
Proof. exact all_covered_reflects. Qed.
Print Assumptions C06_all_covered_b_reflects.

(* regression witness: cleanupMounts without the `DeviceID != ""` guard drops the read-only mount with a blank
   device id next to a read-write one; its index is never requested *)
Theorem C06_blank_device_guard_variant_refuted :
  map mid (cleanup_noguard w_blank) = [1] /\ all_covered w_blank (map mid (cleanup_noguard w_blank)) = false /\
  index_requests w_blank = [1; 2] /\ all_covered w_blank (index_requests w_blank) = true.
Proof. exact blank_guard_variant_refuted. Qed.
Print Assumptions C06_blank_device_guard_variant_refuted.

(* ---- (d) the sweep --------------------------------------------------------------------------------- *)

(* any request before the commit phase fails (keep services, mounts, sanity checks, ClearTrashLists,
   discovery document, any index, any collection count/page), or the late sanity check refuses the
   result => Run returns an error and every PUT /trash and PUT /pull sent so far had an empty list *)
Theorem C06_sweep_aborts : forall c fails,
  (exists r, In r (List.concat (pre_phases c)) /\ fails r = true) \/ s_sane c = false ->
  snd (sweep c fails) = false /\ forall p, In p (fst (sweep c fails)) -> put_items p = 0.
Proof. exact sweep_aborts. Qed.
Print Assumptions C06_sweep_aborts.

(* a pull list cannot be delivered => no trash list is sent *)
Theorem C06_pull_failure_no_trash : forall c fails s,
  s_commit_pulls c = true -> In s (s_services c) -> fails (QPull s) = true ->
  snd (sweep c fails) = false /\
  forall p, In p (fst (sweep c fails)) -> is_trash p = true -> put_items p = 0.
Proof. exact pull_failure_no_trash. Qed.
Print Assumptions C06_pull_failure_no_trash.

(* Run returns nil only if every request of the view succeeded and the sanity check passed *)
Theorem C06_sweep_ok_means_complete : forall c fails,
  snd (sweep c fails) = true ->
  (forall r, In r (List.concat (pre_phases c)) -> fails r = false) /\ s_sane c = true.
Proof. exact sweep_ok_no_failure. Qed.
Print Assumptions C06_sweep_ok_means_complete.

(* the hypotheses are not vacuous: a complete sweep sends its non-empty lists, a failing index request
   leaves only the empty ClearTrashLists requests *)
Theorem C06_sweep_example :
  let c := {| s_services := [0; 1]; s_ks_pages := 1; s_indexed := [1; 2]; s_coll_reqs := 3; s_clear := true;
              s_commit_pulls := true; s_commit_trash := true; s_sane := true; s_plan := [(0, (2, 0)); (1, (0, 1))] |} in
  sweep c (fun _ => false) =
    ([PutTrash 0 0; PutTrash 1 0; PutPull 0 0; PutPull 1 1; PutTrash 0 2; PutTrash 1 0], true) /\
  fst (sweep c (fun r => req_eqb r (QIndex 2))) = [PutTrash 0 0; PutTrash 1 0].
Proof. exact sweep_sends_lists. Qed.
Print Assumptions C06_sweep_example.

(* ---- (a) paging: progress, for all inputs (proofs/C06_progress.v) ----------------------------------- *)
From AV Require Import proofs.C06_progress.

(* The paging loop terminates: the model's out-of-fuel result is unreachable once the fuel is at least
     fuel_bound evs db = |evs| + 3 * (|db| + number of Add/Insert events in evs) + 3
   (one request per batch of the schedule, then three per row that is or may come to be in the table).
   For every table with unique uuids and any multiplicity of equal timestamps, every page size >= 1, every
   injected request / callback failure and every schedule of Modify/Add/Delete/Tick/Insert events.
   res_of is the result component of each_collection's value. *)
Theorem C06_paging_terminates : forall fuel n f evs db clock,
  1 <= n -> NoDup (map uuid db) -> (forall r, In r db -> 1 <= mtime r <= clock) ->
  fuel_bound evs db <= fuel ->
  res_of (each_collection fuel n f evs db clock) <> RFuel.
Proof. exact each_collection_terminates. Qed.
Print Assumptions C06_paging_terminates.

(* the fuel is irrelevant once it suffices: a result other than RFuel (with its callback sequence, world
   and scanner state) is the result for every larger fuel *)
Theorem C06_paging_fuel_irrelevant : forall fuel fuel' n f evs db clock,
  res_of (each_collection fuel n f evs db clock) <> RFuel -> fuel <= fuel' ->
  each_collection fuel' n f evs db clock = each_collection fuel n f evs db clock.
Proof. exact each_collection_fuel_mono. Qed.
Print Assumptions C06_paging_fuel_irrelevant.

(* progress on a quiet table, for EVERY table and page size: nil is returned within
   min (3*|table| + 3, 4*|table|/(limit+1) + 4) page requests and every row was visited *)
Theorem C06_paging_progress : forall fuel n db clock,
  1 <= n -> NoDup (map uuid db) -> (forall r, In r db -> 1 <= mtime r <= clock) ->
  Nat.min (3 * List.length db + 3) (4 * List.length db / (n + 1) + 4) <= fuel ->
  exists vis w s', each_collection fuel n nofaults [] db clock = (ROk, vis, w, s') /\
                   forall r, In r db -> In (uuid r) vis.
Proof. exact paging_progress_quiet. Qed.
Print Assumptions C06_paging_progress.

(* the same in the boolean form of the small-scope check (quiet_ok db limit is
   quiet_ok_at (2*|db|/limit + 4) db limit 3), and for any fuel at all: it ran out, or nil + all rows *)
Theorem C06_paging_progress_b :
  (forall db limit, quiet_ok db limit = quiet_ok_at (2 * List.length db / limit + 4) db limit 3) /\
  (forall fuel n db clock,
     1 <= n -> NoDup (map uuid db) -> (forall r, In r db -> 1 <= mtime r <= clock) ->
     Nat.min (3 * List.length db + 3) (4 * List.length db / (n + 1) + 4) <= fuel ->
     quiet_ok_at fuel db n clock = true) /\
  (forall fuel n db clock,
     1 <= n -> NoDup (map uuid db) -> (forall r, In r db -> 1 <= mtime r <= clock) ->
     res_of (each_collection fuel n nofaults [] db clock) = RFuel \/
     exists vis w s', each_collection fuel n nofaults [] db clock = (ROk, vis, w, s') /\
                      forall r, In r db -> In (uuid r) vis).
Proof.
  split; [exact quiet_ok_is_at|]. split; [exact quiet_ok_at_general|exact paging_quiet_any_fuel].
Qed.
Print Assumptions C06_paging_progress_b.

(* the request count 2*|table|/limit + 4 assumed by C06_paging_progress_small_scope is NOT a bound outside
   its scope: 7 rows with one timestamp, then 2 with another, page size 5, need 8 page requests *)
Theorem C06_paging_small_scope_formula_not_general :
  res_of (each_collection (2 * List.length ex_formula_db / 5 + 4) 5 nofaults [] ex_formula_db 2) = RFuel /\
  quiet_ok ex_formula_db 5 = false /\
  res_of (each_collection 8 5 nofaults [] ex_formula_db 2) = ROk.
Proof. exact small_scope_formula_not_general. Qed.
Print Assumptions C06_paging_small_scope_formula_not_general.

(* the fuel has to depend on the schedule: with two collections that are modified again before every
   request (chase = [Modify 1; Modify 2], table R2 1 = rows 1 and 2 at time 1) a scan given F page requests
   and F+2 such batches is still running when the fuel ends, for every F and every page size.  The Go loop
   behaves the same way: it follows "now" for as long as collections keep being modified. *)
Theorem C06_paging_fuel_depends_on_schedule : forall F n,
  1 <= n -> res_of (each_collection F n nofaults (repeat chase (F + 2)) (R2 1) 1) = RFuel.
Proof. exact no_schedule_independent_fuel. Qed.
Print Assumptions C06_paging_fuel_depends_on_schedule.
