(* C17 — a container's saved output is exactly what it left in its output directory: property theorems only.
   Vocabulary (coq/model/C17_model.v): [walk cf b depth st dest src via below] = walkMount (via = true) / walkHostFS
   (via = false) of lib/crunchrun/copier.go with b = maxSymlinks + 1; [copy_model] = Copy() read back as a listing;
   [resolve] = the specification (a walk of the container's view with kernel semantics); [host_entry cf src pos n]:
   src is below the output directory, nothing is mounted below it, and os.Lstat of its host path yields node n;
   [to_host cf src]: walkMount(src) is handled by the host walk; [lexical src target] = the container path the copier
   computes for a link at src with that target; [walk_mounts_below cf wm st dest src] = walkMountsBelow(dest, src) with
   wm = the walkMount call made for each mount found; [copy_regular m]: the mount was copied into its parent as a
   regular file at container start (text, json, writable collection); [abs_comps p] = the non-empty components of p;
   [is_prefix] = component-wise prefix (the test the specification [resolve] uses in locate / child_names_at). *)
From Coq Require Import NArith List String Bool.
From AV Require Import lib.Str model.C10_manifest model.C10_gomanifest model.C17_model proofs.C17_proofs
  proofs.C17_below_proofs.
Import ListNotations.
Local Open Scope string_scope.

(* escaping_link_fails: a link whose target is in no mount (and under no secret) makes the walk fail, whatever the
   remaining budget, depth, accumulated plan and destination *)
Theorem C17_escaping_link_fails : forall cf b d st dest src below pos target,
  host_entry cf src pos (Link target) ->
  find_mount cf (lexical src target) = None -> under_secret cf (lexical src target) 0 = false ->
  snd (walk cf b (S d) st dest src false below) = SErr.
Proof. exact escaping_link_fails. Qed.
Print Assumptions C17_escaping_link_fails.

(* special_file_fails *)
Theorem C17_special_file_fails : forall cf b d st dest src below pos,
  host_entry cf src pos Special -> snd (walk cf b (S d) st dest src false below) = SErr.
Proof. exact special_file_fails. Qed.
Print Assumptions C17_special_file_fails.

(* cycle_fails: any set of container paths closed under "is a symlink of the output tree whose target is again in the
   set" — a self-link, a cycle of any length — fails for every budget; the walk is a total function whose structural
   argument is the budget, so it never diverges *)
Theorem C17_cycle_fails : forall cf (S : string -> Prop), link_closed cf S ->
  forall b d st dest src below, S src -> snd (walk cf b (Datatypes.S (Datatypes.S d)) st dest src true below) = SErr.
Proof. exact cycle_fails. Qed.
Print Assumptions C17_cycle_fails.

Theorem C17_cycle_hypotheses_satisfiable : link_closed cyc_cfg cyc_set /\ fst (copy_model cyc_cfg nostore) = RErr.
Proof. split; [exact cyc_closed|exact cyc_copy_fails]. Qed.
Print Assumptions C17_cycle_hypotheses_satisfiable.

(* the budget is the code's: a chain of b+1 links fails with budget b (limitFollowSymlinks = 10: 12 links in a row) *)
Theorem C17_chain_longer_than_budget_fails : forall cf b d st dest src below,
  chain cf (Datatypes.S b) src -> snd (walk cf b (Datatypes.S (Datatypes.S d)) st dest src true below) = SErr.
Proof. exact chain_too_long_fails. Qed.
Print Assumptions C17_chain_longer_than_budget_fails.

(* a failure anywhere makes the whole directory walk fail: it is never dropped *)
Theorem C17_failure_is_sticky : forall {A} (g : wstate -> A -> wres) (l : list A) r, snd r <> SOk ->
  fold_left (fun r x => bind r (fun st => g st x)) l r = r.
Proof. intros A. exact (@fold_bind_not_ok A). Qed.
Print Assumptions C17_failure_is_sticky.

(* secrets_absent, link form: walkMount on a path at or below a secret mount adds nothing to the plan *)
Theorem C17_link_to_secret_omitted : forall cf b d st dest src below rm,
  find_mount cf src = Some rm -> under_secret cf src (String.length (fst rm)) = true ->
  walk cf b (S d) st dest src true below = ok st.
Proof. exact secret_target_omitted. Qed.
Print Assumptions C17_link_to_secret_omitted.

(* secrets_absent for all trees is REFUTED (finding F16, secret form): the secret below the output directory is reached
   through a symlinked directory; the copier tests the string it computed, not the path the kernel reaches, and saves
   the secret's bytes under the link's name.  (The variant through an unclean absolute target, finding F19, is
   repaired by commit 05c563f — second statement.) *)
Theorem C17_secrets_absent_refuted :
  (exists l, resolve f16s_cfg nostore = SpecOk l /\ forall e, In e l -> snd e <> "TOP-SECRET") /\
  (exists l, fst (copy_model f16s_cfg nostore) = ROk l /\ In ("./l", false, "TOP-SECRET") l) /\
  w_f16 (snd (copy_model f16s_cfg nostore)) = true.
Proof. exact f16_secret_witness. Qed.
Print Assumptions C17_secrets_absent_refuted.

Theorem C17_former_finding_F19_repaired :
  resolve f19_cfg nostore = SpecOk [] /\ fst (copy_model f19_cfg nostore) = ROk [].
Proof. exact f19_repaired. Qed.
Print Assumptions C17_former_finding_F19_repaired.

(* copy_succeeds_on_wellformed is REFUTED (finding F11): the tree is well-formed (the specification resolves it) but
   the copy fails *)
Theorem C17_copy_succeeds_on_wellformed_refuted :
  resolve f11_cfg nostore = SpecOk [("./a", true, ""); ("./a/x", false, "hello"); ("./b", true, "");
                                    ("./b/x", false, "hello"); ("./l", false, "hello")] /\
  fst (copy_model f11_cfg nostore) = RErr /\ w_f11 (snd (copy_model f11_cfg nostore)) = true.
Proof. exact f11_witness. Qed.
Print Assumptions C17_copy_succeeds_on_wellformed_refuted.

(* ... and by finding F18 (link to a json-mounted file of the output directory) *)
Theorem C17_copy_succeeds_on_wellformed_refuted_F18 :
  resolve f18_cfg nostore = SpecOk [("./j.json", false, "{}"); ("./l", false, "{}")] /\
  fst (copy_model f18_cfg nostore) = RErr.
Proof. exact f18_witness. Qed.
Print Assumptions C17_copy_succeeds_on_wellformed_refuted_F18.

(* copy_ok_equals_resolve is REFUTED (finding F16): the copy succeeds and l carries the bytes of another file *)
Theorem C17_copy_ok_equals_resolve_refuted :
  (exists l, resolve f16_cfg nostore = SpecOk l /\ In ("./l", false, "B-inner") l) /\
  (exists l, fst (copy_model f16_cfg nostore) = ROk l /\ In ("./l", false, "A-top") l) /\
  w_f16 (snd (copy_model f16_cfg nostore)) = true.
Proof. exact f16_witness. Qed.
Print Assumptions C17_copy_ok_equals_resolve_refuted.

(* the input of the former finding F17 (link into a second "tmp" mount) now fails cleanly, as the specification wants
   (commit d81649d); and the Extract calls inside the copier cannot panic (C10 no_panic_gomanifest) *)
Theorem C17_former_finding_F17_repaired :
  fst (copy_model f17_cfg nostore) = RErr /\ resolve f17_cfg nostore = SpecFail.
Proof. exact f17_repaired. Qed.
Print Assumptions C17_former_finding_F17_repaired.

Theorem C17_mount_extraction_never_panics : forall cf st dest src rm, snd (walk_mount_static cf st dest src rm) <> SPanic.
Proof. exact walk_mount_static_np. Qed.
Print Assumptions C17_mount_extraction_never_panics.

(* the copier never panics, for every host tree, mounts table, secret list and block store (this was refuted by
   finding F17 until commit d81649d, and needs C10's no_panic theorem for the Extract calls) *)
Theorem C17_copy_never_panics : forall cf st, fst (copy_model cf st) <> RPanic.
Proof. exact copy_no_panic. Qed.
Print Assumptions C17_copy_never_panics.

Theorem C17_walk_never_panics : forall cf b depth st dest src via below,
  snd (walk cf b depth st dest src via below) <> SPanic.
Proof. exact walk_no_panic. Qed.
Print Assumptions C17_walk_never_panics.

(* ---- "collections mounted beneath the output path": what counts as beneath is decided at a path-component boundary ---- *)

(* walkMountsBelow(dest, src) calls walkMount exactly for the mounts (not copied as regular files) whose mount point
   has the prefix src + "/", in the order of the table, and nothing else *)
Theorem C17_mounts_below_visited_exactly : forall cf wm st dest src,
  walk_mounts_below cf wm st dest src =
  fold_left (fun r rm => bind r (fun st => wm st (dest ++ drop (String.length src) (fst rm)) (fst rm)))
            (filter (fun rm => has_prefix (src ++ "/") (fst rm) && negb (copy_regular (snd rm))) (c_mounts cf)) (ok st).
Proof. exact walk_mounts_below_exact. Qed.
Print Assumptions C17_mounts_below_visited_exactly.

(* the boolean test is the Prop-level statement "mnt = src/rel" *)
Theorem C17_below_means_separator_then_name : forall src mnt,
  has_prefix (src ++ "/") mnt = true <-> exists rel, mnt = src ++ "/" ++ rel.
Proof. exact below_reflect. Qed.
Print Assumptions C17_below_means_separator_then_name.

(* every visited mount is src/rel for some rel and is saved at dest/rel: no other destination is ever produced *)
Theorem C17_mount_below_saved_under_its_relative_name : forall cf src dest rm,
  In rm (filter (fun rm => has_prefix (src ++ "/") (fst rm) && negb (copy_regular (snd rm))) (c_mounts cf)) ->
  exists rel, fst rm = src ++ "/" ++ rel /\ dest ++ drop (String.length src) (fst rm) = dest ++ "/" ++ rel.
Proof. exact visited_saved_under_dest. Qed.
Print Assumptions C17_mount_below_saved_under_its_relative_name.

(* a mount point that only extends the NAME of src (/ctr/outdir/foobar for /ctr/outdir/foo, /ctr/outdir2 for the output
   directory) is not below src: not for the copier's string test ... *)
Theorem C17_name_extension_is_not_below : forall src ext,
  has_prefix "/" ext = false -> has_prefix (src ++ "/") (src ++ ext) = false.
Proof. exact name_extension_not_below. Qed.
Print Assumptions C17_name_extension_is_not_below.

(* ... and not for the specification's component-wise test, which agrees with the string test on real descendants *)
Theorem C17_spec_agrees_on_below : forall src,
  (forall rel, is_prefix (abs_comps src) (abs_comps (src ++ "/" ++ rel)) = true) /\
  (forall ext, last (comps_of src) "" <> "" -> ext <> "" -> has_prefix "/" ext = false ->
               is_prefix (abs_comps src) (abs_comps (src ++ ext)) = false).
Proof.
  intros src. split; [intros rel; exact (proj2 (below_is_component_prefix src rel))|exact (name_extension_not_component_prefix src)].
Qed.
Print Assumptions C17_spec_agrees_on_below.

(* when no mount point is src/rel, following a link to the directory src (walkHostFS with includeMounts) is the plain
   walk of src — whatever other mount points have src as a string prefix — and following a link to a path src inside a
   collection (or excluded / unsupported) mount yields that mount's part only *)
Theorem C17_sibling_mounts_do_not_affect_host_walk : forall cf b d st dest src,
  (forall rm, In rm (c_mounts cf) -> copy_regular (snd rm) = true \/ ~ (exists rel, fst rm = src ++ "/" ++ rel)) ->
  walk cf b (S d) st dest src false true = walk cf b (S d) st dest src false false.
Proof. exact host_walk_ignores_mounts_not_below. Qed.
Print Assumptions C17_sibling_mounts_do_not_affect_host_walk.

Theorem C17_sibling_mounts_do_not_affect_mount_walk : forall cf b d st dest src below rm,
  find_mount cf src = Some rm -> under_secret cf src (String.length (fst rm)) = false ->
  negb (m_exclude (snd rm)) && String.eqb (m_kind (snd rm)) "tmp" = false ->
  (forall rm, In rm (c_mounts cf) -> copy_regular (snd rm) = true \/ ~ (exists rel, fst rm = src ++ "/" ++ rel)) ->
  walk cf b (S d) st dest src true below = walk_mount_static cf st dest src rm.
Proof. exact mount_walk_ignores_mounts_not_below. Qed.
Print Assumptions C17_sibling_mounts_do_not_affect_mount_walk.

(* the hypotheses are satisfiable and the whole copy agrees with the specification on the shape: foo/a.txt,
   link -> foo, collections mounted at /ctr/outdir/foobar and at /ctr/outdir2 — link/ holds a.txt only, foobar/ is
   saved once, nothing of /ctr/outdir2 is saved *)
Theorem C17_sibling_mount_witness :
  (forall rm, In rm (c_mounts nx_cfg) ->
     copy_regular (snd rm) = true \/ ~ (exists rel, fst rm = "/ctr/outdir/foo" ++ "/" ++ rel)) /\
  resolve nx_cfg nx_store =
    SpecOk [("./foo", true, ""); ("./foo/a.txt", false, "aaa"); ("./foobar", true, ""); ("./foobar/x.txt", false, "foo");
            ("./link", true, ""); ("./link/a.txt", false, "aaa")] /\
  fst (copy_model nx_cfg nx_store) =
    ROk [("./foo", true, ""); ("./foo/a.txt", false, "aaa"); ("./foobar", true, ""); ("./foobar/x.txt", false, "foo");
         ("./link", true, ""); ("./link/a.txt", false, "aaa")].
Proof. split; [exact nx_nothing_below|]. split; [exact (proj1 nx_witness)|exact (proj1 (proj2 nx_witness))]. Qed.
Print Assumptions C17_sibling_mount_witness.
