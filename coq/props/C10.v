(* C10 — all manifest codecs agree with the published manifest format: property theorems only.
   Vocabulary (coq/model): [ref sizes pos len] = the published range semantics (non-empty pieces of [pos,pos+len) over
   the concatenated blocks); fs_map / go_map / py_lar = the range mappers of the collection filesystem loader, of
   sdk/go/manifest (firstBlock + scan) and of sdk/python/arvados/_ranges.py; [nonempty] drops zero-length segments. *)
From Coq Require Import NArith List String Ascii Bool.
From AV Require Import lib.Str model.C10_manifest model.C10_ranges model.C10_fs model.C10_gomanifest model.C10_python
  lib.Md5 proofs.C10_witness proofs.C10_ranges_proofs proofs.C10_escape_proofs proofs.C10_bytes_proofs proofs.C10_pdh_proofs proofs.C10_gm_proofs model.C10_run proofs.C10_run_proofs proofs.C10_reject_proofs.
Import ListNotations.
Local Open Scope N_scope.

(* ---- codec_agrees, range level: every block-size list (zero-length blocks anywhere), every range in the stream ---- *)

(* collection filesystem loader: exactly the reference segments (so never an empty one), from any cursor position
   left by the previous file token of the stream; the bound 2^63 is the loader's int64 *)
Theorem C10_codec_agrees_fs : forall sizes cur offset len,
  cur_ok sizes cur -> offset + len <= total sizes -> offset + len < 2 ^ 63 ->
  exists cur', fs_map sizes cur offset len = FsSegs (ref sizes offset len) (fst cur') (snd cur') /\ cur_ok sizes cur'.
Proof. exact fs_map_ref. Qed.
Print Assumptions C10_codec_agrees_fs.

Theorem C10_cursor_initial : forall sizes, cur_ok sizes (O, 0).
Proof. exact cur_ok_start. Qed.
Print Assumptions C10_cursor_initial.

Theorem C10_reference_segments_nonempty : forall sizes pos len sg, In sg (ref sizes pos len) -> 0 < snd sg.
Proof. intros sizes pos len sg. apply ref_from_nonempty. Qed.
Print Assumptions C10_reference_segments_nonempty.

(* Go manifest package (the bound 2^64 is its uint64) *)
Theorem C10_codec_agrees_gomanifest : forall sizes pos len,
  0 < len -> pos + len <= total sizes -> pos + len < 2 ^ 64 ->
  exists l, go_map sizes pos len = GSegs l /\ nonempty l = ref sizes pos len.
Proof. exact go_map_ref. Qed.
Print Assumptions C10_codec_agrees_gomanifest.

(* Python range mapper (unbounded integers) *)
Theorem C10_codec_agrees_python : forall sizes pos len,
  pos + len <= total sizes ->
  exists l, py_lar sizes pos len = PySegs l /\ nonempty l = ref sizes pos len.
Proof. exact py_lar_ref. Qed.
Print Assumptions C10_codec_agrees_python.

(* ---- binary_search_terminates / no_panic: for EVERY offsets array with >= 2 entries (i.e. >= 1 block) and EVERY
        start, firstBlock neither runs out of fuel (fuel = length + 1) nor indexes out of range ---- *)
Theorem C10_binary_search_terminates : forall offs start, (2 <= List.length offs)%nat ->
  match go_first offs start with
  | BsFound i => (S i < List.length offs)%nat
  | BsNotFound => True
  | BsPanic | BsFuel => False
  end.
Proof. exact go_first_safe. Qed.
Print Assumptions C10_binary_search_terminates.

Theorem C10_python_first_block_is_go_first_block : forall sizes start,
  py_first (ranges_from 0 sizes) start = go_first (offsets sizes) start.
Proof. exact py_first_eq. Qed.
Print Assumptions C10_python_first_block_is_go_first_block.

(* no_panic, Go manifest package, for EVERY input string, source path and relocation: Extract and
   StreamIter+FileSegmentIterByName end in Ok / Err (/ Unmodelled: a stream whose block sizes sum to >= 2^63), never
   in Panic.  (This was refuted by finding F14 until commit b3717b9 added the wrap test to the range check.) *)
Theorem C10_no_panic_gomanifest : forall txt src reloc, gm_extract txt src reloc <> Panic /\ gm_iter txt <> Panic.
Proof. intros txt src reloc. split; [apply gm_extract_no_panic|apply gm_iter_no_panic]. Qed.
Print Assumptions C10_no_panic_gomanifest.

(* ... range level: whatever the block sizes, an accepted file token (uint64 fields) is mapped without panic *)
Theorem C10_no_panic_gomanifest_ranges : forall sizes pos len,
  0 < len -> pos < 2 ^ 64 -> len < 2 ^ 64 -> go_range_ok sizes pos len = true -> go_map sizes pos len <> GPanic.
Proof. exact go_map_no_panic. Qed.
Print Assumptions C10_no_panic_gomanifest_ranges.

(* the inputs of the former findings F14 / F15 are now rejected with an error by both Go codecs *)
Theorem C10_former_findings_rejected :
  (wf_manifest f14_text = false /\ gm_extract f14_text "." "." = Err) /\
  (wf_manifest f15_text = false /\ fs_load f15_text = None).
Proof. split; [exact f14_rejected|exact f15_rejected]. Qed.
Print Assumptions C10_former_findings_rejected.

Theorem C10_no_panic_python : forall sizes pos len, sizes <> [] -> py_lar sizes pos len <> PyPanic.
Proof. exact py_lar_no_exception. Qed.
Print Assumptions C10_no_panic_python.

(* ---- escape / unescape, for all names (all byte strings) ---- *)
Theorem C10_escape_roundtrip : forall s, unescape (escape s) = s.
Proof. exact escape_roundtrip. Qed.
Print Assumptions C10_escape_roundtrip.

Theorem C10_escape_roundtrip_fs : forall s, fs_unescape (fs_escape s) = s.
Proof. exact fs_escape_roundtrip. Qed.
Print Assumptions C10_escape_roundtrip_fs.

Theorem C10_escape_roundtrip_gomanifest : forall s, gm_unescape (gm_escape s) = s.
Proof. exact gm_escape_roundtrip. Qed.
Print Assumptions C10_escape_roundtrip_gomanifest.

Theorem C10_escape_roundtrip_python : forall s, unescape (py_escape s) = s.
Proof. exact py_escape_roundtrip. Qed.
Print Assumptions C10_escape_roundtrip_python.

(* names written by the manifest package are read back by the filesystem loader and vice versa; the two
   unescapers are the same function although their regular expressions differ ([0-9]{3} vs [0-7]{3}) *)
Theorem C10_escape_cross_codec : forall s, fs_unescape (gm_escape s) = s /\ gm_unescape (fs_escape s) = s.
Proof. intros s. split; [apply gm_escape_fs_unescape|apply fs_escape_gm_unescape]. Qed.
Print Assumptions C10_escape_cross_codec.

Theorem C10_unescape_codecs_agree : forall s, gm_unescape s = unescape s /\ fs_unescape s = unescape s.
Proof. intros s. split; [apply gm_unescape_eq|apply fs_unescape_eq]. Qed.
Print Assumptions C10_unescape_codecs_agree.

Theorem C10_python_escape_is_reference_escape : forall s, py_escape s = escape s.
Proof. exact py_escape_eq. Qed.
Print Assumptions C10_python_escape_is_reference_escape.

(* ---- the reference segments mean what the published text says: the bytes of a file token are the substring
        [position, position+size) of the concatenation of the stream's blocks, for every block store whose blocks
        have the sizes their locators state ---- *)
Theorem C10_reference_segments_are_the_published_bytes : forall (st : store) (s : stream) (f : ftok),
  consistent_blocks st (s_blocks s) -> segs_bytes st (ftok_segs s f) = ftok_bytes st s f.
Proof. exact ref_bytes. Qed.
Print Assumptions C10_reference_segments_are_the_published_bytes.

(* ---- the comparison used by the boolean specification (equal canonical forms) means equal bytes for EVERY store ---- *)
Theorem C10_canonical_comparison_sound : forall a b, canon_eqb a b = true -> forall st, segs_bytes st a = segs_bytes st b.
Proof. exact canon_eqb_bytes. Qed.
Print Assumptions C10_canonical_comparison_sound.

(* ---- pdh_spec: for every valid manifest, PortableDataHash = MD5 and length of the text with every locator reduced to
        hash+size ---- *)
Theorem C10_pdh_spec : forall txt, valid_manifest txt = true ->
  pdh txt = (md5hex (strip_manifest txt) ++ "+" ++ dec (slen (strip_manifest txt)))%string.
Proof. exact pdh_spec. Qed.
Print Assumptions C10_pdh_spec.

(* valid_manifest is satisfiable: the first example of the published format document *)
Theorem C10_valid_manifest_example :
  valid_manifest (". 930625b054ce894ac40596c3f5a0d947+33 0:0:a 0:0:b 0:33:output.txt" ++ s_nl ++
                  "./c d41d8cd98f00b204e9800998ecf8427e+0 0:0:d" ++ s_nl)%string = true.
Proof. vm_compute. reflexivity. Qed.
Print Assumptions C10_valid_manifest_example.

(* ---- what the evaluator's verdicts mean (spec_b reflects Prop-level statements over ALL block stores) ---- *)
(* FS stage, valid manifest: the text produced by MarshalManifest is valid and denotes the same files with the same
   bytes for every store; the observed portable data hash is the published one *)
Theorem C10_fs_verdict_meaning : forall c, FS.spec_valid c = true -> valid_manifest (FS.c_txt c) = true ->
  exists m out m',
    parse_manifest (FS.c_txt c) = Some m /\ FS.o_marshal c = Some out /\
    valid_manifest out = true /\ parse_manifest out = Some m' /\
    ref_files m' = ref_files m /\ ref_dirs m' = ref_dirs m /\
    (forall st p, In p (ref_files m) -> file_bytes st m' p = file_bytes st m p) /\
    FS.o_pdh c = (md5hex (strip_manifest (FS.c_txt c)) ++ "+" ++ dec (slen (strip_manifest (FS.c_txt c))))%string.
Proof. exact fs_spec_valid_sound. Qed.
Print Assumptions C10_fs_verdict_meaning.

(* GM stage: an accepted Extract(src, relocate) result is a valid manifest in which every destination path holds, for
   every block store, the bytes of its source path (extract_preserves / normalize_preserves as judged per case) *)
Theorem C10_extract_verdict_meaning : forall m src reloc out, GM.extract_ok m src reloc out = true ->
  extract_ref m src (GM.strip_slash reloc) (has_suffix_slash reloc) <> [] ->
  exists m', valid_manifest out = true /\ parse_manifest out = Some m' /\
    forall st d s, In (d, s) (extract_ref m src (GM.strip_slash reloc) (has_suffix_slash reloc)) ->
                   file_bytes st m' d = file_bytes st m s.
Proof. exact gm_extract_ok_sound. Qed.
Print Assumptions C10_extract_verdict_meaning.

Theorem C10_fs_check_case_is_model_plus_spec : forall c,
  FS.check_case c = ((if FS.model_b c then 0 else 1) + (if FS.spec_b c then 0 else 2))%N.
Proof. exact fs_check_case_eq. Qed.
Print Assumptions C10_fs_check_case_is_model_plus_spec.

(* ---- malformed_rejected, collection filesystem loader, for EVERY input string: a text that is not structurally
        well-formed (trailing newline; per line a name, >= 1 locators with numeric size, >= 1 file tokens with numeric
        position and size; every non-empty segment inside its stream) yields an error and no tree at all.  (Refuted
        by finding F15 until commit 44931b6.) ---- *)
Theorem C10_malformed_rejected_fs : forall txt, wf_manifest txt = false -> fs_load txt = None.
Proof. exact malformed_rejected_fs. Qed.
Print Assumptions C10_malformed_rejected_fs.

(* wf_manifest is neither always true nor always false *)
Theorem C10_wf_manifest_examples :
  wf_manifest (". 930625b054ce894ac40596c3f5a0d947+33 0:0:a 0:0:b 0:33:output.txt" ++ s_nl)%string = true /\
  wf_manifest (". 930625b054ce894ac40596c3f5a0d947+33 0:34:output.txt" ++ s_nl)%string = false /\
  wf_manifest ". 930625b054ce894ac40596c3f5a0d947+33 0:33:output.txt"%string = false.
Proof. repeat split; vm_compute; reflexivity. Qed.
Print Assumptions C10_wf_manifest_examples.

(* ---- malformed_rejected, Go manifest package, for EVERY input string: whenever Extract returns a text (no error),
        every non-blank line of the input is structurally well-formed; i.e. a malformed line makes Extract return an
        error (or, for block sizes summing to >= 2^63, lies outside the model) ---- *)
Theorem C10_malformed_rejected_gomanifest : forall txt src reloc out,
  gm_extract txt src reloc = Ok out -> forallb wf_line (gm_lines txt) = true.
Proof. exact gm_extract_wf. Qed.
Print Assumptions C10_malformed_rejected_gomanifest.

(* ==== codec_agrees, TEXT level: the per-range theorems lifted through the tokenisers to whole manifest texts ====
   (proofs/C10_text_lines.v, C10_text_fs.v, C10_text_gm.v).  For every text accepted by [valid_manifest] (the published
   grammar + the side conditions listed in model/C10_manifest.v) whose streams are shorter than 2^63 bytes
   ([small_manifest]: the loader's int64 / the manifest package's int; a longer stream needs > 2^37 locators): *)
From AV Require Import proofs.C10_text_lines proofs.C10_text_fs proofs.C10_text_gm.

(* collection filesystem loader: the load succeeds; the tree holds exactly the reference files and directories; every
   path holds exactly the reference segments = the concatenation, over the file tokens of that path in manifest order,
   of [ref blocks position size] (so no zero-length segment, F2) *)
Theorem C10_codec_agrees_text_fs : forall txt m,
  valid_manifest txt = true -> parse_manifest txt = Some m -> small_manifest m = true ->
  exists t, fs_load txt = Some t /\
    (forall path, fs_file_segs t path = denote m path) /\
    (forall path, In path (fs_files t) <-> In path (file_paths m)) /\
    (forall path, In path (fs_dirs t) <-> path = "."%string \/ In path (dir_paths m)) /\
    NoDup (fs_files t) /\ NoDup (fs_dirs t).
Proof. exact fs_text_agrees. Qed.
Print Assumptions C10_codec_agrees_text_fs.

(* ... hence, for every block store, every path of the loaded tree reads the reference bytes *)
Theorem C10_codec_agrees_text_fs_bytes : forall txt m t (st : store) path,
  valid_manifest txt = true -> parse_manifest txt = Some m -> small_manifest m = true -> fs_load txt = Some t ->
  segs_bytes st (fs_file_segs t path) = file_bytes st m path.
Proof. exact fs_text_bytes. Qed.
Print Assumptions C10_codec_agrees_text_fs_bytes.

(* sdk/go/manifest, StreamIter + FileSegmentIterByName: no error, no panic; per stream and file token, in order, the
   path and (after dropping the zero-length marker segments) the reference segments of that path in that stream *)
Theorem C10_codec_agrees_text_gomanifest_iter : forall txt m,
  valid_manifest txt = true -> parse_manifest txt = Some m -> small_manifest m = true ->
  exists l, gm_iter txt = Ok l /\
    map (fun x => (fst x, filter seg_nonempty (snd x))) l =
    flat_map (fun s => map (fun f => let p := path_of (s_name s) (ft_name f) in (p, stream_segs s p)) (s_ftoks s)) m.
Proof. exact gm_iter_text_agrees. Qed.
Print Assumptions C10_codec_agrees_text_gomanifest_iter.

(* sdk/go/manifest, Manifest.segment (the input of Extract / normalisation): the two-level map
   stream name -> file name -> segments holds, under the key (a, b), exactly the reference denotation of the path a/b
   if that path occurs in the manifest, and nothing else *)
Theorem C10_codec_agrees_text_gomanifest_segment : forall txt m,
  valid_manifest txt = true -> parse_manifest txt = Some m -> small_manifest m = true ->
  exists sm, gm_segment txt = Ok sm /\
    forall a b, match assoc_get a sm with Some sf => assoc_get b sf | None => None end =
      if negb (contains_char c_slash b) && mem_str (a ++ "/" ++ b)%string (all_paths m)
      then Some (denote m (a ++ "/" ++ b)%string) else None.
Proof. exact gm_segment_text_agrees. Qed.
Print Assumptions C10_codec_agrees_text_gomanifest_segment.

(* ==== extract_preserves / normalize_preserves, TEXT level (proofs/C10_text_canon.v, C10_text_norm.v, C10_text_extract.v) ====
   Hypotheses besides validity and [small_manifest]:
     - locators with the same hash state the same size.  This is implied by the existence of ANY block store consistent
       with the manifest (C10_consistent_store_gives_consistent_sizes) and it cannot be dropped
       (C10_extract_needs_consistent_sizes: normalizedText keys its block table by hash only);
     - srcpath and relocate are canonical ("." or "./a/b"; relocate optionally with a trailing "/"), as in spec_b. *)
From AV Require Import proofs.C10_text_canon proofs.C10_text_norm proofs.C10_text_extract.

(* Manifest.Extract(srcpath, relocate) returns a text (no error, no panic) that the boolean specification accepts:
   [GM.extract_ok] = the text is a valid manifest whose set of paths is exactly the set of relocated paths of the
   reference reading [extract_ref] of Extract's doc comment, and every destination path has the same canonical segments
   as its source path.  (This is the clause of spec_b that was only judged per generated case.) *)
Theorem C10_extract_preserves : forall txt m src reloc,
  valid_manifest txt = true -> parse_manifest txt = Some m -> small_manifest m = true ->
  (forall b1 b2, In b1 (flat_map s_blocks m) -> In b2 (flat_map s_blocks m) -> loc_hash b1 = loc_hash b2 -> loc_size b1 = loc_size b2) ->
  valid_stream_name_u src = true -> valid_stream_name_u (GM.strip_slash reloc) = true ->
  exists out, gm_extract txt src reloc = Ok out /\ GM.extract_ok m src reloc out = true.
Proof. exact extract_preserves. Qed.
Print Assumptions C10_extract_preserves.

(* ... spelled out: same paths, same canonical segments, same bytes for EVERY block store *)
Theorem C10_extract_preserves_bytes : forall txt m src reloc,
  valid_manifest txt = true -> parse_manifest txt = Some m -> small_manifest m = true ->
  (forall b1 b2, In b1 (flat_map s_blocks m) -> In b2 (flat_map s_blocks m) -> loc_hash b1 = loc_hash b2 -> loc_size b1 = loc_size b2) ->
  valid_stream_name_u src = true -> valid_stream_name_u (GM.strip_slash reloc) = true ->
  let E := extract_ref m src (GM.strip_slash reloc) (has_suffix_slash reloc) in
  exists out m', gm_extract txt src reloc = Ok out /\ valid_manifest out = true /\ parse_manifest out = Some m' /\
    (forall d, In d (all_paths m') <-> In d (map fst E)) /\
    (forall d s, In (d, s) E -> canon_eqb (denote m' d) (denote m s) = true) /\
    (forall (st : store) d s, In (d, s) E -> file_bytes st m' d = file_bytes st m s).
Proof. exact extract_preserves_meaning. Qed.
Print Assumptions C10_extract_preserves_bytes.

(* normalize_preserves: Extract(".", ".") = the whole manifest in normal form (one line per stream, streams and files
   sorted, each referenced block once, adjacent ranges merged) is a valid manifest with the same paths and, for every
   path and every block store, the same bytes *)
Theorem C10_normalize_preserves : forall txt m (st : store),
  valid_manifest txt = true -> parse_manifest txt = Some m -> small_manifest m = true ->
  (forall b1 b2, In b1 (flat_map s_blocks m) -> In b2 (flat_map s_blocks m) -> loc_hash b1 = loc_hash b2 -> loc_size b1 = loc_size b2) ->
  exists out m', gm_extract txt "." "." = Ok out /\ valid_manifest out = true /\ parse_manifest out = Some m' /\
    (forall p, In p (all_paths m') <-> In p (all_paths m)) /\
    (forall p, In p (all_paths m) -> canon_eqb (denote m' p) (denote m p) = true) /\
    (forall p, In p (all_paths m) -> file_bytes st m' p = file_bytes st m p).
Proof.
  intros txt m st Hv Hp Hsm Hc. destruct (normalize_preserves txt m Hv Hp Hsm Hc) as (out & m' & H1 & H2 & H3 & H4 & H5).
  exists out, m'. repeat (split; [assumption|]). intros p Hin. unfold file_bytes. apply canon_eqb_bytes. apply H5. exact Hin.
Qed.
Print Assumptions C10_normalize_preserves.

(* one line of normalizedText, for the (sorted) files of one stream: it is a valid stream of the published grammar which
   the reference parser reads back with the same name, the same file names and, file by file, the same canonical
   segments.  [nt_ok]: valid stream name; >= 1 file; distinct slash-free file names, each a permitted component or the
   directory marker "." with no data; every segment non-empty and inside its block (a valid locator of size <= 64 MiB);
   sizes consistent per hash. *)
Theorem C10_normalize_stream_preserves : forall name sf, nt_ok name (sorted_files sf) ->
  exists line s', normalized_text name sf = (line ++ s_nl)%string /\ valid_stream line = true /\ parse_stream line = Some s' /\
    s_name s' = name /\
    (forall b, In b (map ft_name (s_ftoks s')) <-> In b (map fst (sorted_files sf))) /\
    (forall f, In f (sorted_files sf) -> canon_eqb (stream_segs s' (path_of name (fst f))) (snd f) = true).
Proof.
  intros name sf H. exists (nt_line name (sorted_files sf)), (nt_stream name (sorted_files sf)).
  split; [apply normalized_text_eq|]. split; [apply nt_valid'; exact H|]. split; [apply nt_parse'; exact H|]. split; [reflexivity|].
  split; [apply nt_names'; exact H|]. intros f Hf. apply explode_canon_eqb. apply nt_content'; assumption.
Qed.
Print Assumptions C10_normalize_stream_preserves.

Theorem C10_consistent_store_gives_consistent_sizes : forall (st : store) m, consistent st m ->
  forall b1 b2, In b1 (flat_map s_blocks m) -> In b2 (flat_map s_blocks m) -> loc_hash b1 = loc_hash b2 -> loc_size b1 = loc_size b2.
Proof. exact consistent_store_sizes. Qed.
Print Assumptions C10_consistent_store_gives_consistent_sizes.

(* WITNESS that extract_preserves is FALSE for valid_manifest alone: a grammar-valid manifest with one hash at two sizes
   (no block store can be consistent with it) makes Extract(".", ".") emit a token past the end of its stream *)
Theorem C10_extract_needs_consistent_sizes :
  valid_manifest inconsistent_example = true /\
  gm_extract inconsistent_example "." "." = Ok (". 37b51d194a7513e45b56f6524f2d51f2+3 0:3:f 0:5:f" ++ s_nl)%string /\
  valid_manifest (". 37b51d194a7513e45b56f6524f2d51f2+3 0:3:f 0:5:f" ++ s_nl)%string = false.
Proof. exact extract_needs_consistent_sizes. Qed.
Print Assumptions C10_extract_needs_consistent_sizes.

(* normalize_preserves, Python SDK (proofs/C10_text_pynorm.v): the tokens returned by normalize_stream(name, files),
   joined by spaces, form a valid stream which the reference parser reads back with the same name, the same file names
   and, file by file, the same canonical segments.  Hypotheses: every LocatorAndRange carries the block size its locator
   states ([PN.pseg_ok], as spec_b demands of locators_and_ranges) and [PN.nt_ok] = the conditions of
   C10_normalize_stream_preserves except that segments may be empty (locators_and_ranges returns zero-length pieces for
   empty blocks inside a range). *)
From AV Require Import proofs.C10_text_pynorm.
Theorem C10_normalize_stream_preserves_python : forall name sf,
  Forall PN.pseg_ok (flat_map snd (py_sorted_files sf)) -> PN.nt_ok name (PN.py_files sf) ->
  exists s', valid_stream (join " " (py_normalize_stream name sf)) = true /\
    parse_stream (join " " (py_normalize_stream name sf)) = Some s' /\ s_name s' = name /\
    (forall b, In b (map ft_name (s_ftoks s')) <-> In b (map fst (py_sorted_files sf))) /\
    (forall f, In f (py_sorted_files sf) ->
       canon_eqb (stream_segs s' (path_of name (fst f))) (map PN.of_pseg (snd f)) = true).
Proof. exact PN.py_normalize_stream_preserves. Qed.
Print Assumptions C10_normalize_stream_preserves_python.

(* ==== the other public entry points of sdk/go/manifest (proofs/C10_gm_entry.v) ==== *)
From AV Require Import proofs.C10_gm_entry.

(* malformed_rejected, Manifest.BlockIterWithDuplicates, for EVERY input string: [gm_blocks txt = Ok (l, e)] = the blocks
   delivered and e = "Manifest.Err != nil after the channel is closed".  If any non-blank line of the text is not
   structurally well-formed - the first, an interior or the last one - the error is reported. *)
Theorem C10_malformed_rejected_gomanifest_blockiter : forall txt l e,
  gm_blocks txt = Ok (l, e) -> forallb wf_line (gm_lines txt) = false -> e = true.
Proof. exact gm_blocks_malformed. Qed.
Print Assumptions C10_malformed_rejected_gomanifest_blockiter.

(* ... the error flag is only ever set: whatever lines follow, an error recorded before them is still reported *)
Theorem C10_blockiter_error_is_sticky : forall ls l e, blocks_lines ls true = Ok (l, e) -> e = true.
Proof. exact blocks_lines_sticky. Qed.
Print Assumptions C10_blockiter_error_is_sticky.

(* ... as the clause of the boolean specification: for EVERY input string the iteration neither panics nor ends in an
   outcome other than (blocks, flag), and what it delivers passes GM.robust_op (no panic; malformed => error) *)
Theorem C10_blockiter_robust : forall txt,
  match gm_blocks txt with
  | Ok (l, e) => GM.robust_op (forallb wf_line (gm_lines txt)) (GM.OpBlocks, GM.ObsBlocks l e) = true
  | Err | Panic => False
  | Unmodelled => True
  end.
Proof. exact gm_blocks_robust. Qed.
Print Assumptions C10_blockiter_robust.

(* codec_agrees, TEXT level, BlockIterWithDuplicates: on every valid manifest no error is reported and the delivered
   blocks pass GM.valid_op = they are exactly the block tokens of the text, in order, with their hash and size *)
Theorem C10_codec_agrees_text_gomanifest_blockiter : forall txt m,
  valid_manifest txt = true -> parse_manifest txt = Some m -> small_manifest m = true ->
  exists l, gm_blocks txt = Ok (l, false) /\ GM.valid_op m (GM.OpBlocks, GM.ObsBlocks l false) = true.
Proof. exact gm_blocks_text_agrees. Qed.
Print Assumptions C10_codec_agrees_text_gomanifest_blockiter.

(* codec_agrees, TEXT level, Manifest.FileSegmentIterByName: on every valid manifest and for every canonical path ("." or
   "./a/b") the delivered segments are, after dropping the zero-length marker segments, the reference denotation of the
   path (all file tokens of all streams with that combined path, in manifest order); this is the clause GM.valid_op *)
Theorem C10_codec_agrees_text_gomanifest_filesegs : forall txt m path,
  valid_manifest txt = true -> parse_manifest txt = Some m -> small_manifest m = true -> valid_stream_name_u path = true ->
  exists l, gm_file_segs txt path = Ok l /\ filter seg_nonempty l = denote m path /\
            GM.valid_op m (GM.OpFileSegs path, GM.ObsSegs l) = true.
Proof. exact gm_file_segs_text_agrees. Qed.
Print Assumptions C10_codec_agrees_text_gomanifest_filesegs.
