(* C10 — property theorems only (work in progress: more are added as proofs close). *)
From Coq Require Import NArith List String Bool.
From AV Require Import lib.Str model.C10_manifest model.C10_ranges model.C10_fs model.C10_gomanifest proofs.C10_witness.
Import ListNotations.
Local Open Scope string_scope.

Theorem C10_no_panic_gomanifest_refuted :
  exists txt, wf_manifest txt = false /\ gm_extract txt "." "." = Panic.
Proof. exists f14_text. exact f14_panics. Qed.
Print Assumptions C10_no_panic_gomanifest_refuted.

Theorem C10_malformed_rejected_fs_refuted :
  exists txt t, wf_manifest txt = false /\ fs_load txt = Some t.
Proof. eexists; eexists. exact f15_accepted. Qed.
Print Assumptions C10_malformed_rejected_fs_refuted.
