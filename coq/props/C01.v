(* C01 — keepstore never serves or accepts a block whose content mismatches its hash.
   Property theorems only; each is closed by `exact` of a lemma from proofs/C01_proofs.v.
   H is an arbitrary digest function: nothing is assumed about MD5.  Model: model/C01_model.v
   (GetBlock, PutBlock, CompareAndTouch, UnixVolume.Get/Compare/WriteBlock, handleGET/handlePUT). *)
From Coq Require Import NArith List String Bool.
From AV Require Import lib.Str model.C01_model model.C01_run proofs.C01_proofs model.C01_pool proofs.C01_pool_proofs.
Import ListNotations.
Local Open Scope N_scope.

(* GET/HEAD succeeds only with a stored copy whose digest is the requested name (length <= BlockSize) *)
Theorem C01_get_sound : forall (H : content -> string) vs h e c,
  get_block H vs h e = GOk c ->
  exists v, In v vs /\ (lookup v h = File c /\ clen c <= BlockSize /\ H c = h).
Proof. exact get_sound. Qed.
Print Assumptions C01_get_sound.

(* an intact copy on any volume wins over corrupt, truncated, extended, substituted, oversize or
   unreadable copies on the other volumes, whatever the volume order *)
Theorem C01_get_complete : forall (H : content -> string) vs h e,
  (exists v c, In v vs /\ (lookup v h = File c /\ clen c <= BlockSize /\ H c = h)) ->
  exists c, get_block H vs h e = GOk c /\ H c = h.
Proof. exact get_complete. Qed.
Print Assumptions C01_get_complete.

(* no intact copy => an error (the incoming error code or 500), never data *)
Theorem C01_get_error_otherwise : forall (H : content -> string) vs h e,
  (forall v c, In v vs -> ~ (lookup v h = File c /\ clen c <= BlockSize /\ H c = h)) ->
  exists e', get_block H vs h e = GErr e' /\ (e' = e \/ e' = 500).
Proof. exact get_error_otherwise. Qed.
Print Assumptions C01_get_error_otherwise.

Theorem C01_get_absent_404 : forall (H : content -> string) vs h,
  (forall v, In v vs -> lookup v h = Absent) -> get_block H vs h 404 = GErr 404.
Proof. exact get_all_absent. Qed.
Print Assumptions C01_get_absent_404.

(* the answer to a successful GET reports the length of the body it carries *)
Theorem C01_get_handler_ok : forall (H : content -> string) s h,
  (exists v c, In v (vols s) /\ (lookup v h = File c /\ clen c <= BlockSize /\ H c = h)) ->
  exists c, handle_get H s h = {| code := 200; body := Some c; clength := Some (clen c) |} /\ H c = h /\
            exists v, In v (vols s) /\ (lookup v h = File c /\ clen c <= BlockSize /\ H c = h).
Proof. exact handle_get_ok. Qed.
Print Assumptions C01_get_handler_ok.

Theorem C01_get_handler_error : forall (H : content -> string) s h,
  (forall v c, In v (vols s) -> ~ (lookup v h = File c /\ clen c <= BlockSize /\ H c = h)) ->
  exists e, handle_get H s h = {| code := e; body := None; clength := None |} /\ (e = 404 \/ e = 500).
Proof. exact handle_get_err. Qed.
Print Assumptions C01_get_handler_error.

(* a PUT is acknowledged only if the body hashes to the name; then a copy equal to the body is stored *)
Theorem C01_put_sound : forall (H : content -> string) s h d r s',
  handle_put H s h d = (r, s') -> code r = 200 ->
  H d = h /\ clen d <= BlockSize /\ exists v, In v (vols s') /\ lookup v h = File d.
Proof. exact handle_put_ok. Qed.
Print Assumptions C01_put_sound.

(* once acknowledged, GET returns an intact copy — whatever (corrupt) copies were on any volume,
   including write failures (full, unwritable directory) on some volumes; if the copy served is not
   the body itself, the two are an explicit digest collision *)
Theorem C01_put_then_get : forall (H : content -> string) s h d r s',
  handle_put H s h d = (r, s') -> code r = 200 ->
  exists c, handle_get H s' h = {| code := 200; body := Some c; clength := Some (clen c) |} /\
            H c = h /\ (c = d \/ (c <> d /\ H c = H d)).
Proof. exact put_then_get. Qed.
Print Assumptions C01_put_then_get.

(* a PUT that is refused (any non-200 status) writes nothing *)
Theorem C01_put_refused_writes_nothing : forall (H : content -> string) s h d r s',
  handle_put H s h d = (r, s') -> code r <> 200 -> vols s' = vols s.
Proof. exact handle_put_fail_unchanged. Qed.
Print Assumptions C01_put_refused_writes_nothing.

(* a stored block with the same digest but different content: 500, nothing written *)
Theorem C01_put_collision : forall (H : content -> string) s h d,
  H d = h -> compare_and_touch H (writable (vols s)) h d = CatCollision -> put_block H s h d = (500, s).
Proof. exact put_collision_stops. Qed.
Print Assumptions C01_put_collision.

Theorem C01_put_collision_witness : forall (H : content -> string) ws h d,
  compare_and_touch H ws h d = CatCollision ->
  exists v c, In v ws /\ lookup v h = File c /\ c <> d /\ H c = h.
Proof. exact cat_collision_witness. Qed.
Print Assumptions C01_put_collision_witness.

(* the boolean oracle that judges the implementation's observations is the Prop-level specification *)
Theorem C01_spec_b_reflects : forall c, spec_b c = true <-> Spec c.
Proof. exact spec_b_iff. Qed.
Print Assumptions C01_spec_b_reflects.

(* the model satisfies the specification on every request sequence, from every volume state *)
Theorem C01_model_meets_spec : forall (H : content -> string) names ops s,
  (forall o, In o ops -> In (op_name o) names) ->
  SpecSteps H (map (listing_of names) (vols s)) ops (map (obs_of names) (run H s ops)).
Proof. exact model_meets_spec. Qed.
Print Assumptions C01_model_meets_spec.

(* ... including its second half (KeepSteps: "once acknowledged an intact copy is retrievable" -- no GET, HEAD
   or PUT, complete, cut short or abandoned by its client, takes an intact copy away): a block name with an
   intact copy somewhere before a request has one after it *)
Theorem C01_model_keeps_intact_copies : forall (H : content -> string) names ops s,
  KeepSteps H names (map (listing_of names) (vols s)) (map (obs_of names) (run H s ops)).
Proof. exact model_keeps. Qed.
Print Assumptions C01_model_keeps_intact_copies.

(* hypotheses are satisfiable: corrupt copy on a read-only first volume, intact copy on the second *)
Theorem C01_example_get : handle_get ex_H {| vols := ex_vols; counter := 0 |} "aaa1"%string =
  {| code := 200; body := Some {| cid := 1; clen := 4 |}; clength := Some 4 |}.
Proof. exact ex_get_passes_over_corrupt. Qed.
Print Assumptions C01_example_get.

Theorem C01_example_put :
  code (fst (handle_put ex_H {| vols := ex_vols; counter := 0 |} "bbb2"%string {| cid := 2; clen := 7 |})) = 200.
Proof. exact ex_put_acknowledged. Qed.
Print Assumptions C01_example_put.

(* ---- overlapping requests and the shared buffer pool (model/C01_pool.v) ----
   Any number of GET/HEAD/PUT requests in flight on one router, interleaved arbitrarily between the
   points where a handler can be held up (waiting for a buffer, before its volume work, while the body
   is uploaded, while the response body is written to a slow client, before the buffer goes back), and
   any other user of the pool overwriting buffers that are IN the pool.  From every initial state
   (any volumes, any set of distinct buffers holding anything, any list of requests) and after ANY
   sequence of scheduler/environment steps:
   (a) the volume steps, in the order in which they happened, are a run of the sequential model [run]
       (the one the correspondence check evaluates), and the volume state is the state after that run;
   (b) every finished request got exactly the answer of the sequential handler at its volume step. *)
Theorem C01_overlapping_requests_linearizable : forall (H : content -> string) k bufs m reqs ls s,
  NoDup bufs ->
  steps H (init_pool k bufs m reqs false) ls = Some s ->
  map fst (run H k (lin_ops s)) = lin_resps s /\
  ks s = run_state H k (lin_ops s) /\
  (forall i o r, nth_error (thr s) i = Some (o, Fin r) -> In (i, o, r) (lin s)) /\
  (forall i o r, In (i, o, r) (lin s) -> nth_error reqs i = Some o).
Proof. exact pool_linearizable. Qed.
Print Assumptions C01_overlapping_requests_linearizable.

(* hence, under any overlap, GET/HEAD succeeds only with a body whose digest is the requested name and
   whose length is the reported one ... *)
Theorem C01_overlapping_get_sound : forall (H : content -> string) k bufs m reqs ls s i h r,
  NoDup bufs ->
  steps H (init_pool k bufs m reqs false) ls = Some s ->
  (nth_error (thr s) i = Some (Get h, Fin r) \/ nth_error (thr s) i = Some (Head h, Fin r)) ->
  code r = 200 ->
  exists c, body r = Some c /\ H c = h /\ clength r = Some (clen c) /\ clen c <= BlockSize.
Proof. exact pool_get_sound. Qed.
Print Assumptions C01_overlapping_get_sound.

(* ... and an acknowledged PUT was judged on the body its own client sent *)
Theorem C01_overlapping_put_sound : forall (H : content -> string) k bufs m reqs ls s i h d r,
  NoDup bufs ->
  steps H (init_pool k bufs m reqs false) ls = Some s ->
  nth_error (thr s) i = Some (Put h d, Fin r) ->
  code r = 200 -> H d = h /\ clen d <= BlockSize.
Proof. exact pool_put_sound. Qed.
Print Assumptions C01_overlapping_put_sound.

(* regression witness about the VARIANT only (early = true: handleGET gives its buffer back as soon as
   GetBlock has returned, before the body is written): GET "aaa1" answers 200 with the bytes of "bbb2" *)
Theorem C01_variant_early_release_refuted :
  exists s r c,
    steps ex_pool_H (init_pool {| vols := ex_pool_vols; counter := 0 |} [0%nat; 1%nat] (fun _ => {| cid := 9; clen := 0 |})
                               [Get "aaa1"%string; Get "bbb2"%string] true) ex_pool_sched = Some s /\
    nth_error (thr s) 0 = Some (Get "aaa1"%string, Fin r) /\ code r = 200 /\ body r = Some c /\ ex_pool_H c <> "aaa1"%string.
Proof. exact pool_early_release_refuted. Qed.
Print Assumptions C01_variant_early_release_refuted.

(* ---- uploads that do not arrive completely (op PutShort: Content-Length n, the body stops or fails
   after the bytes d); [sp] is any representation of the mixture such a read leaves in the buffer ---- *)

(* the linearization theorem holds for every such representation *)
Theorem C01_overlapping_requests_linearizable_any_splice : forall (H : content -> string) k bufs m reqs sp ls s,
  NoDup bufs ->
  steps H (init_pool_gen k bufs m reqs false false false sp) ls = Some s ->
  map fst (run H k (lin_ops s)) = lin_resps s /\
  ks s = run_state H k (lin_ops s) /\
  (forall i o r, nth_error (thr s) i = Some (o, Fin r) -> In (i, o, r) (lin s)) /\
  (forall i o r, In (i, o, r) (lin s) -> nth_error reqs i = Some o).
Proof. exact pool_linearizable_any_splice. Qed.
Print Assumptions C01_overlapping_requests_linearizable_any_splice.

(* a buffer is handed to at most one request at a time: in every reachable state the pool holds no buffer
   twice, a buffer held by a request is not in the pool, and no two requests hold the same buffer --
   whatever is in flight, failed uploads included *)
Theorem C01_pool_buffer_exclusive : forall (H : content -> string) k bufs m reqs sp ls s,
  NoDup bufs ->
  steps H (init_pool_gen k bufs m reqs false false false sp) ls = Some s ->
  NoDup (free s) /\
  (forall i o p b, nth_error (thr s) i = Some (o, p) -> holds p = Some b -> ~ In b (free s)) /\
  (forall i j o p o' p' b, i <> j -> nth_error (thr s) i = Some (o, p) -> nth_error (thr s) j = Some (o', p') ->
                           holds p = Some b -> holds p' = Some b -> False).
Proof. exact pool_buffer_exclusive. Qed.
Print Assumptions C01_pool_buffer_exclusive.

(* a PUT whose body does not arrive completely is never acknowledged, whatever its buffer held before
   (e.g. the same block, left by the previous request) and whatever else is in flight *)
Theorem C01_short_put_never_acknowledged : forall (H : content -> string) k bufs m reqs sp ls s i h d n r,
  NoDup bufs ->
  steps H (init_pool_gen k bufs m reqs false false false sp) ls = Some s ->
  nth_error (thr s) i = Some (PutShort h d n, Fin r) ->
  code r = 413 \/ code r = 503 \/ code r = 500.
Proof. exact pool_short_put_never_acked. Qed.
Print Assumptions C01_short_put_never_acknowledged.

(* regression witness about the VARIANT lenient only (handlePUT goes on to PutBlock after a short read): the
   request after a complete PUT of "aaa1" gets the same buffer, its body stops after 2 of 4 bytes (which
   hash to something else), the stale tail completes the block, and the PUT is acknowledged *)
Theorem C01_variant_lenient_short_read_refuted :
  exists s r,
    steps ex_pool_H (init_pool_gen {| vols := ex_pool_vols; counter := 0 |} [0%nat] (fun _ => {| cid := 9; clen := 0 |})
                       [Put "aaa1"%string {| cid := 1; clen := 4 |}; PutShort "aaa1"%string {| cid := 7; clen := 2 |} 4]
                       false true false (fun _ old _ => old)) ex_short_sched = Some s /\
    nth_error (thr s) 1 = Some (PutShort "aaa1"%string {| cid := 7; clen := 2 |} 4, Fin r) /\ code r = 200 /\
    ex_pool_H {| cid := 7; clen := 2 |} <> "aaa1"%string.
Proof. exact pool_lenient_short_read_refuted. Qed.
Print Assumptions C01_variant_lenient_short_read_refuted.

(* regression witness about the VARIANT twice only (a failed upload gives its buffer back twice): the pool
   then hands buffer 0 to two requests at once, and GET "aaa1" answers 200 with the bytes a PUT of "bbb2"
   uploaded meanwhile *)
Theorem C01_variant_double_release_refuted :
  exists s r c p2,
    steps ex_pool_H (init_pool_gen {| vols := ex_pool_vols; counter := 0 |} [0%nat; 1%nat] (fun _ => {| cid := 9; clen := 0 |})
                       [PutShort "aaa1"%string {| cid := 7; clen := 2 |} 4; Get "aaa1"%string; Put "bbb2"%string {| cid := 2; clen := 4 |}]
                       false false true (fun d _ _ => d)) ex_twice_sched = Some s /\
    nth_error (thr s) 1 = Some (Get "aaa1"%string, Fin r) /\ code r = 200 /\ body r = Some c /\ ex_pool_H c <> "aaa1"%string /\
    nth_error (thr s) 2 = Some (Put "bbb2"%string {| cid := 2; clen := 4 |}, p2) /\ holds p2 = Some 0%nat /\ In 0%nat (free s).
Proof. exact pool_double_release_refuted. Qed.
Print Assumptions C01_variant_double_release_refuted.
