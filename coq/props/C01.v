(* C01 — property theorems only. *)
From Coq Require Import NArith List String Bool.
From AV Require Import lib.Str model.C01_model proofs.C01_proofs.
Import ListNotations.
Local Open Scope N_scope.

Theorem C01_put_sound : forall (H : content -> string) s h d s',
  put_block H s h d = (200, s') -> H d = h.
Proof. exact put_block_ok_hash. Qed.
Print Assumptions C01_put_sound.
