(* C09 — saved manifests reproduce the tree and reference only blocks that were stored.
   Property theorems only.  What is proved here is about the model's state and segments; that the
   manifest *text* of every save loads back to exactly the live tree is judged on every observed
   save by the boolean specification (loader model + listing comparison), see DESIGN.md. *)
From Coq Require Import List Arith Bool String.
From AV Require Import model.CFS_file model.CFS_tree model.CFS_inst model.C08_run model.CFS_bg model.CFS_run
  proofs.CFS_file_proofs proofs.CFS_refine proofs.CFS_prov proofs.CFS_tree_proofs proofs.CFS_bg_proofs proofs.CFS_hist_proofs
  proofs.CFS_escape_proofs.
Import ListNotations.

(* After ANY history (writes, truncates, flushes, saves that succeed or fail, background completions),
   every stored segment of every file denotes a slice of a block that is in the model's block store
   - i.e. that came with the initial state or was the data of a successful Keep write - with exactly
   the bytes the segment claims and the recorded block size; and every flushing token still refers
   to data that is a prefix-slice of what the pending write carries. *)
Theorem C09_stored_segments_accounted : forall mb, 1 <= mb -> forall tab es,
  BInv mb (bfinal mb tab (binit mb tab (fs_init (Conc mb))) es).
Proof.
  intros mb Hmb tab es. apply (bg_history_invariant mb Hmb tab es). apply (BInv_init mb Hmb).
Qed.
Print Assumptions C09_stored_segments_accounted.

(* what that invariant says about one stored segment (so the statement above is not opaque) *)
Theorem C09_stored_segment_meaning : forall mb st, BInv mb st ->
  forall id b loc bsz boff, In (Sto b loc bsz boff) (file_segs mb (fsys mb st) id) ->
  exists blk, nth_error (blocks mb st) loc = Some blk /\ List.length blk = bsz /\
              b = firstn (List.length b) (skipn boff blk).
Proof. intros mb st (_ & _ & _ & HS) id b loc bsz boff Hin. exact (HS id b loc bsz boff Hin). Qed.
Print Assumptions C09_stored_segment_meaning.

(* A save - successful or failed - leaves every file's content and the tree untouched, and the state
   good, so buffered data stays intact and readable and a later save can be attempted. *)
Theorem C09_save_keeps_data : forall mb, 1 <= mb -> forall tab st, BInv mb st ->
  quiet mb st (fst (b_marshal mb tab st)).
Proof. exact b_marshal_quiet. Qed.
Print Assumptions C09_save_keeps_data.

(* turning buffered segments into stored ones (one synchronous block write) never changes content *)
Theorem C09_commit_keeps_data : forall mb, 1 <= mb -> forall st refs, BInv mb st ->
  let '(st', _) := commit_sync mb st refs in abs mb (fsys mb st') = abs mb (fsys mb st) /\ BInv mb st'.
Proof. exact commit_sync_ok. Qed.
Print Assumptions C09_commit_keeps_data.

(* names: manifestUnescape inverts manifestEscape for every byte string *)
Theorem C09_escape_roundtrip : forall s, manifest_unescape (manifest_escape s) = s.
Proof. exact unescape_escape. Qed.
Print Assumptions C09_escape_roundtrip.

(* ---- collections loaded from a manifest ---- *)
From AV Require Import proofs.CFS_load_proofs.
From Coq Require Import Ascii.

(* Whatever manifest text the loader accepts, the filesystem it builds is a good state all of whose
   segments are stored segments denoting slices of blocks of the table (the table's locators are
   assumed to state the true block sizes - it is what Keep handed out). *)
Theorem C09_loaded_state_good : forall mb, 1 <= mb -> forall tab,
  (forall d l n rest h, In (d, l) tab -> splitn3 "+"%char l = h :: n :: rest ->
     forall k, parse_dec n = Some k -> k = List.length d) ->
  forall txt s, b_load mb tab txt = Ok s -> Good mb s /\ BInv mb (binit mb tab s).
Proof. intros mb Hmb tab Htab txt s. exact (b_load_good mb Hmb (map fst tab) tab eq_refl Htab txt s). Qed.
Print Assumptions C09_loaded_state_good.

(* hence every history that starts from a loaded manifest behaves like the plain filesystem started
   from the loaded tree, and keeps all stored segments accounted for *)
Theorem C09_history_from_loaded : forall mb, 1 <= mb -> forall tab,
  (forall d l n rest h, In (d, l) tab -> splitn3 "+"%char l = h :: n :: rest ->
     forall k, parse_dec n = Some k -> k = List.length d) ->
  forall txt s es, b_load mb tab txt = Ok s ->
  bouts mb tab (binit mb tab s) es = run Spec (abs mb s) (fg_ops es) /\
  BInv mb (bfinal mb tab (binit mb tab s) es).
Proof.
  intros mb Hmb tab Htab txt s es Hl.
  destruct (b_load_good mb Hmb (map fst tab) tab eq_refl Htab txt s Hl) as [_ HB].
  split; [exact (bg_history_refines mb Hmb tab es _ HB)|exact (bg_history_invariant mb Hmb tab es _ HB)].
Qed.
Print Assumptions C09_history_from_loaded.

(* ---- the saved text itself ---- *)
From AV Require Import model.CFS_tload proofs.CFS_rt_defs proofs.CFS_line_proofs proofs.CFS_ents_inv proofs.CFS_tree_rt proofs.CFS_roundtrip proofs.CFS_flush_proofs proofs.CFS_depth_inv.

(* Whenever MarshalManifest returns a text, loading that text (the loader of model/CFS_tload.v, which
   every run compares with the inode-table loader and through it with Go's loadManifest) yields a tree
   whose listing - every path, every directory, every file with its exact bytes - equals the listing
   of the plain byte-array filesystem the collection denotes.  Proved for every good state; the two
   computable side conditions are what the theorem needs of the environment and of the recursion
   bound, and each of them is evaluated on every save of every case (CFS_run.rt_ready, tab_ok_b):
     tab_ok_b  locators are separator-free tokens stating their block's size, and equal locators name
               equal blocks (no hash collision among the blocks of the case);
     in_tab_b  every block in the store has a locator in the table;
   That the directory graph below the root is a tree no deeper than the inode table is long (the
   bound of the model's recursions) is an invariant of every history (TreeInv, proofs/CFS_depth_inv.v:
   parent pointers agree with entries, no shared children), and that the save's synchronous flush has left no buffered segment in any reachable file - without
   which the text would silently omit data - is proved (C09_successful_save_leaves_nothing_buffered). *)
Theorem C09_saved_manifest_loads_back : forall mb, 1 <= mb -> forall tab st st1 txt,
  BInv mb st -> EntsOK (Conc mb) (fsys mb st) -> TreeInv (Conc mb) (fsys mb st) ->
  b_marshal mb tab st = (st1, Ok txt) ->
  tab_ok_b tab = true -> in_tab_b tab (blocks mb st1) = true ->
  exists t, t_load tab txt = Some t /\
            listing_T "." t = tree_listing Spec (fun b => b) (abs mb (fsys mb st)).
Proof.
  intros mb Hmb tab st st1 txt HB HE HT Em Ht Hi.
  exact (b_marshal_round_trip mb Hmb tab st st1 txt (tab_ok_b_spec tab Ht) HB HE Em (in_tab_b_spec tab _ Hi)
           (b_marshal_ready mb Hmb tab st st1 txt HB Em (treeinv_deep_ok mb _ HT))).
Qed.
Print Assumptions C09_saved_manifest_loads_back.

(* A save that returns a text has left no buffered (memSegment) data in any file reachable from the
   root: every segment the text could mention is a stored one, so the text omits nothing. *)
Theorem C09_successful_save_leaves_nothing_buffered : forall mb, 1 <= mb -> forall tab st st1 txt,
  BInv mb st -> b_marshal mb tab st = (st1, Ok txt) ->
  stored_under mb (List.length (inodes (Conc mb) (fsys mb st))) (fsys mb st1) root_id.
Proof. intros mb Hmb tab st st1 txt HB E. exact (b_marshal_stored mb Hmb tab st st1 txt HB E). Qed.
Print Assumptions C09_successful_save_leaves_nothing_buffered.

(* ... in particular after ANY history from the empty collection (BInv and sorted, valid entry names
   are invariants of every history: C09_stored_segments_accounted, bg_history_EntsOK) *)
Theorem C09_every_save_round_trips : forall mb, 1 <= mb -> forall tab es st1 txt,
  let st := bfinal mb tab (binit mb tab (fs_init (Conc mb))) es in
  b_marshal mb tab st = (st1, Ok txt) ->
  tab_ok_b tab = true -> in_tab_b tab (blocks mb st1) = true ->
  exists t, t_load tab txt = Some t /\
            listing_T "." t = tree_listing Spec (fun b => b) (abs mb (fsys mb st)).
Proof.
  intros mb Hmb tab es st1 txt st Em Ht Hi.
  apply (C09_saved_manifest_loads_back mb Hmb tab st st1 txt); try assumption.
  - apply (C09_stored_segments_accounted mb Hmb tab es).
  - apply (bg_history_EntsOK mb Hmb tab _ es). apply EntsOK_init.
  - apply (bg_history_TreeInv mb Hmb tab _ es). apply TreeInv_init.
Qed.
Print Assumptions C09_every_save_round_trips.

(* ... and after any history that starts from a loaded manifest *)
Theorem C09_every_save_round_trips_from_loaded : forall mb, 1 <= mb -> forall tab,
  (forall d l n rest h, In (d, l) tab -> splitn3 "+"%char l = h :: n :: rest ->
     forall k, parse_dec n = Some k -> k = List.length d) ->
  forall txt0 s0 es st1 txt, b_load mb tab txt0 = Ok s0 ->
  let st := bfinal mb tab (binit mb tab s0) es in
  b_marshal mb tab st = (st1, Ok txt) ->
  tab_ok_b tab = true -> in_tab_b tab (blocks mb st1) = true ->
  exists t, t_load tab txt = Some t /\
            listing_T "." t = tree_listing Spec (fun b => b) (abs mb (fsys mb st)).
Proof.
  intros mb Hmb tab Htab txt0 s0 es st1 txt Hl st Em Ht Hi.
  apply (C09_saved_manifest_loads_back mb Hmb tab st st1 txt); try assumption.
  - apply (C09_history_from_loaded mb Hmb tab Htab txt0 s0 es Hl).
  - apply (bg_history_EntsOK mb Hmb tab s0 es). exact (b_load_EntsOK mb tab txt0 s0 Hl).
  - apply (bg_history_TreeInv mb Hmb tab s0 es). exact (b_load_TreeInv mb tab txt0 s0 Hl).
Qed.
Print Assumptions C09_every_save_round_trips_from_loaded.

Local Open Scope string_scope.
Local Open Scope list_scope.
Import ListNotations.
(* the conditions are satisfiable: a collection with a nested directory, two files and an empty
   directory, written through handles and then saved *)
Example C09_round_trip_conditions_met :
  let mb := 8 in
  let fl := {| o_acc := 2; o_create := true; o_excl := false; o_trunc := false; o_append := false; o_sync := false |} in
  let tab := [([1; 2; 3], "aaaa+3"); ([4; 5], "bbbb+2")] in
  let es := [EOp (OMkdir "d") VUnit; EOp (OMkdir "e") VUnit; EOp (OOpen "d/f" fl) (VNat 0); EOp (OWrite 0 [1; 2; 3]) (VNat 3);
             EOp (OOpen "g" fl) (VNat 1); EOp (OWrite 1 [4; 5]) (VNat 2)] in
  let st := bfinal mb tab (binit mb tab (fs_init (Conc mb))) es in
  exists st1 txt, b_marshal mb tab st = (st1, Ok txt) /\ tab_ok_b tab = true /\ in_tab_b tab (blocks mb st1) = true /\
    t_load tab txt = Some (TD [("d", TD [("f", TF [1; 2; 3])]); ("e", TD []); ("g", TF [4; 5])]).
Proof. cbv zeta. eexists. eexists. split; [vm_compute; reflexivity|]. repeat split; vm_compute; reflexivity. Qed.
