(* C09 — placeholder until the proofs land (the file must contain at least one theorem). *)
From AV Require Import model.CFS_file proofs.CFS_file_proofs proofs.CFS_refine.
Theorem C09_file_write_refines : forall mb, 1 <= mb -> forall fn p0 data,
  WF fn -> hok fn p0 ->
  let '(fn', p') := fn_write mb fn p0 data in
  (content fn', off p') = AV.model.CFS_inst.s_write (content fn) (off p0) data /\ WF fn' /\ hok fn' p' /\
  (forall q, hok fn q -> hok fn' q).
Proof. exact write_hok. Qed.
Print Assumptions C09_file_write_refines.
