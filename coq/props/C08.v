(* C08 — property theorems (placeholder list grows as proofs land). *)
From Coq Require Import List Arith.
From AV Require Import model.CFS_file proofs.CFS_file_proofs.
Import ListNotations.

(* a write through any handle stores exactly the bytes a byte array would hold afterwards, keeps the
   node well formed and keeps every other handle's position usable *)
Theorem C08_file_write_refines : forall mb, 1 <= mb -> forall fn p0 data,
  WF fn -> handle_ok fn p0 ->
  let '(fn', p') := fn_write mb fn p0 data in
  content fn' = overwrite (content fn ++ repeat 0 (off p0 - size fn)) (off p0) data /\
  WF fn' /\ valid fn' p' /\ off p' = off p0 + length data /\ rep p' = Some (repacked fn') /\
  (forall q, handle_ok fn q -> handle_ok fn' q).
Proof. exact fn_write_ok. Qed.
Print Assumptions C08_file_write_refines.
