(* C08 — a collection filesystem behaves like an ordinary in-memory filesystem.
   Property theorems only; each is closed by `exact` of a lemma from proofs/. *)
From Coq Require Import List Arith Bool.
From AV Require Import model.CFS_file model.CFS_tree model.CFS_inst model.C08_run
  proofs.CFS_file_proofs proofs.CFS_refine proofs.CFS_tree_proofs.
Import ListNotations.

(* The whole property: for every block size limit >= 1 and EVERY operation sequence (open with any
   flags, read, write, append, seek, truncate, stat, readdir, mkdir, rename, remove, through any
   number of handles), the observations of the implementation model (directory tree over
   segment-list files, with the Go code's pointer caching and segment surgery) are exactly the
   observations of the plain filesystem whose files are byte arrays: same bytes, same sizes and
   listings, same error class at the same operations. *)
Theorem C08_history_refines : forall mb, 1 <= mb -> forall ops,
  run (Conc mb) (fs_init (Conc mb)) ops = run Spec (fs_init Spec) ops.
Proof. exact history_refines. Qed.
Print Assumptions C08_history_refines.

(* ... and it holds from every reachable state, not only from the empty collection: one step of the
   implementation model is one step of the specification on the abstracted state, and the
   invariant (files well formed, handle positions usable, ids inside the table) is kept. *)
Theorem C08_step_refines : forall mb, 1 <= mb -> forall s o, Good mb s ->
  let '(s', v) := step (Conc mb) s o in
  step Spec (abs mb s) o = (abs mb s', v) /\ Good mb s'.
Proof. exact step_sim. Qed.
Print Assumptions C08_step_refines.

(* File level, the core of it: a write through any handle stores exactly what a byte array would
   hold (zero-filling a gap after end of file), keeps the node well formed and keeps every other
   handle's position usable, however the data straddles segment and block boundaries. *)
Theorem C08_file_write_refines : forall mb, 1 <= mb -> forall fn p0 data,
  WF fn -> hok fn p0 ->
  let '(fn', p') := fn_write mb fn p0 data in
  (content fn', off p') = s_write (content fn) (off p0) data /\ WF fn' /\ hok fn' p' /\
  (forall q, hok fn q -> hok fn' q).
Proof. exact write_hok. Qed.
Print Assumptions C08_file_write_refines.

(* a read (through the caller's loop) returns exactly the requested slice of the byte array, and
   reports EOF exactly when fewer bytes than requested remain *)
Theorem C08_file_read_refines : forall fn n p, WF fn -> hok fn p ->
  let '(d, p', eof) := fn_read_full fn n p in
  (d, off p', eof) = s_read (content fn) n (off p) /\ hok fn p'.
Proof. exact read_full_ok. Qed.
Print Assumptions C08_file_read_refines.

Theorem C08_file_truncate_refines : forall mb, 1 <= mb -> forall fn want, WF fn ->
  content (fn_truncate mb fn want) = s_trunc (content fn) want /\ WF (fn_truncate mb fn want) /\
  (forall q, hok fn q -> hok (fn_truncate mb fn want) q).
Proof. exact trunc_hok. Qed.
Print Assumptions C08_file_truncate_refines.

(* the premises are satisfiable: the empty collection is a good state *)
Theorem C08_init_good : forall mb, 1 <= mb -> Good mb (fs_init (Conc mb)).
Proof. exact Good_init. Qed.
Print Assumptions C08_init_good.

(* ... and the premises are also met by every collection loaded from a manifest (the table's
   locators are assumed to state the true block sizes), so C08_step_refines applies to it *)
From Coq Require Import Ascii String.
From AV Require Import model.CFS_bg model.CFS_run proofs.CFS_load_proofs.
Theorem C08_loaded_good : forall mb, 1 <= mb -> forall tab,
  (forall d l n rest h, In (d, l) tab -> splitn3 "+"%char l = h :: n :: rest ->
     forall k, parse_dec n = Some k -> k = List.length d) ->
  forall txt s, b_load mb tab txt = Ok s -> Good mb s.
Proof. intros mb Hmb tab Htab txt s Hl. exact (proj1 (b_load_good mb Hmb (map fst tab) tab eq_refl Htab txt s Hl)). Qed.
Print Assumptions C08_loaded_good.

(* ---- the specification itself is the filesystem one expects (sanity of the Spec instance) ---- *)
From AV Require Import proofs.CFS_spec_sanity.
Theorem C08_spec_write_then_read : forall (f : list CFS_file.byte) p d,
  let '(f', _) := s_write f p d in let '(r, _, _) := s_read f' (List.length d) p in r = d.
Proof. exact spec_write_then_read. Qed.
Print Assumptions C08_spec_write_then_read.

Theorem C08_spec_write_frame : forall (f : list CFS_file.byte) p d,
  let '(f', _) := s_write f p d in
  firstn p f' = firstn p (f ++ zeros (p - List.length f)) /\
  skipn (p + List.length d) f' = skipn (p + List.length d) (f ++ zeros (p - List.length f)).
Proof. exact spec_write_frame. Qed.
Print Assumptions C08_spec_write_frame.

(* failing directory operations change nothing *)
Theorem C08_spec_rename_error_unchanged : forall s a b e,
  snd (rename Spec s a b) = Err e -> fst (rename Spec s a b) = s.
Proof. exact spec_rename_error_unchanged. Qed.
Print Assumptions C08_spec_rename_error_unchanged.

Theorem C08_spec_remove_error_unchanged : forall s name e,
  snd (remove Spec s name) = Err e -> fst (remove Spec s name) = s.
Proof. exact spec_remove_error_unchanged. Qed.
Print Assumptions C08_spec_remove_error_unchanged.
