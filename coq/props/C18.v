(* C18: federated collection fetches are verified and only signatures are rewritten.
   Property theorems only; each is closed by `exact` of a lemma from lib/ManifestTok.v or proofs/C18_*.v.

   Vocabulary (model/C18_model.v, lib/ManifestTok.v):
     pdh m                      arvados.PortableDataHash(m);  pdh_text m = the text it hashes
     accept req m               the check in Conn.CollectionGet: pdh m = req, or req = pdh m ++ "+" ++ hints
     rewrite_manifest m r       rewriteManifest(m, r)
     collection_get_pdh req fwd local arrivals
                                Conn.CollectionGet by hash: answer of the local backend, then the answers of
                                the remotes in the order in which they complete (an arbitrary list)
     parse / render / wf_stream the manifest grammar: parse m = Some ss means m is a valid manifest with
                                streams ss (name, locators hash+size+hints, file tokens); render is its inverse
     rw_stream r                the stream with every hint that begins with the letter A turned into R<r>-...
     legacy_rewrite             fed_collections.go rewriteSignatures
   Legacy request path seen from the client (model/C18_fan_model.v, model/C18_fan_run.v):
     hanswer                    what a cluster answers: HResp code body (ANY status code; body = collection record
                                BCol pdh manifest, error document, or not JSON), HFail (transport error), HHang
     fres                       what the client of the controller gets: FRes code (Some manifest | None)
     fan_get req local arrivals fetchRemoteCollectionByPDH: answer of the local cluster, then the answers of the
                                remotes in the order in which they complete;  fan_try = one per-remote goroutine
     fan_uuid known r a         fetchRemoteCollectionByUUID for a uuid of cluster r
     legacy_stream              locators plain or signed in the shape SignedLocatorRe accepts, no CR *)
From Coq Require Import NArith List Ascii String Bool Permutation.
From AV Require Import model.C18_fan_model model.C18_fan_run proofs.C18_fan_proofs.
From AV Require Import lib.Str lib.Md5 lib.TokSplit lib.ManifestTok model.C18_model model.C18_run
  proofs.C18_scan proofs.C18_get proofs.C18_legacy proofs.C18_spec.
Import ListNotations.
Local Open Scope string_scope.

(* the grammar: what parse accepts is well-formed and renders back to the same text *)
Theorem C18_parse_sound : forall m ss, parse m = Some ss -> forallb wf_stream ss = true /\ render ss = m.
Proof. exact parse_sound. Qed.
Print Assumptions C18_parse_sound.

(* accepted_matches_pdh: whatever CollectionGet hands out is an answer whose manifest really hashes to the
   requested value, unchanged if it came from the local cluster and rewritten for cluster r otherwise *)
Theorem C18_accepted_matches_pdh : forall req fwd local arrivals m',
  collection_get_pdh req fwd local arrivals = ROk m' ->
  exists r m, In (r, ACol m) (("", local) :: arrivals) /\ accept req m = true /\
              m' = (if r =? "" then m else rewrite_manifest m r).
Proof. exact accepted_matches_pdh. Qed.
Print Assumptions C18_accepted_matches_pdh.

(* ... and for a valid manifest the relayed text itself still hashes to the requested value *)
Theorem C18_relayed_still_matches : forall req r m,
  valid_manifest m = true -> all_chars is_hintchar r = true ->
  accept req m = true -> accept req (if r =? "" then m else rewrite_manifest m r) = true.
Proof. exact relayed_still_matches. Qed.
Print Assumptions C18_relayed_still_matches.

(* bad_remote_never_wins: if no answer verifies, the call fails, whatever the arrival order *)
Theorem C18_bad_remote_never_wins : forall req fwd local arrivals,
  (forall r m, In (r, ACol m) (("", local) :: arrivals) -> accept req m = false) ->
  exists c, collection_get_pdh req fwd local arrivals = RErr c.
Proof. exact bad_remote_never_wins. Qed.
Print Assumptions C18_bad_remote_never_wins.

(* honest_remote_wins: local 404, request not forwarded, some remote answers with a verifying manifest:
   the call succeeds in every arrival order, whatever the other remotes answer (by the first theorem the
   winner is a verifying answer) *)
Theorem C18_honest_remote_wins : forall req arrivals r m,
  In (r, ACol m) arrivals -> accept req m = true ->
  forall arrivals', Permutation arrivals arrivals' ->
  exists m', collection_get_pdh req "" (AErr 404) arrivals' = ROk m'.
Proof. exact honest_remote_wins. Qed.
Print Assumptions C18_honest_remote_wins.

(* error_classes: local 404 and no remote verifies: 404 if every remote said 404, otherwise 502 *)
Theorem C18_error_classes : forall req arrivals,
  (forall r m, In (r, ACol m) arrivals -> accept req m = false) ->
  collection_get_pdh req "" (AErr 404) arrivals =
  RErr (if forallb (fun ra => match snd ra with AErr c => N.eqb c 404 | _ => false end) arrivals then 404 else 502)%N.
Proof. exact error_classes. Qed.
Print Assumptions C18_error_classes.

(* the local answer comes first: a verifying local answer is returned as it is and no remote is asked;
   a local failure other than 404, or any local failure of a forwarded request, is final *)
Theorem C18_local_first : forall req fwd m arrivals, accept req m = true ->
  collection_get_pdh req fwd (ACol m) arrivals = ROk m /\ remotes_asked fwd (judge req (ACol m)) = false.
Proof. exact local_first. Qed.
Print Assumptions C18_local_first.
Theorem C18_local_error_is_final : forall req fwd local arrivals c,
  try1 "" (judge req local) = RErr c -> c <> 404%N \/ fwd <> "" ->
  collection_get_pdh req fwd local arrivals = RErr c /\ remotes_asked fwd (judge req local) = false.
Proof. exact local_error_is_final. Qed.
Print Assumptions C18_local_error_is_final.

(* rewrite_only_signatures: for every valid manifest, rewriteManifest yields the same streams in the same
   order with the same names, file tokens, block hashes and sizes; only hints are mapped by rw_hint ... *)
Theorem C18_rewrite_only_signatures : forall m r, valid_manifest m = true ->
  exists ss, parse m = Some ss /\ forallb wf_stream ss = true /\ render ss = m /\
             rewrite_manifest m r = render (map (rw_stream r) ss).
Proof. exact rewrite_only_signatures. Qed.
Print Assumptions C18_rewrite_only_signatures.
Theorem C18_rw_stream_only_hints : forall r s,
  s_name (rw_stream r s) = s_name s /\ s_files (rw_stream r s) = s_files s /\
  map l_hash (s_locs (rw_stream r s)) = map l_hash (s_locs s) /\
  map l_size (s_locs (rw_stream r s)) = map l_size (s_locs s) /\
  map l_hints (s_locs (rw_stream r s)) = map (fun l => map (rw_hint r) (l_hints l)) (s_locs s).
Proof. exact rw_stream_only_hints. Qed.
Print Assumptions C18_rw_stream_only_hints.
(* ... and rw_hint turns A<signature>@<expiry> into R<cluster>-<signature>@<expiry> and leaves every hint
   that does not begin with A alone *)
Theorem C18_rw_hint_spec : forall r,
  (forall t, rw_hint r (String "A" t) = "R" ++ r ++ "-" ++ t) /\
  (forall h, (forall t, h <> String "A" t) -> rw_hint r h = h).
Proof. exact rw_hint_spec. Qed.
Print Assumptions C18_rw_hint_spec.

(* what PortableDataHash hashes of a valid manifest is the manifest without any hints, so rewriting does not
   change the portable data hash *)
Theorem C18_pdh_text_valid : forall ss, forallb wf_stream ss = true -> pdh_text (render ss) = render (map strip_stream ss).
Proof. exact pdh_text_valid. Qed.
Print Assumptions C18_pdh_text_valid.
Theorem C18_pdh_rewrite_valid : forall m r ss, parse m = Some ss -> all_chars is_hintchar r = true ->
  pdh (rewrite_manifest m r) = pdh m.
Proof. exact pdh_rewrite_valid. Qed.
Print Assumptions C18_pdh_rewrite_valid.

(* legacy_rewrite_agrees: on a valid manifest whose locators are plain or signed in the shape SignedLocatorRe
   accepts (B-Z hints, one +A<40 hex>@<8 hex>, B-Z hints) and that contains no CR, the legacy path verifies
   the same hash and produces the same text as the new path *)
Theorem C18_legacy_rewrite_agrees : forall cluster expect ss,
  forallb wf_stream ss = true -> forallb legacy_stream ss = true ->
  expect = "" \/ expect = pdh (render ss) ->
  legacy_rewrite cluster expect (pdh (render ss)) (render ss) = LOk (rewrite_manifest (render ss) cluster).
Proof. exact legacy_rewrite_agrees. Qed.
Print Assumptions C18_legacy_rewrite_agrees.

(* the hypotheses above can be met: the signed example of the format documentation *)
Theorem C18_hypotheses_satisfiable :
  let m := ". 930625b054ce894ac40596c3f5a0d947+33+A1f27a35dd9af37191d63ad8eb8985624451e7b79@5835c8bc 0:0:a 0:0:b 0:33:output.txt" ++ String nl "" in
  valid_manifest m = true /\
  (exists ss, parse m = Some ss /\ forallb legacy_stream ss = true) /\
  accept (pdh m) m = true /\ accept (pdh m ++ "+Afoo") m = true /\
  rewrite_manifest m "zzzzz" =
    ". 930625b054ce894ac40596c3f5a0d947+33+Rzzzzz-1f27a35dd9af37191d63ad8eb8985624451e7b79@5835c8bc 0:0:a 0:0:b 0:33:output.txt" ++ String nl "".
Proof. exact hypotheses_satisfiable. Qed.
Print Assumptions C18_hypotheses_satisfiable.

(* the boolean specification with which the evaluator (model/C18_run.v: spec_get, spec_uuid, remote_ok) judges
   what the implementation returned is satisfied by the model for every request, every set of answers and
   every arrival order: a success is explained by a verifying answer relayed correctly; a failure means the
   local answer does not verify and, when the federation is searched, no remote verifies and the class is
   404 iff all remotes said 404, else 502 *)
Theorem C18_model_meets_spec : forall req fwd local arrivals,
  spec_get fwd (judge req local) (map (fun ra => (fst ra, judge req (snd ra))) arrivals)
           (collection_get_pdh req fwd local arrivals) = true.
Proof. exact model_meets_spec. Qed.
Print Assumptions C18_model_meets_spec.
Theorem C18_model_meets_spec_uuid : forall lid uuid a, spec_uuid lid uuid a (collection_get_uuid lid uuid a) = true.
Proof. exact model_meets_spec_uuid. Qed.
Print Assumptions C18_model_meets_spec_uuid.
Theorem C18_model_meets_spec_rw : forall m r, remote_ok r m (rewrite_manifest m r) = true.
Proof. exact model_meets_spec_rw. Qed.
Print Assumptions C18_model_meets_spec_rw.

(* ---------- legacy request path, whole fan-out: every status code, every body ---------- *)

(* what rewriteSignatures' verdict means on a valid manifest with plain or properly signed locators: the record
   carries the expected hash, the manifest really hashes to it, and the output differs only in the A-hints *)
Theorem C18_legacy_verified_means : forall r e p m ss out,
  parse m = Some ss -> forallb legacy_stream ss = true ->
  legacy_rewrite r e p m = LOk out ->
  (e = "" \/ e = p) /\ pdh m = p /\ out = render (map (rw_stream r) ss).
Proof. exact legacy_verified_means. Qed.
Print Assumptions C18_legacy_verified_means.
Theorem C18_legacy_honest_verifies : forall r e p m ss,
  parse m = Some ss -> forallb legacy_stream ss = true -> e = "" \/ e = p -> pdh m = p ->
  legacy_rewrite r e p m = LOk (render (map (rw_stream r) ss)).
Proof. exact legacy_honest_verifies. Qed.
Print Assumptions C18_legacy_honest_verifies.

(* an answer whose status is not exactly 200 is never a candidate, whatever its body *)
Theorem C18_fan_try_only_200 : forall req r c b, c <> 200%N -> fan_try req (r, HResp c b) = None.
Proof. exact fan_try_only_200. Qed.
Print Assumptions C18_fan_try_only_200.

(* a manifest reaches the client only with status 200, and it is the output of rewriteSignatures for an answer that
   some remote gave with status 200 and that passed the check against the requested hash *)
Theorem C18_fan_only_verified_200_is_relayed : forall req lb arr c m',
  fan_get req (HResp 404 lb) arr = FRes c (Some m') ->
  c = 200%N /\ exists r b p m, In (r, HResp 200 b) arr /\ body_col b = Some (p, m) /\ legacy_rewrite r req p m = LOk m'.
Proof. exact fan_only_verified_200_is_relayed. Qed.
Print Assumptions C18_fan_only_verified_200_is_relayed.

(* no verified status-200 answer: an error status (404 if every remote said 404, else 502), in every arrival order;
   in particular when the remotes answer with any statuses other than 200 - 1xx, 2xx, 3xx, 4xx, 5xx - and any bodies *)
Theorem C18_fan_unverified_yields_error : forall req lb arr,
  (forall ra, In ra arr -> fan_try req ra = None) ->
  fan_get req (HResp 404 lb) arr = FRes (if forallb (fun ra => h404 (snd ra)) arr then 404 else 502)%N None.
Proof. exact fan_unverified_yields_error. Qed.
Print Assumptions C18_fan_unverified_yields_error.
Theorem C18_fan_other_status_never_relayed : forall req lb arr,
  (forall r c b, In (r, HResp c b) arr -> c <> 200%N) ->
  exists c, fan_get req (HResp 404 lb) arr = FRes c None /\ (c = 404 \/ c = 502)%N.
Proof. exact fan_other_status_never_relayed. Qed.
Print Assumptions C18_fan_other_status_never_relayed.

(* a remote whose answer verifies makes the fetch succeed in every arrival order, whatever the others answer *)
Theorem C18_fan_honest_remote_wins : forall req lb arr ra out,
  In ra arr -> fan_try req ra = Some out ->
  forall arr', Permutation arr arr' -> exists out', fan_get req (HResp 404 lb) arr' = FRes 200 (Some out').
Proof. exact fan_honest_remote_wins. Qed.
Print Assumptions C18_fan_honest_remote_wins.

(* any answer of the local cluster other than 404 is final and no remote is asked *)
Theorem C18_fan_local_answer_final : forall req c b arr, c <> 404%N ->
  fan_get req (HResp c b) arr = FRes c (body_manifest b) /\ fan_remotes_asked (HResp c b) = false.
Proof. exact fan_local_answer_final. Qed.
Print Assumptions C18_fan_local_answer_final.

(* the boolean specification with which the evaluator of stage c18fan judges what the client received
   (model/C18_fan_run.v: spec_fget, spec_fuuid, vouches, honest) is met by the model for every request, every
   local answer, every list of remote answers (any status, any body) in every order ... *)
Theorem C18_fan_model_meets_spec : forall req local arr, spec_fget req local arr (fan_get req local arr) = true.
Proof. exact fan_model_meets_spec. Qed.
Print Assumptions C18_fan_model_meets_spec.
Theorem C18_fan_uuid_meets_spec : forall known r a, spec_fuuid r known a (fan_uuid known r a) = true.
Proof. exact fan_uuid_meets_spec. Qed.
Print Assumptions C18_fan_uuid_meets_spec.
(* ... and this is what it says: a manifest only with status 200 and only vouched for by a status-200 answer whose
   manifest hashes to the requested value and differs only in the rewritten A-hints; otherwise an error status, and
   only if no remote gave an honest answer *)
Theorem C18_spec_fget_reads : forall req lb arr c om, spec_fget req (HResp 404 lb) arr (FRes c om) = true ->
  match om with
  | Some m' =>
    c = 200%N /\
    exists r b p m, In (r, HResp 200 b) arr /\ body_col b = Some (p, m) /\
      forall ss, parse m = Some ss -> forallb legacy_stream ss = true ->
                 pdh m = (if req =? "" then p else req) /\ m' = render (map (rw_stream r) ss)
  | None =>
    (400 <= c)%N /\
    forall r p m ss, In (r, HResp 200 (BCol p m)) arr -> p = (if req =? "" then p else req) ->
                     parse m = Some ss -> forallb legacy_stream ss = true -> pdh m <> p
  end.
Proof. exact spec_fget_reads. Qed.
Print Assumptions C18_spec_fget_reads.
Theorem C18_spec_fuuid_reads : forall r known a m', spec_fuuid r known a (FRes 200 (Some m')) = true ->
  known = true /\ exists b p m, a = HResp 200 b /\ body_col b = Some (p, m) /\
    forall ss, parse m = Some ss -> forallb legacy_stream ss = true -> pdh m = p /\ m' = render (map (rw_stream r) ss).
Proof. exact spec_fuuid_reads. Qed.
Print Assumptions C18_spec_fuuid_reads.

(* limited capacity (API.MaxRequestAmplification = amp; a silent remote keeps its slot): the evaluator judges
   spec_fget2, which adds availability of the honest answer - when the silent remotes cannot exhaust the capacity
   (must_ask), every configured remote counts, also one whose request never reached the transport.  The model, run
   with the unasked remotes counted as silent, meets it whenever a remote is left unasked only legitimately ... *)
Theorem C18_fan_model_meets_spec2 : forall amp req local arr unasked,
  unasked = [] \/ must_ask amp arr = false ->
  spec_fget2 amp req local arr unasked (fan_get req local (mask unasked arr)) = true.
Proof. exact fan_model_meets_spec2. Qed.
Print Assumptions C18_fan_model_meets_spec2.
(* ... and it says: no manifest for the client although capacity allows every remote to be asked means that no
   configured remote holds an honest answer (the model side is C18_fan_honest_remote_wins) *)
Theorem C18_spec_fget2_availability : forall amp req lb arr unasked c,
  spec_fget2 amp req (HResp 404 lb) arr unasked (FRes c None) = true -> must_ask amp arr = true ->
  forall r p m ss, In (r, HResp 200 (BCol p m)) arr -> p = (if req =? "" then p else req) ->
                   parse m = Some ss -> forallb legacy_stream ss = true -> pdh m <> p.
Proof. exact spec_fget2_availability. Qed.
Print Assumptions C18_spec_fget2_availability.
