(* C15 — every runnable container reaches a final state; idle instances are released.
   Property theorems only.  Safety-side statements hold for all states of the models
   (model/C14_pool.v, model/C14_sync.v, model/C15_model.v); the convergence statements are bounded sweeps of
   the model's healthy [round] and carry the suffix _partial.  Liveness of the real runtime is explored
   end-to-end only. *)
From Coq Require Import List ZArith Bool NArith.
From AV Require Import model.C16_runq model.C14_sync model.C14_pool model.C14_sys model.C15_model
                       proofs.C14_sync proofs.C14_pool proofs.C14_sys proofs.C14_thms proofs.C15_proofs.
From AV Require model.C15_run.
Import ListNotations.
Local Open Scope Z_scope.

(* ---------------- instances that fail to boot or report broken get no more work ---------------- *)
Theorem C15_broken_never_gets_work : forall it u p id p',
  pool_start it u p = (Some id, p') ->
  exists w, In w (p_workers p) /\ w_id w = id /\ w_st w = WIdle /\ w_ib w = IRun /\ w_it w = it.
Proof. exact start_only_idle_run_workers. Qed.
Print Assumptions C15_broken_never_gets_work.

Theorem C15_not_idle_or_not_run_is_no_candidate : forall it w,
  (w_st w <> WIdle \/ w_ib w <> IRun) -> start_candidate it w = false.
Proof. exact not_candidate. Qed.
Print Assumptions C15_not_idle_or_not_run_is_no_candidate.

(* an unkillable container drains its instance (unless the operator holds it) *)
Theorem C15_unkillable_drains : forall c id u p w,
  find_w id (p_workers p) = Some w -> w_ib w <> IHold ->
  exists w', find_w id (p_workers (give_up c id u p)) = Some w' /\ w_ib w' = IDrain.
Proof. exact unkillable_drains. Qed.
Print Assumptions C15_unkillable_drains.

(* ---------------- timeouts: unresponsive instances are shut down, idle ones released ---------------- *)
Theorem C15_unresponsive_is_shut_down : forall c dur w clock w' clock',
  shutdown_if_broken c dur w clock = (w', clock') -> w_ib w <> IHold ->
  (match w_st w with WUnknown | WBooting => t_boot c | _ => t_probe c end) <= dur ->
  w_st w' = WShutdown /\ w_destroys w' = (w_destroys w + 1)%N.
Proof. exact unresponsive_is_shut_down. Qed.
Print Assumptions C15_unresponsive_is_shut_down.

Theorem C15_idle_timeout_eligible : forall c now w,
  w_st w = WIdle -> w_ib w <> IHold -> t_idle c <= now - w_busy w -> eligible_shutdown c now w = true.
Proof. exact idle_timeout_eligible. Qed.
Print Assumptions C15_idle_timeout_eligible.

Theorem C15_draining_idle_eligible : forall c now w,
  w_ib w = IDrain -> (w_st w = WIdle \/ w_st w = WBooting) -> eligible_shutdown c now w = true.
Proof. exact draining_idle_eligible. Qed.
Print Assumptions C15_draining_idle_eligible.

Theorem C15_draining_running_eligible : forall c now w,
  w_ib w = IDrain -> w_st w = WRunning -> forallb rgiven (w_running w) = true -> forallb rgiven (w_starting w) = true ->
  eligible_shutdown c now w = true.
Proof. exact draining_running_eligible. Qed.
Print Assumptions C15_draining_running_eligible.

Theorem C15_eligible_is_shut_down : forall c w clock w' clock' b,
  shutdown_if_idle c w clock = (w', clock', b) -> eligible_shutdown c (clock + 1) w = true ->
  w_st w' = WShutdown /\ w_destroys w' = (w_destroys w + 1)%N /\ b = true.
Proof. exact eligible_is_shut_down. Qed.
Print Assumptions C15_eligible_is_shut_down.

(* the dispatcher never releases a held instance by itself (why the e2e fault mix holds none) *)
Theorem C15_held_never_shut_down : forall c now w, w_ib w = IHold -> eligible_shutdown c now w = false.
Proof. exact held_never_shut_down. Qed.
Print Assumptions C15_held_never_shut_down.

(* Pool.sync retries Destroy for instances still listed after timeoutShutdown ... *)
Theorem C15_destroy_retried : forall c id it ib ws clock w,
  find_w id ws = Some w -> w_st w = WShutdown -> t_shutdown c < clock + 1 + 1 - w_destroyed w ->
  exists w', find_w id (fst (sync_listed c [(id, it, ib)] ws clock)) = Some w' /\
             w_st w' = WShutdown /\ w_destroys w' = (w_destroys w + 1)%N.
Proof. exact destroy_retried. Qed.
Print Assumptions C15_destroy_retried.

(* ... and drops instances that have disappeared *)
Theorem C15_gone_instance_dropped : forall c listed p id,
  NoDup (map w_id (p_workers p)) -> (forall w, In w (p_workers p) -> w_updated w <= p_clock p) ->
  ~ In id (map (fun x => fst (fst x)) listed) ->
  find_w id (p_workers (pool_sync c listed p)) = None.
Proof. exact gone_instance_dropped. Qed.
Print Assumptions C15_gone_instance_dropped.

(* ---------------- a container left Running or Locked whose process has died is not stuck ---------------- *)
Theorem C15_dead_process_resolved_running : forall ents running unknown qupd latch e,
  In e ents -> e_state e = Running -> memN (e_uuid e) latch = false ->
  ((exists t, rlook (e_uuid e) running = Some t /\ t <> 0 /\ t < qupd) \/
   (rlook (e_uuid e) running = None /\ unknown = false)) ->
  In (ACancel (e_uuid e)) (sync ents running unknown qupd latch).
Proof. exact dead_running_cancelled. Qed.
Print Assumptions C15_dead_process_resolved_running.

Theorem C15_dead_process_resolved_locked : forall ents running unknown qupd latch e,
  In e ents -> e_state e = Locked -> memN (e_uuid e) latch = false ->
  (exists t, rlook (e_uuid e) running = Some t /\ t <> 0 /\ t < qupd) ->
  In (ARequeue (e_uuid e)) (sync ents running unknown qupd latch).
Proof. exact dead_locked_requeued. Qed.
Print Assumptions C15_dead_process_resolved_locked.

(* ---------------- fixStaleLocks ---------------- *)
(* only Locked containers that had no process at some look (while workers were still unknown) are unlocked *)
Theorem C15_stale_locks_sound : forall snaps u,
  In u (fix_stale_locks snaps []) ->
  exists unknown running ents, In (unknown, running, ents) snaps /\
    exists e, In e ents /\ e_uuid e = u /\ e_state e = Locked /\ rlook u running = None.
Proof. exact fsl_sound_spec. Qed.
Print Assumptions C15_stale_locks_sound.

Theorem C15_stale_locks_released_at_timeout : forall running ents x st,
  stale_locks ents running = x :: st -> fix_stale_locks [(true, running, ents)] [] = x :: st.
Proof. exact fsl_timeout. Qed.
Print Assumptions C15_stale_locks_released_at_timeout.

(* F24 (fixed in /repo 05ee31b): a container that pool.Running() reports when the wait ends because every
   worker has become known is not unlocked *)
Theorem C15_stale_locks_skip_running : forall snaps u,
  In u (fix_stale_locks snaps []) ->
  forall pre running ents rest, snaps = pre ++ (false, running, ents) :: rest ->
  Forall (fun sn => fst (fst sn) = true) pre -> rlook u running = None.
Proof. exact (fun snaps => fsl_skips_running snaps []). Qed.
Print Assumptions C15_stale_locks_skip_running.

Theorem C15_stale_locks_recovered_not_unlocked :
  fix_stale_locks [(true, [], [mkent 7 Locked 5 0]); (false, [(7%N, 0)], [mkent 7 Locked 5 0])] [] = [].
Proof. exact fsl_recovered_not_unlocked. Qed.
Print Assumptions C15_stale_locks_recovered_not_unlocked.

(* regression witness about the old model (the code before that commit unlocked container 7 here) *)
Theorem C15_stale_locks_old_model_regression_witness :
  fix_stale_locks_old [(true, [], [mkent 7 Locked 5 0]); (false, [(7%N, 0)], [mkent 7 Locked 5 0])] [] = [7%N].
Proof. exact fsl_old_unlocked_outdated_list. Qed.
Print Assumptions C15_stale_locks_old_model_regression_witness.

(* ---------------- bounded convergence of the model's healthy round (partial) ---------------- *)
(* round = queue poll + runQueue + the API calls it spawned + sync and its calls + start commands land and
   containers complete + kills delivered + every worker probed by a healthy VM + idle sweep + destroyed
   instances vanish + cloud listing + the clock advances by [quantumL] *)
Theorem C15_converges_bounded_partial :
  forall b fs, In b basesL -> (List.length fs <= 3)%nat -> Forall (fun f => In f alphabetL) fs ->
  exists r, (r <= 12)%nat /\
            finished (rounds cfgL quantumL r (apply_fops cfgL quantumL (b ++ fs) startL)) = true /\
            released (rounds cfgL quantumL r (apply_fops cfgL quantumL (b ++ fs) startL)) = true.
Proof. exact converges_bounded_partial. Qed.
Print Assumptions C15_converges_bounded_partial.

Theorem C15_converges_bounded_running_partial :
  forall fs, (List.length fs <= 4)%nat -> Forall (fun f => In f alphabetL) fs ->
  exists r, (r <= 12)%nat /\
            finished (rounds cfgL quantumL r (apply_fops cfgL quantumL (baseL4 ++ fs) startL)) = true /\
            released (rounds cfgL quantumL r (apply_fops cfgL quantumL (baseL4 ++ fs) startL)) = true.
Proof. exact converges_bounded_partial_running. Qed.
Print Assumptions C15_converges_bounded_running_partial.

(* finished = every container Complete, Cancelled or without priority; released = no VM left *)
Theorem C15_round_example : converge_in cfgL quantumL 12 startL = Some 4%nat.
Proof. exact round_example. Qed.
Print Assumptions C15_round_example.
