(* C11 — Keep client Put: property theorems only.  Each is closed by `exact` of a lemma from
   proofs/C11_proofs.v / proofs/C11_spec.v.

   Vocabulary (model/C11_model.v, model/C11_run.v):
     gin            one Put: digest function g_H, keep_services list g_svcs, rendezvous order g_order (indices),
                    g_want, g_retries, entry point g_entry with its arguments g_hash/g_data/g_nbytes,
                    response oracle g_oracle : service -> attempt -> outcome, completion schedule g_pick.
     run_g i        the model's run: result r_res (Ok loc n | Insufficient loc n | Oversize), log r_steps
                    (per step: uploads started, upload that completed, its answer), uploads abandoned in flight.
     exp_answer i x r   what service x answers to attempt r for THIS block (the fake service issues
                    "<hash>+<size><suffix>"; a request whose body is unreadable or mis-sized gets no response).
     total_stored   sum of X-Keep-Replicas-Stored (absent = 1) over the 200 answers in a log.
     Discovery (model/KC_discover.v, shared with C12): dsvc = one keep_services item (uuid, host, port, ssl, type,
                    read_only); load_roots l = the uuid -> URL maps r_local / r_writable / r_gateway and r_rps that
                    loadKeepServers installs for list l; load_all st ls = a client given the lists ls one after the
                    other; kept l = the items that survive "skip duplicate URLs"; current_list ls = last list.
                    A case carries i_lists (all lists the client was given); g_svcs (gin_of i) is the last one.
   Every statement is for all digest functions, service lists, orders without repetition, oracles and schedules. *)
From Coq Require Import Arith NArith List String Bool.
From AV Require Import lib.Str model.KC_discover model.C11_model model.C11_run proofs.KC_discover_proofs proofs.C11_proofs
  proofs.C11_spec proofs.C11_disc.
Import ListNotations.
Local Open Scope nat_scope.

(* The oracle that judges the implementation is the specification: spec_b, evaluated on what the real
   KeepClient was observed to do, is true exactly when the Prop-level Spec (proofs/C11_spec.v) holds. *)
Theorem C11_spec_b_reflects_Spec : forall c : case,
  spec_b c = true <->
  Spec (gin_of (c_in c)) (c_obs c) /\
  (NoDup (map d_uuid (current_list (i_lists (c_in c)))) ->
   RootsSpec (current_list (i_lists (c_in c))) (ob_local (c_obs c)) (ob_writable (c_obs c)) (ob_gateway (c_obs c))).
Proof. exact spec_b_reflects. Qed.
Print Assumptions C11_spec_b_reflects_Spec.

(* ---- service discovery: which services a Put may write to, after any history of service lists ---- *)

(* what RootsSpec (second half of the judgement above) says, and that roots_spec_b decides it *)
Theorem C11_roots_spec_b_reflects : forall l local writable gateway,
  roots_spec_b l local writable gateway = true <->
  (NoDup (map d_uuid l) ->
   (forall p, In p local <-> exists s, In s (kept l) /\ p = root_entry s) /\
   (forall p, In p writable <-> exists s, In s (kept l) /\ d_ro s = false /\ p = root_entry s) /\
   (forall s, In s (kept l) -> In (root_entry s) gateway) /\
   (forall p, In p gateway -> exists s, In s l /\ p = root_entry s)).
Proof. exact roots_spec_b_written_out. Qed.
Print Assumptions C11_roots_spec_b_reflects.

(* "skip duplicates": an item is kept iff no earlier item of the list has its URL *)
Theorem C11_kept_is_first_per_url : forall l s,
  In s (kept l) <-> exists pre post, l = (pre ++ s :: post)%list /\ (forall t, In t pre -> d_url t <> d_url s).
Proof. exact kept_is_first_per_url. Qed.
Print Assumptions C11_kept_is_first_per_url.

(* the writable roots installed for a list are exactly its kept items that are not read-only, whatever their
   service type; replicasPerService is 1 exactly when all of those are disks *)
Theorem C11_writable_roots_exactly : forall l, NoDup (map d_uuid l) ->
  forall u r, In (u, r) (r_writable (load_roots l)) <->
              exists s, In s (kept l) /\ d_ro s = false /\ d_uuid s = u /\ d_url s = r.
Proof. exact writable_roots_exactly. Qed.
Print Assumptions C11_writable_roots_exactly.

Theorem C11_replicas_per_service : forall l,
  r_rps (load_roots l) = if forallb (fun s => d_ro s || is_disk s) (kept l) then 1 else 0.
Proof. exact load_roots_rps. Qed.
Print Assumptions C11_replicas_per_service.

(* every load replaces the previous maps: after any sequence of lists (initial discovery, refreshes, repeated
   LoadKeepServicesFromJSON) the client uses the maps of the LAST list, and they satisfy the specification *)
Theorem C11_load_history_irrelevant : forall st ls l, k_roots (load_all st (ls ++ [l])) = load_roots l.
Proof. exact load_history_irrelevant. Qed.
Print Assumptions C11_load_history_irrelevant.

Theorem C11_discovery_meets_roots_spec : forall st ls, ls <> [] ->
  let r := k_roots (load_all st ls) in
  roots_spec_b (current_list ls) (r_local r) (r_writable r) (r_gateway r) = true.
Proof. exact load_all_meets_roots_spec_b. Qed.
Print Assumptions C11_discovery_meets_roots_spec.

(* the Put model (which identifies services by their index in the list) writes to exactly the discovered
   writable roots, and uses the discovered replicasPerService *)
Theorem C11_writable_ids_are_discovered_writable : forall l, NoDup (map d_uuid l) ->
  forall x, In x (writable_ids (map k_of l)) <->
            exists s, nth_error l x = Some s /\ In (root_entry s) (r_writable (load_roots l)).
Proof. exact writable_ids_discovered. Qed.
Print Assumptions C11_writable_ids_are_discovered_writable.

Theorem C11_replicas_per_service_is_discovered : forall l, replicas_per_service (map k_of l) = r_rps (load_roots l).
Proof. exact replicas_per_service_discovered. Qed.
Print Assumptions C11_replicas_per_service_is_discovered.

Theorem C11_put_uses_current_list : forall i : cin, i_lists i <> [] ->
  k_roots (load_all kstate0 (i_lists i)) = load_roots (current_list (i_lists i)) /\
  g_svcs (gin_of i) = map k_of (current_list (i_lists i)).
Proof. exact put_uses_current_list. Qed.
Print Assumptions C11_put_uses_current_list.

(* ... and the model's own behaviour satisfies the same Spec for every input. *)
Theorem C11_model_meets_Spec : forall i : gin, NoDup (g_order i) -> Spec i (obs_of_run i (run_g i)).
Proof. exact model_meets_spec. Qed.
Print Assumptions C11_model_meets_Spec.

(* Success only with enough confirmed replicas: n is exactly the sum of the replicas confirmed by the 200
   answers received before returning, it reaches want, the locator is the (trimmed) body of one of those
   answers, and every answer in the log is the one the service gives for this block's hash and size. *)
Theorem C11_put_ok_enough : forall i l n, NoDup (g_order i) -> r_res (run_g i) = Ok l n ->
  g_want i <= n /\ n = total_stored (r_steps (run_g i)) /\
  ((exists s, In s (r_steps (run_g i)) /\ is200 (st_out s) = true /\ o_body (st_out s) = l) \/
   ((forall s, In s (r_steps (run_g i)) -> is200 (st_out s) = false) /\ l = EmptyString)) /\
  (forall s, In s (r_steps (run_g i)) -> st_out s = exp_answer i (st_done s) (st_round s)).
Proof. exact put_ok_enough. Qed.
Print Assumptions C11_put_ok_enough.

(* a counted (200) answer carries a locator issued for exactly the block's hash and size *)
Theorem C11_locator_for_hash_and_size : forall i x r, is200 (exp_answer i x r) = true ->
  exists h sfx, g_oracle i x r = Resp 200 h sfx /\ exp_body_ok i = true /\
                o_body (exp_answer i x r) = trim_space (exp_hash i ++ "+" ++ dec (exp_len i) ++ sfx)%string.
Proof. exact counted_answer_locator. Qed.
Print Assumptions C11_locator_for_hash_and_size.

(* Failure reports the exact number stored: every started upload has returned by then (nothing abandoned),
   n is the sum over all 200 answers and is short of want; and Put gave up only after every writable service
   was asked at least once, those whose last answer was transient 1+Retries times; and fewer than want
   services accept the block on every attempt. *)
Theorem C11_put_err_reports_count : forall i l n, NoDup (g_order i) -> r_res (run_g i) = Insufficient l n ->
  n < g_want i /\ n = total_stored (r_steps (run_g i)) /\ r_abandoned (run_g i) = [] /\
  (forall x, In x (sv_of i) ->
     1 <= List.length (hist x (r_steps (run_g i))) /\
     (last_retryable x (r_steps (run_g i)) = true -> List.length (hist x (r_steps (run_g i))) = S (g_retries i))) /\
  n_accepting i < g_want i.
Proof. exact put_err_reports_count. Qed.
Print Assumptions C11_put_err_reports_count.

(* Only writable services are contacted: every upload goes to an item of the keep_services list that is
   not read-only. *)
Theorem C11_only_writable_contacted : forall i, NoDup (g_order i) ->
  forall s x, In s (r_steps (run_g i)) -> In x (st_started s) ->
  exists k, nth_error (g_svcs i) x = Some k /\ k_ro k = false.
Proof. exact only_writable. Qed.
Print Assumptions C11_only_writable_contacted.

(* Retry policy: whenever an upload to service x is started, all answers x has given so far have status 0
   (no response), 408, 429 or >= 500 other than 503, and there are at most Retries of them. *)
Theorem C11_retry_policy : forall i, NoDup (g_order i) ->
  forall pre s post, r_steps (run_g i) = pre ++ s :: post -> forall x, In x (st_started s) ->
  Forall (fun o => let c := o_code o in (c = 0 \/ c = 408 \/ c = 429 \/ (500 <= c /\ c <> 503))%N) (hist x pre) /\
  List.length (hist x pre) <= g_retries i.
Proof. exact (fun i Hnd => sp_retry _ _ (model_meets_spec i Hnd)). Qed.
Print Assumptions C11_retry_policy.

(* The round recorded in a step is the attempt number of its service (how many answers it had given before):
   the oracle "service -> round -> answer" is therefore the same as a per-service script indexed by attempt,
   which is what the harness's fake services use. *)
Theorem C11_round_is_attempt : forall i, NoDup (g_order i) ->
  forall pre s post, r_steps (run_g i) = pre ++ s :: post -> st_round s = List.length (hist (st_done s) pre).
Proof. exact round_is_attempt. Qed.
Print Assumptions C11_round_is_attempt.

(* Liveness: if at least want writable services answer 200 with >= 1 replica on every attempt, Put succeeds,
   whatever the other services answer and in whatever order uploads complete. *)
Theorem C11_put_succeeds_if_enough_accept : forall i, NoDup (g_order i) -> oversize i = false ->
  g_want i <= List.length (filter (fun x => forallb (fun a => is200 (exp_answer i x a) && (1 <=? o_rep (exp_answer i x a)))
                                                    (seq 0 (S (g_retries i)))) (sv_of i)) ->
  exists l n, r_res (run_g i) = Ok l n.
Proof. exact put_succeeds_if_enough_accept. Qed.
Print Assumptions C11_put_succeeds_if_enough_accept.

(* stronger: it is enough that the first-round answers of the writable services confirm want replicas in total *)
Theorem C11_put_succeeds_if_first_round_enough : forall i, NoDup (g_order i) -> oversize i = false ->
  g_want i <= list_sum (map (fun x => stored_of (exp_answer i x 0)) (sv_of i)) ->
  exists l n, r_res (run_g i) = Ok l n.
Proof. exact put_succeeds_if_first_round_enough. Qed.
Print Assumptions C11_put_succeeds_if_first_round_enough.

(* Termination: the loop of one round (modelled with fuel 2*|servers|+1) has really exited when the fuel is
   used up — replicasTodo = 0, or nothing in flight and no server left — and more fuel changes nothing.
   The number of rounds is 1+Retries by construction ([outer] recurses on it). *)
Theorem C11_terminates : forall rpt answer pick round servers dn td lc tr k,
  let s' := fst (inner rpt answer pick (round_fuel servers) round (s_init servers dn td lc tr) k) in
  (todo s' = 0 \/ (active s' = [] /\ List.length (sv s') <= next s')) /\
  forall e, inner rpt answer pick (round_fuel servers + e) round (s_init servers dn td lc tr) k =
            inner rpt answer pick (round_fuel servers) round (s_init servers dn td lc tr) k.
Proof. exact round_terminates. Qed.
Print Assumptions C11_terminates.

(* PutHR rejects dataBytes > BLOCKSIZE without contacting anyone, and nothing else is ever rejected as oversize *)
Theorem C11_oversize_rejected : forall i, NoDup (g_order i) ->
  (r_res (run_g i) = Oversize <-> (g_entry i = EPutHR /\ (BLOCKSIZE < g_nbytes i)%N)) /\
  (r_res (run_g i) = Oversize -> r_steps (run_g i) = []).
Proof. exact oversize_rejected. Qed.
Print Assumptions C11_oversize_rejected.

(* the hypotheses above are satisfiable: a concrete Put with two accepting disk services and want = 2 *)
Theorem C11_hypotheses_satisfiable :
  exists i, NoDup (g_order i) /\ oversize i = false /\ g_want i = 2 /\ 2 <= n_accepting i /\
            r_res (run_g i) = Ok "h+3+A0"%string 2.
Proof. exact example_put. Qed.
Print Assumptions C11_hypotheses_satisfiable.

(* ---- the process-wide HTTP client pool (model/C11_pool.v = keepclient.go httpClient()): several KeepClients with
   different (ApiInsecure, disk/proxy) configurations in one process; which timeouts a Put runs under.
   hcfg = (request timeout, TLS handshake timeout, InsecureSkipVerify) of a pooled client; mk_client d ins nondisk =
   the client built for that configuration from the Default*Timeout variables d; run_uses d p us = the clients
   handed to the KeepClients us (TLS flag + lists given so far) one after the other starting from pool p;
   use_nondisk = foundNonDiskSvc (sticky); timed timeout lat o = what putReplicas sees of an answer o that takes lat. ---- *)
From AV Require Import model.C11_pool proofs.C11_pool_proofs.

(* foundNonDiskSvc: set by any list ever given that has a (kept) service whose type is not "disk" *)
Theorem C11_nondisk_sticky : forall ls st, k_nondisk (load_all st ls) = k_nondisk st || existsb has_nondisk ls.
Proof. exact nondisk_sticky. Qed.
Print Assumptions C11_nondisk_sticky.

(* whatever KeepClients used the pool before (any pool whose entries are filed under their own key, in particular
   the empty pool of a fresh process), every KeepClient is handed the client of ITS OWN configuration *)
Theorem C11_pool_hands_out_own_config : forall d us p,
  (forall a b c, pool_get p a b = Some c -> c = mk_client d a b) ->
  run_uses d p us = map (fun u => mk_client d (u_insecure u) (use_nondisk u)) us.
Proof. exact run_uses_own_config. Qed.
Print Assumptions C11_pool_hands_out_own_config.

(* the boolean oracle of stage c11pool and what it means: own TLS setting; proxy timeouts when the list in force has
   a non-disk service, disk timeouts when no list ever had one, one of the two in between *)
Theorem C11_pool_spec_reflects : forall d us cs,
  uses_ok_b d us cs = true <->
  Forall2 (fun u c =>
    h_insecure c = u_insecure u /\
    (has_nondisk (current_list (u_lists u)) = true -> c = mk_client d (u_insecure u) true) /\
    (existsb has_nondisk (u_lists u) = false -> c = mk_client d (u_insecure u) false) /\
    (c = mk_client d (u_insecure u) true \/ c = mk_client d (u_insecure u) false)) us cs.
Proof. exact uses_ok_b_reflects. Qed.
Print Assumptions C11_pool_spec_reflects.

Theorem C11_pool_model_meets_spec : forall d us p,
  (forall a b c, pool_get p a b = Some c -> c = mk_client d a b) -> uses_ok_b d us (run_uses d p us) = true.
Proof. exact pool_model_meets_spec. Qed.
Print Assumptions C11_pool_model_meets_spec.

(* regression witness: filing a new client under the transposed key [nonDisk][insecure] hands a verified-TLS proxy
   KeepClient the 20 s, unverified client of an insecure-TLS disk KeepClient that was used first *)
Theorem C11_transposed_pool_variant_refuted :
  run_uses_transposed witness_defaults [] witness_uses = [HC 20000 4000 true; HC 20000 4000 true] /\
  uses_ok_b witness_defaults witness_uses (run_uses_transposed witness_defaults [] witness_uses) = false /\
  run_uses witness_defaults [] witness_uses = [HC 20000 4000 true; HC 300000 10000 false].
Proof. exact transposed_pool_refuted. Qed.
Print Assumptions C11_transposed_pool_variant_refuted.

(* slow responses: a KeepClient with a non-disk service waits DefaultProxyRequestTimeout for an answer, whoever used
   the pool before; and a Put succeeds when want writable services accept every attempt WITHIN the timeout *)
Theorem C11_proxy_client_waits_proxy_timeout : forall d p ins lat o,
  (forall a b c, pool_get p a b = Some c -> c = mk_client d a b) -> (lat < df_proxy_req d)%N ->
  timed (h_timeout (fst (http_client d p ins true))) lat o = o.
Proof. exact proxy_client_waits_proxy_timeout. Qed.
Print Assumptions C11_proxy_client_waits_proxy_timeout.

Theorem C11_put_succeeds_with_slow_accepting_services : forall i timeout lat,
  NoDup (g_order i) -> oversize i = false ->
  g_want i <= List.length (filter (fun x => forallb (fun a => (lat x a <? timeout)%N &&
                                             (is200 (exp_answer i x a) && (1 <=? o_rep (exp_answer i x a))))
                                           (seq 0 (S (g_retries i)))) (sv_of i)) ->
  exists l n, r_res (run_g (with_latency i timeout lat)) = Ok l n.
Proof. exact put_succeeds_with_slow_accepting_services. Qed.
Print Assumptions C11_put_succeeds_with_slow_accepting_services.

(* ---- the discovery cache between a refresh request and the API's answer (model/C11_pool.v: cache_state / cache_step =
   the poll goroutine of discover.go; EvClear = RefreshServiceDiscovery, EvFetched l = a successful fetch;
   cache_offer = what a KeepClient asking now receives, None = it blocks) ---- *)

(* after a refresh request nothing is handed out until a fetch succeeds: a client that asks in between BLOCKS; a list
   obtained before the last refresh request is never offered again *)
Theorem C11_cache_never_stale_after_clear : forall st pre post,
  (forall l, ~ In (EvFetched l) post) -> cache_offer (cache_run st (pre ++ EvClear :: post)) = None.
Proof. exact cache_never_stale_after_clear. Qed.
Print Assumptions C11_cache_never_stale_after_clear.

Theorem C11_cache_offers_last_fetch : forall st pre l, cache_offer (cache_run st (pre ++ [EvFetched l])) = Some l.
Proof. exact cache_offers_last_fetch. Qed.
Print Assumptions C11_cache_offers_last_fetch.

(* the oracle of stage c11refresh: every PUT of a Put started after the refresh request went to a writable root of the
   refreshed list (the roots a client has after being given all the lists, i.e. those of the last one) *)
Theorem C11_refresh_spec_b_reflects : forall c : fcase, f_lists c <> [] ->
  (refresh_spec_b c = true <->
   (NoDup (map d_uuid (current_list (f_lists c))) ->
    forall u, In u (f_contacted c) ->
      exists uuid, In (uuid, u) (r_writable (k_roots (load_all kstate0 (f_lists c)))))).
Proof. exact refresh_spec_b_reflects. Qed.
Print Assumptions C11_refresh_spec_b_reflects.
