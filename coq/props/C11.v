(* C11 — Keep client Put: property theorems only.  Each is closed by `exact` of a lemma from
   proofs/C11_proofs.v / proofs/C11_spec.v.

   Vocabulary (model/C11_model.v, model/C11_run.v):
     gin            one Put: digest function g_H, keep_services list g_svcs, rendezvous order g_order (indices),
                    g_want, g_retries, entry point g_entry with its arguments g_hash/g_data/g_nbytes,
                    response oracle g_oracle : service -> attempt -> outcome, completion schedule g_pick.
     run_g i        the model's run: result r_res (Ok loc n | Insufficient loc n | Oversize), log r_steps
                    (per step: uploads started, upload that completed, its answer), uploads abandoned in flight.
     exp_answer i x r   what service x answers to attempt r for THIS block (the fake service issues
                    "<hash>+<size><suffix>"; a request whose body is unreadable or mis-sized gets no response).
     total_stored   sum of X-Keep-Replicas-Stored (absent = 1) over the 200 answers in a log.
   Every statement is for all digest functions, service lists, orders without repetition, oracles and schedules. *)
From Coq Require Import Arith NArith List String Bool.
From AV Require Import lib.Str model.C11_model model.C11_run proofs.C11_proofs proofs.C11_spec.
Import ListNotations.
Local Open Scope nat_scope.

(* The oracle that judges the implementation is the specification: spec_b, evaluated on what the real
   KeepClient was observed to do, is true exactly when the Prop-level Spec (proofs/C11_spec.v) holds. *)
Theorem C11_spec_b_reflects_Spec : forall c : case, spec_b c = true <-> Spec (gin_of (c_in c)) (c_obs c).
Proof. exact spec_b_reflects. Qed.
Print Assumptions C11_spec_b_reflects_Spec.

(* ... and the model's own behaviour satisfies the same Spec for every input. *)
Theorem C11_model_meets_Spec : forall i : gin, NoDup (g_order i) -> Spec i (obs_of_run i (run_g i)).
Proof. exact model_meets_spec. Qed.
Print Assumptions C11_model_meets_Spec.

(* Success only with enough confirmed replicas: n is exactly the sum of the replicas confirmed by the 200
   answers received before returning, it reaches want, the locator is the (trimmed) body of one of those
   answers, and every answer in the log is the one the service gives for this block's hash and size. *)
Theorem C11_put_ok_enough : forall i l n, NoDup (g_order i) -> r_res (run_g i) = Ok l n ->
  g_want i <= n /\ n = total_stored (r_steps (run_g i)) /\
  ((exists s, In s (r_steps (run_g i)) /\ is200 (st_out s) = true /\ o_body (st_out s) = l) \/
   ((forall s, In s (r_steps (run_g i)) -> is200 (st_out s) = false) /\ l = EmptyString)) /\
  (forall s, In s (r_steps (run_g i)) -> st_out s = exp_answer i (st_done s) (st_round s)).
Proof. exact put_ok_enough. Qed.
Print Assumptions C11_put_ok_enough.

(* a counted (200) answer carries a locator issued for exactly the block's hash and size *)
Theorem C11_locator_for_hash_and_size : forall i x r, is200 (exp_answer i x r) = true ->
  exists h sfx, g_oracle i x r = Resp 200 h sfx /\ exp_body_ok i = true /\
                o_body (exp_answer i x r) = trim_space (exp_hash i ++ "+" ++ dec (exp_len i) ++ sfx)%string.
Proof. exact counted_answer_locator. Qed.
Print Assumptions C11_locator_for_hash_and_size.

(* Failure reports the exact number stored: every started upload has returned by then (nothing abandoned),
   n is the sum over all 200 answers and is short of want; and Put gave up only after every writable service
   was asked at least once, those whose last answer was transient 1+Retries times; and fewer than want
   services accept the block on every attempt. *)
Theorem C11_put_err_reports_count : forall i l n, NoDup (g_order i) -> r_res (run_g i) = Insufficient l n ->
  n < g_want i /\ n = total_stored (r_steps (run_g i)) /\ r_abandoned (run_g i) = [] /\
  (forall x, In x (sv_of i) ->
     1 <= List.length (hist x (r_steps (run_g i))) /\
     (last_retryable x (r_steps (run_g i)) = true -> List.length (hist x (r_steps (run_g i))) = S (g_retries i))) /\
  n_accepting i < g_want i.
Proof. exact put_err_reports_count. Qed.
Print Assumptions C11_put_err_reports_count.

(* Only writable services are contacted: every upload goes to an item of the keep_services list that is
   not read-only. *)
Theorem C11_only_writable_contacted : forall i, NoDup (g_order i) ->
  forall s x, In s (r_steps (run_g i)) -> In x (st_started s) ->
  exists k, nth_error (g_svcs i) x = Some k /\ k_ro k = false.
Proof. exact only_writable. Qed.
Print Assumptions C11_only_writable_contacted.

(* Retry policy: whenever an upload to service x is started, all answers x has given so far have status 0
   (no response), 408, 429 or >= 500 other than 503, and there are at most Retries of them. *)
Theorem C11_retry_policy : forall i, NoDup (g_order i) ->
  forall pre s post, r_steps (run_g i) = pre ++ s :: post -> forall x, In x (st_started s) ->
  Forall (fun o => let c := o_code o in (c = 0 \/ c = 408 \/ c = 429 \/ (500 <= c /\ c <> 503))%N) (hist x pre) /\
  List.length (hist x pre) <= g_retries i.
Proof. exact (fun i Hnd => sp_retry _ _ (model_meets_spec i Hnd)). Qed.
Print Assumptions C11_retry_policy.

(* The round recorded in a step is the attempt number of its service (how many answers it had given before):
   the oracle "service -> round -> answer" is therefore the same as a per-service script indexed by attempt,
   which is what the harness's fake services use. *)
Theorem C11_round_is_attempt : forall i, NoDup (g_order i) ->
  forall pre s post, r_steps (run_g i) = pre ++ s :: post -> st_round s = List.length (hist (st_done s) pre).
Proof. exact round_is_attempt. Qed.
Print Assumptions C11_round_is_attempt.

(* Liveness: if at least want writable services answer 200 with >= 1 replica on every attempt, Put succeeds,
   whatever the other services answer and in whatever order uploads complete. *)
Theorem C11_put_succeeds_if_enough_accept : forall i, NoDup (g_order i) -> oversize i = false ->
  g_want i <= List.length (filter (fun x => forallb (fun a => is200 (exp_answer i x a) && (1 <=? o_rep (exp_answer i x a)))
                                                    (seq 0 (S (g_retries i)))) (sv_of i)) ->
  exists l n, r_res (run_g i) = Ok l n.
Proof. exact put_succeeds_if_enough_accept. Qed.
Print Assumptions C11_put_succeeds_if_enough_accept.

(* stronger: it is enough that the first-round answers of the writable services confirm want replicas in total *)
Theorem C11_put_succeeds_if_first_round_enough : forall i, NoDup (g_order i) -> oversize i = false ->
  g_want i <= list_sum (map (fun x => stored_of (exp_answer i x 0)) (sv_of i)) ->
  exists l n, r_res (run_g i) = Ok l n.
Proof. exact put_succeeds_if_first_round_enough. Qed.
Print Assumptions C11_put_succeeds_if_first_round_enough.

(* Termination: the loop of one round (modelled with fuel 2*|servers|+1) has really exited when the fuel is
   used up — replicasTodo = 0, or nothing in flight and no server left — and more fuel changes nothing.
   The number of rounds is 1+Retries by construction ([outer] recurses on it). *)
Theorem C11_terminates : forall rpt answer pick round servers dn td lc tr k,
  let s' := fst (inner rpt answer pick (round_fuel servers) round (s_init servers dn td lc tr) k) in
  (todo s' = 0 \/ (active s' = [] /\ List.length (sv s') <= next s')) /\
  forall e, inner rpt answer pick (round_fuel servers + e) round (s_init servers dn td lc tr) k =
            inner rpt answer pick (round_fuel servers) round (s_init servers dn td lc tr) k.
Proof. exact round_terminates. Qed.
Print Assumptions C11_terminates.

(* PutHR rejects dataBytes > BLOCKSIZE without contacting anyone, and nothing else is ever rejected as oversize *)
Theorem C11_oversize_rejected : forall i, NoDup (g_order i) ->
  (r_res (run_g i) = Oversize <-> (g_entry i = EPutHR /\ (BLOCKSIZE < g_nbytes i)%N)) /\
  (r_res (run_g i) = Oversize -> r_steps (run_g i) = []).
Proof. exact oversize_rejected. Qed.
Print Assumptions C11_oversize_rejected.

(* the hypotheses above are satisfiable: a concrete Put with two accepting disk services and want = 2 *)
Theorem C11_hypotheses_satisfiable :
  exists i, NoDup (g_order i) /\ oversize i = false /\ g_want i = 2 /\ 2 <= n_accepting i /\
            r_res (run_g i) = Ok "h+3+A0"%string 2.
Proof. exact example_put. Qed.
Print Assumptions C11_hypotheses_satisfiable.
