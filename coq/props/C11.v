(* C11 — property theorems only. *)
From Coq Require Import NArith List String.
From AV Require Import lib.Str model.C11_model model.C11_run proofs.C11_proofs.
Import ListNotations.

Theorem C11_oversize_rejected : forall H svcs order want retries oracle pick hash data nbytes,
  (BLOCKSIZE < nbytes)%N ->
  put H svcs order want retries oracle pick EPutHR hash data nbytes = {| r_res := Oversize; r_steps := []; r_abandoned := [] |}.
Proof. exact oversize_rejected_l. Qed.
Print Assumptions C11_oversize_rejected.
