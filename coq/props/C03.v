(* C03 — Keep client and collection reads never deliver bytes that mismatch the locator: property
   theorems only.  Each is closed by `exact` of a lemma from proofs/C03_proofs.v / proofs/C03_run_proofs.v /
   proofs/C03_err_proofs.v / proofs/C03_spec.v / proofs/C03_loc_proofs.v.

   Vocabulary (model/C03_model.v, model/C03_run.v):
     H                 the digest (hex md5 in the implementation): an ARBITRARY function in every theorem; where
                       "the bytes are the content" is wanted there is an explicit collision disjunct or hypothesis.
     response          what a service does with a request: Resp status declared-length body cut | ConnErr.
     transport         the net/http rule (trusted base): stream the client sees = bytes + how it ends (TEOF | TUEOF).
     sized n st        the sizeCheckingReader of fix F25 around the body: at most n bytes, ending in TSIZE
                       (ErrBlockSizeMismatch, EBadSize) when the body is longer than n or ends early with a clean EOF.
     hcr, hcr_read/_read_all/_read_full/_write_to/_close   HashCheckingReader over such a stream.
     get_or_head oracle retries order loc   the retry loop of getOrHead("GET"); oracle : service -> round -> response.
     fetch_entry, cache, cache_get, entry_read_at          BlockCache.Get / ReadAt.
     seg_read_at, file_read                                storedSegment.ReadAt and a sequential file reader.
     run_model i       a whole client session: list of operations (Get+read mode, ReadAt, concurrent ReadAt, file).
     spec_b            the judge of the implementation's observed results = ops_ok (results against the content the
                       locator stands for, for blocks whose locator is consistent with a content) && notfound_ok &&
                       ops_loc_ok (results against the LOCATOR alone: digest and size hint, for every block whatever
                       its locator says and whatever the answers declare) && the error-class clause.
     spec_b (cont.)    ... && (ob_sync implies ops_err_ok): the error class of every failed Get/ReadAt against the answers
                       the services gave to the requests of that very operation (ob_nreq cuts ob_log into one segment
                       per operation; the answer of log entry (block, service, attempt) is the script's entry), guarded by
                       nodupb (b_order ..).  answers, last_of, has404, last404, last_retry, class_ok: model/C03_run.v.
     loc_guard i bl    bl's locator does not take the empty-block short cut, and every block of the case with the same
                       hash (= cache key) carries the same size hint and does not take the short cut either (the cache
                       is keyed by the hash alone: data fetched through another locator has THAT locator's size). *)
From Coq Require Import Arith NArith List String Bool.
From AV Require Import lib.Str model.C03_model model.C03_old_model model.C03_run proofs.C03_proofs proofs.C03_run_proofs proofs.C03_err_proofs proofs.C03_spec proofs.C03_loc_proofs.
Import ListNotations.
Local Open Scope nat_scope.

(* the transport rule that the model assumes of net/http (it is a definition; stated here to be seen) *)
Theorem C03_transport_rule : forall n body cut,
  (n <= slen body -> transport (Some n) body cut = {| s_bytes := take n body; s_term := TEOF |}) /\
  (slen body < n -> transport (Some n) body cut = {| s_bytes := body; s_term := TUEOF |}) /\
  transport None body cut = {| s_bytes := body; s_term := if cut then TUEOF else TEOF |}.
Proof. exact transport_rule. Qed.
Print Assumptions C03_transport_rule.

(* the size check of the reader returned by Get (fix F25), as modelled: a stream that still ends in a clean EOF has
   exactly the expected size and is unchanged *)
Theorem C03_sized_reader_rule : forall n st,
  s_term (sized n st) = TEOF -> slen (s_bytes (sized n st)) = n /\ sized n st = st.
Proof. exact sized_eof_len. Qed.
Print Assumptions C03_sized_reader_rule.

(* Streaming Get: if a full read of the reader returned by Get ends in EOF, the bytes have the locator's
   digest, the announced size is the locator's size hint, the bytes have the announced size (whatever the response
   declared), and for any content c with that digest the bytes are c — or (bytes, c) is an explicit collision. *)
Theorem C03_get_stream_sound : forall H oracle retries order loc x rd size st lg b,
  get_or_head oracle retries order loc = {| g_res := GOk x rd size st; g_log := lg |} ->
  hcr_read_all H (fresh st (loc_hash loc)) = (b, EEOF) ->
  H b = loc_hash loc /\
  (forall e, size_hint loc = Some e -> size = e) /\
  slen b = size /\
  (forall c, H c = loc_hash loc -> b = c \/ (b <> c /\ H b = H c)).
Proof. exact get_stream_sound. Qed.
Print Assumptions C03_get_stream_sound.

(* the reader of a successful Get is over the size-checked transported body of a 200 answer of one of the services *)
Theorem C03_get_reads_a_200_answer : forall oracle retries order loc x rd size st lg,
  get_or_head oracle retries order loc = {| g_res := GOk x rd size st; g_log := lg |} ->
  exists declared body cut, oracle x rd = Resp 200 declared body cut /\ st = sized size (transport declared body cut) /\
    (forall n, declared = Some n -> n = size) /\ (forall e, size_hint loc = Some e -> e = size) /\
    (size_hint loc = None -> declared <> None).
Proof. exact get_or_head_ok. Qed.
Print Assumptions C03_get_reads_a_200_answer.

(* the other two entry points of HashCheckingReader, and a partial read followed by Close *)
Theorem C03_writeto_close_sound : forall H st check,
  (forall b, hcr_write_to H (fresh st check) = (b, ENil) -> b = s_bytes st /\ s_term st = TEOF /\ H b = check) /\
  (hcr_close H (fresh st check) = ENil -> s_term st = TEOF /\ H (s_bytes st) = check) /\
  (forall k b r', hcr_read_full H (fresh st check) k = (b, ENil, r') -> hcr_close H r' = ENil ->
     b = take k (s_bytes st) /\ k <= slen (s_bytes st) /\ s_term st = TEOF /\ H (s_bytes st) = check).
Proof. exact writeto_close_sound. Qed.
Print Assumptions C03_writeto_close_sound.

(* every other server behaviour — a stream cut short or of the wrong size, or any stream whose digest is not the
   expected one (flipped, short, long) — ends in a non-EOF error at Read, WriteTo and Close *)
Theorem C03_bad_stream_rejected : forall H st check,
  s_term st <> TEOF \/ H (s_bytes st) <> check ->
  snd (hcr_read_all H (fresh st check)) <> EEOF /\ snd (hcr_write_to H (fresh st check)) <> ENil /\
  hcr_close H (fresh st check) <> ENil.
Proof. exact bad_stream_rejected. Qed.
Print Assumptions C03_bad_stream_rejected.

(* hcr_read_all is what a loop of Read calls delivers (one byte at a time here) *)
Theorem C03_read_loop_is_read_all : forall H fuel r acc,
  slen (s_bytes (h_st r)) - h_pos r < fuel -> h_pos r <= slen (s_bytes (h_st r)) ->
  read_loop H fuel r acc = ((acc ++ fst (hcr_read_all H r))%string, snd (hcr_read_all H r)).
Proof. exact read_loop_all. Qed.
Print Assumptions C03_read_loop_is_read_all.

(* Block cache: data is stored only for a stream that ended in a clean EOF with the locator's digest; the data is
   its first [size] bytes; so for a locator standing for content c the data is c or there is an explicit collision *)
Theorem C03_cache_ok_sound : forall H loc x rd size st d,
  fetch_entry H loc (GOk x rd size st) = EData d ->
  s_term st = TEOF /\ H (s_bytes st) = loc_hash loc /\ size <= slen (s_bytes st) /\ d = take size (s_bytes st) /\
  (forall c, H c = loc_hash loc -> slen c = size -> d = c \/ (s_bytes st <> c /\ H (s_bytes st) = H c)).
Proof. exact cache_ok_sound_full. Qed.
Print Assumptions C03_cache_ok_sound.

(* an entry holding an error is never served: the cache behaves exactly as if the entry were absent (the fetch is
   repeated and replaces it) *)
Theorem C03_cache_never_serves_error : forall i c lg b e0,
  let k := loc_hash (b_loc (blk_of i b)) in
  cache_get i {| cs_cache := (k, EErr e0) :: c; cs_log := lg |} b =
  cache_get i {| cs_cache := filter (fun p => negb (String.eqb (fst p) k)) c; cs_log := lg |} b.
Proof. exact cache_never_serves_error. Qed.
Print Assumptions C03_cache_never_serves_error.

(* ... and after ANY sequence of operations, with any service behaviours, every data entry of the cache is the
   content its key stands for (blocks consistent: digest and size of the locator are those of the content, and no
   byte string collides with the content under H) *)
Theorem C03_cache_holds_only_content : forall i,
  (forall bl, In bl (i_blocks i) -> Cons i bl) -> Forall (op_wf i) (i_ops i) ->
  forall bl d, In bl (i_blocks i) ->
  lookup (cs_cache (snd (run_model i))) (loc_hash (b_loc bl)) = Some (EData d) -> d = b_content bl.
Proof. exact cache_holds_only_content. Qed.
Print Assumptions C03_cache_holds_only_content.

(* BlockCache.ReadAt *)
Theorem C03_readat_bounds : forall d n off,
  (slen d < off -> entry_read_at (EData d) n off = (EmptyString, EUEOF)) /\
  (off <= slen d -> entry_read_at (EData d) n off = (take n (drop off d), ENil) /\
                    slen (take n (drop off d)) = Nat.min n (slen d - off)).
Proof. exact readat_bounds. Qed.
Print Assumptions C03_readat_bounds.

(* storedSegment.ReadAt over a verified block that covers the segment: exactly the bytes
   [offset+off, offset+off+min(n, length-off)) of the block, io.EOF iff more was asked than the segment holds *)
Theorem C03_file_read_is_segment_slice : forall blk se n off,
  sg_offset se + sg_length se <= slen blk ->
  (sg_length se < off -> seg_read_at (entry_read_at (EData blk)) se n off = (EmptyString, EEOF)) /\
  (off <= sg_length se ->
     seg_read_at (entry_read_at (EData blk)) se n off =
       (take (Nat.min n (sg_length se - off)) (drop (sg_offset se + off) blk),
        if sg_length se - off <? n then EEOF else ENil) /\
     slen (take (Nat.min n (sg_length se - off)) (drop (sg_offset se + off) blk)) = Nat.min n (sg_length se - off)).
Proof. exact seg_read_at_slice. Qed.
Print Assumptions C03_file_read_is_segment_slice.

(* ... and a sequential read of a file made of such segments, through the cache and whatever the services do,
   either fails or returns exactly the concatenation of the segment slices of the contents *)
Theorem C03_file_read_is_concatenation : forall i,
  (forall bl, In bl (i_blocks i) -> Cons i bl) ->
  forall segs st off, Forall (seg_ok i) segs -> CacheGood i (cs_cache st) ->
  snd (fst (file_read i st segs off "")) = ENil -> fst (fst (file_read i st segs off "")) = file_bytes i segs off.
Proof. exact file_read_concat. Qed.
Print Assumptions C03_file_read_is_concatenation.

(* error classes of a failed Get *)
Theorem C03_not_found_classes : forall oracle retries order loc,
  (empty_block_loc loc = false -> (forall x, In x order -> exists d b c, oracle x 0 = Resp 404 d b c) ->
     get_or_head oracle retries order loc = {| g_res := GErr ENotFound; g_log := map (fun x => (x, 0)) order |}) /\
  (forall e lg, get_or_head oracle retries order loc = {| g_res := GErr e; g_log := lg |} ->
     e = ENotFound \/ e = ETemp \/ e = EPerm \/ e = ESizeMismatch \/ e = ENoSize).
Proof. exact not_found_classes_full. Qed.
Print Assumptions C03_not_found_classes.

(* The oracle that judges the implementation is met by the model for every input: for every script of service
   behaviours and every operation sequence over consistent blocks, the results of the model's run pass spec_b
   (all four parts: content clauses, all-404 clause, locator clauses, error-class clause). *)
Theorem C03_model_meets_spec : forall i,
  (forall bl, In bl (i_blocks i) -> Cons i bl) -> Forall (op_wf i) (i_ops i) ->
  spec_b {| c_in := i; c_obs := {| ob_res := fst (run_model i); ob_log := cs_log (snd (run_model i));
                                   ob_nreq := run_nreq i; ob_sync := true |} |} = true.
Proof. exact model_meets_spec. Qed.
Print Assumptions C03_model_meets_spec.

(* The locator clauses need no hypothesis at all: whatever the blocks are (size hints that disagree with every
   answer, locators whose hash is no content's digest, an arbitrary digest table, arbitrary scripts with or without
   declared lengths, block indices out of range), every result of the model's run satisfies loc_ok — delivered data has the MD5 and the size that
   appear in the locator, or the read ends in an error. *)
Theorem C03_model_respects_locator_size : forall i, ops_loc_ok i (i_ops i) (fst (run_model i)) = true.
Proof. exact model_loc_ok. Qed.
Print Assumptions C03_model_respects_locator_size.

(* ... and the cache invariant behind it: after any session, a data entry under a key that is used with one size
   hint only (and with no empty-block locator) has that locator's digest and size *)
Theorem C03_cache_holds_locator_size : forall i bl d,
  loc_guard i bl = true -> lookup (cs_cache (snd (run_model i))) (loc_hash (b_loc bl)) = Some (EData d) ->
  H_of i d = loc_hash (b_loc bl) /\ (forall n, size_hint (b_loc bl) = Some n -> slen d = n).
Proof. exact cache_holds_locator_size. Qed.
Print Assumptions C03_cache_holds_locator_size.

(* spec_b is true exactly when the Prop-level specification (proofs/C03_spec.v) holds of the observed results:
   OpSpec = per operation "a read that reports success returned exactly the content's bytes, Close agrees with the
   read, the announced size is the locator's" (consistent blocks); NotFoundSpec = all-404 gives BlockNotFound;
   LocSpec = per operation, for any block: announced size = size hint, a complete successful read has the locator's
   digest and the locator's size, a successful cached read (LocGuard) lies inside the locator's size,
   has the length of the requested slice, and has the locator's digest when it covers the whole block;
   OpsErrSpec = per operation (request log cut by ob_nreq) ErrSpec = ClassSpec of the operation's error against the
   answers to its own requests (judged when the harness could attribute the requests: ob_sync) *)
Theorem C03_spec_b_reflects_Spec : forall c : case,
  spec_b c = true <->
  (Forall2 (OpSpec (c_in c)) (i_ops (c_in c)) (ob_res (c_obs c)) /\ NotFoundSpec (c_in c) (ob_res (c_obs c)) /\
   Forall2 (LocSpec (c_in c)) (i_ops (c_in c)) (ob_res (c_obs c)) /\
   (ob_sync (c_obs c) = true ->
    OpsErrSpec (c_in c) (i_ops (c_in c)) (ob_res (c_obs c)) (ob_nreq (c_obs c)) (ob_log (c_obs c)))).
Proof. exact spec_b_reflects. Qed.
Print Assumptions C03_spec_b_reflects_Spec.

Theorem C03_loc_ok_reflects_LocSpec : forall i o r, loc_ok i o r = true <-> LocSpec i o r.
Proof. exact loc_ok_reflects. Qed.
Print Assumptions C03_loc_ok_reflects_LocSpec.

(* ---- the error class of a failed read ---- *)
(* which answers count as "404" and as "retryable" *)
Theorem C03_answer_classes : forall r,
  (is404b r = true <-> exists d b c, r = Resp 404 d b c) /\
  (retryableb r = true <-> r = ConnErr \/ exists st d b c, r = Resp st d b c /\ (st = 408 \/ st = 429 \/ 500 <= st)%N).
Proof. exact answer_classes. Qed.
Print Assumptions C03_answer_classes.

(* class_ok is exactly: if the probe order has no duplicates then ClassSpec — BlockNotFound only if every service
   answered 404 to one of the operation's requests; temporary only if some service's last answer was retryable;
   permanent only if none was; and BlockNotFound whenever every service's last answer was a 404 *)
Theorem C03_class_ok_reflects_ClassSpec : forall order al e,
  class_ok order al e = true <-> (NoDup order -> ClassSpec order al e).
Proof. exact class_ok_iff. Qed.
Print Assumptions C03_class_ok_reflects_ClassSpec.

(* one call of getOrHead("GET"), any oracle, any number of retries: a failure is classified by the answers to the
   call's own requests (ans_of oracle (g_log ..) = the (service, answer) list in request order).  Behind it: a
   service is asked again in the next round exactly when its answer was retryable, never after a 404, and the 404
   counter counts each service once (proofs/C03_err_proofs.v: Inv, inv_step). *)
Theorem C03_get_or_head_error_class : forall oracle retries order loc e,
  NoDup order -> g_res (get_or_head oracle retries order loc) = GErr e ->
  ClassSpec order (ans_of oracle (g_log (get_or_head oracle retries order loc))) e.
Proof. exact get_or_head_error_class. Qed.
Print Assumptions C03_get_or_head_error_class.

(* the whole session, for every input (no hypothesis): every failed Get / ReadAt / concurrent ReadAt of the model's
   run carries the error class that the answers to its own requests dictate; run_nreq i = the number of requests
   each operation of the run causes *)
Theorem C03_model_respects_error_class : forall i,
  ops_err_ok i (i_ops i) (fst (run_model i)) (run_nreq i) (cs_log (snd (run_model i))) = true.
Proof. exact model_errclass_ok. Qed.
Print Assumptions C03_model_respects_error_class.

(* an instance: service 0 answers 500 then 404, service 1 always 500, Retries = 2.  The model asks 0 1 | 0 1 | 1 and
   reports a temporary error; the clause rejects BlockNotFound for these requests, and also for the request sequence
   0 1 | 0 1 | 0 1 1 of a client whose retry list accumulates over the rounds *)
Theorem C03_error_class_example :
  fst (run_model ex_retry_in) = [RGet ETemp 0 0 "" ENil ENil] /\
  cs_log (snd (run_model ex_retry_in)) = [(0, 0, 0); (0, 1, 0); (0, 0, 1); (0, 1, 1); (0, 1, 2)] /\
  run_nreq ex_retry_in = [5] /\
  err_ok ex_retry_in (OGet 0 MReadAll) (RGet ENotFound 0 0 "" ENil ENil) (cs_log (snd (run_model ex_retry_in))) = false /\
  err_ok ex_retry_in (OGet 0 MReadAll) (RGet ENotFound 0 0 "" ENil ENil)
         [(0, 0, 0); (0, 1, 0); (0, 0, 1); (0, 1, 1); (0, 0, 2); (0, 1, 2); (0, 1, 3)] = false.
Proof. exact error_class_example. Qed.
Print Assumptions C03_error_class_example.

(* what the locator clauses demand of a streaming Get whose ReadAll ended in EOF, spelled out: the bytes have the
   locator's digest; the announced size and the number of bytes delivered are the size hint *)
Theorem C03_spec_get_readall_meaning : forall i b size srv bytes cerr,
  empty_block_loc (b_loc (blk_of i b)) = false ->
  loc_ok i (OGet b MReadAll) (RGet ENil size srv bytes EEOF cerr) = true ->
  H_of i bytes = loc_hash (b_loc (blk_of i b)) /\
  (forall n, size_hint (b_loc (blk_of i b)) = Some n -> size = n /\ slen bytes = n).
Proof. exact spec_get_readall_meaning. Qed.
Print Assumptions C03_spec_get_readall_meaning.

(* ... and of a successful cached read *)
Theorem C03_spec_readat_locator_meaning : forall i b k off bytes n,
  loc_guard i (blk_of i b) = true -> size_hint (b_loc (blk_of i b)) = Some n ->
  loc_ok i (OReadAt b k off) (RRead bytes ENil) = true ->
  off <= n /\ slen bytes = Nat.min k (n - off) /\ (off = 0 -> n <= k -> H_of i bytes = loc_hash (b_loc (blk_of i b))).
Proof. exact spec_readat_loc_meaning. Qed.
Print Assumptions C03_spec_readat_locator_meaning.

(* Every successful delivery has the expected size — for EVERY kind of answer (fix F25): one call of
   getOrHead("GET"), any oracle; ReadAll ending in EOF, WriteTo returning nil, Close returning nil, a partial read
   confirmed by Close, and the block cache's fetch *)
Theorem C03_get_delivers_hint_bytes : forall H oracle retries order loc x rd size st lg,
  get_or_head oracle retries order loc = {| g_res := GOk x rd size st; g_log := lg |} ->
  (forall n, size_hint loc = Some n -> size = n) /\
  (forall b, hcr_read_all H (fresh st (loc_hash loc)) = (b, EEOF) -> slen b = size /\ H b = loc_hash loc) /\
  (forall b, hcr_write_to H (fresh st (loc_hash loc)) = (b, ENil) -> slen b = size /\ H b = loc_hash loc) /\
  (hcr_close H (fresh st (loc_hash loc)) = ENil -> slen (s_bytes st) = size) /\
  (forall k b r', hcr_read_full H (fresh st (loc_hash loc)) k = (b, ENil, r') -> hcr_close H r' = ENil -> k <= size /\ slen b = k) /\
  (forall d, fetch_entry H loc (GOk x rd size st) = EData d -> slen d = size /\ H d = loc_hash loc).
Proof. exact get_delivers_hint_bytes. Qed.
Print Assumptions C03_get_delivers_hint_bytes.

(* the answers of finding F25 in the model of the fixed code: one service answering with the chunked body "foo";
   reads through "acbd18db4cc2f85cedef654fccc4a4d8+5" / "+2" end in the size error (after 3 / 2 bytes), the cache keeps
   nothing; "+3" is served *)
Theorem C03_chunked_wrong_size_rejected :
  fst (run_model (ex_chunked_in "5" (OGet 0 MReadAll))) = [RGet ENil 5 0 "foo" EBadSize EBadSize] /\
  fst (run_model (ex_chunked_in "2" (OGet 0 MReadAll))) = [RGet ENil 2 0 "fo" EBadSize EBadSize] /\
  fst (run_model (ex_chunked_in "5" (OReadAt 0 8 0))) = [RRead "" EBadSize] /\
  fst (run_model (ex_chunked_in "2" (OReadAt 0 8 0))) = [RRead "" EBadSize] /\
  fst (run_model (ex_chunked_in "3" (OReadAt 0 8 0))) = [RRead "foo" ENil].
Proof. exact chunked_wrong_size_rejected. Qed.
Print Assumptions C03_chunked_wrong_size_rejected.

(* REGRESSION WITNESS (finding F25, fixed).  Of the GET loop as it was before the fix (model/C03_old_model.v: the
   HashCheckingReader reads the response body itself) the statement "a ReadAll that ends in EOF delivers as many
   bytes as Get announced" is false: a 200 answer without Content-Length was never compared with the size hint. *)
Theorem C03_old_model_chunked_wrong_size_refuted :
  ~ (forall H oracle retries order loc x rd size st lg b,
       old_get_or_head oracle retries order loc = {| g_res := GOk x rd size st; g_log := lg |} ->
       hcr_read_all H (fresh st (loc_hash loc)) = (b, EEOF) -> slen b = size).
Proof. exact old_model_chunked_wrong_size. Qed.
Print Assumptions C03_old_model_chunked_wrong_size_refuted.

(* the witness: the old loop hands out the raw 3-byte stream for "...+5" (ReadAll = "foo", EOF) and lets the cache
   keep "fo" for "...+2"; the model of the fixed code ends the same calls in the size error *)
Theorem C03_old_model_chunked_wrong_size_witness :
  g_res (old_get_or_head ex_chunked_oracle 0 [0] (ex_foo_hash ++ "+5")%string) = GOk 0 0 5 (transport None "foo" false) /\
  hcr_read_all ex_H (fresh (transport None "foo" false) ex_foo_hash) = ("foo"%string, EEOF) /\
  fetch_entry ex_H (ex_foo_hash ++ "+2")%string (g_res (old_get_or_head ex_chunked_oracle 0 [0] (ex_foo_hash ++ "+2")%string)) = EData "fo" /\
  g_res (get_or_head ex_chunked_oracle 0 [0] (ex_foo_hash ++ "+5")%string) = GOk 0 0 5 {| s_bytes := "foo"; s_term := TSIZE |} /\
  hcr_read_all ex_H (fresh {| s_bytes := "foo"; s_term := TSIZE |} ex_foo_hash) = ("foo"%string, EBadSize) /\
  fetch_entry ex_H (ex_foo_hash ++ "+2")%string (g_res (get_or_head ex_chunked_oracle 0 [0] (ex_foo_hash ++ "+2")%string)) = EErr EBadSize.
Proof. exact old_model_chunked_witness. Qed.
Print Assumptions C03_old_model_chunked_wrong_size_witness.

(* what the content clauses of spec_b demand of a successful cached read, spelled out *)
Theorem C03_spec_readat_meaning : forall i b n off bytes,
  b_consistent (blk_of i b) = true ->
  op_ok i (OReadAt b n off) (RRead bytes ENil) = true ->
  off <= slen (b_content (blk_of i b)) /\ bytes = take n (drop off (b_content (blk_of i b))).
Proof. exact spec_readat_meaning. Qed.
Print Assumptions C03_spec_readat_meaning.

(* the hypotheses are satisfiable: a session in which a corrupted answer is refused and not cached *)
Theorem C03_hypotheses_satisfiable :
  (forall bl, In bl (i_blocks ex_in) -> Cons ex_in bl) /\ Forall (op_wf ex_in) (i_ops ex_in) /\
  fst (run_model ex_in) = [RRead "" EBadChecksum; RRead "ell" ENil; RRead "hello" ENil].
Proof. exact hypotheses_satisfiable. Qed.
Print Assumptions C03_hypotheses_satisfiable.
