(* C07 — block signatures: property theorems only.  Each is closed by `exact` of a lemma from
   proofs/C07_*.v.  Model: model/C07_model.v (sign_locator, parse_signed, verify, sign_manifest,
   get_gate; times explicit: exp = expiry in seconds, now = time.Now() in ns, ttl in ns).
   Cryptography: nothing is assumed about HMAC-SHA1; where "different input => different
   signature" is needed the conclusion carries an explicit collision disjunct. *)
From Coq Require Import NArith List String Ascii Bool.
From AV Require Import lib.Str lib.Sha1 lib.TokSplit model.C07_model model.C07_run
     proofs.C07_msg proofs.C07_parse proofs.C07_verify proofs.C07_manifest proofs.C07_spec proofs.C07_examples.
Import ListNotations.
Local Open Scope string_scope.

(* The recogniser used by the model accepts exactly the language of SignedLocatorRe
     ^(xdigit{32})(\+[0-9]+)?(HINT* )(\+A(xdigit{40})@(xdigit{8}))(HINT* )$   HINT = \+[B-Z][A-Za-z0-9@_-]*
   and returns groups 1, 6, 7.  plus_fields [f1;..;fn] = "+f1+...+fn". *)
Theorem C07_parse_signed_is_regexp : forall loc h sg e,
  parse_signed loc = Some (h, sg, e) <->
  exists szl hs1 hs2,
    (szl = [] \/ exists sz, szl = [sz] /\ is_size sz = true) /\
    Forall (fun f => is_hint f = true) hs1 /\ Forall (fun f => is_hint f = true) hs2 /\
    (String.length h = 32 /\ all_chars is_xdigit h = true) /\
    (String.length sg = 40 /\ all_chars is_xdigit sg = true) /\
    (String.length e = 8 /\ all_chars is_xdigit e = true) /\
    loc = h ++ plus_fields (szl ++ hs1 ++ [("A" ++ sg ++ "@" ++ e)%string] ++ hs2)%list.
Proof. exact parse_signed_shape. Qed.
Print Assumptions C07_parse_signed_is_regexp.

(* signed_shape loc h sg e (proofs/C07_parse.v) is the right-hand side above. *)

(* A locator h[+size][+hints] signed for (token, expiry, ttl, key) verifies with the same token,
   ttl and key at any time up to the expiry. *)
Theorem C07_sign_then_verify : forall loc h tok exp ttl key now,
  (exists szl hs, (szl = [] \/ exists sz, szl = [sz] /\ is_size sz = true) /\
                  Forall (fun f => is_hint f = true) hs /\
                  (String.length h = 32 /\ all_chars is_xdigit h = true) /\
                  loc = h ++ plus_fields (szl ++ hs)%list) ->
  key <> "" -> tok <> "" -> (exp < 4294967296)%N -> (now <= exp * 1000000000)%N ->
  verify (sign_locator loc tok exp ttl key) tok ttl key now = VOk.
Proof. exact sign_then_verify. Qed.
Print Assumptions C07_sign_then_verify.

(* Verification succeeds if and only if the locator has the regexp's shape, its expiry has not
   passed, and its signature field is the HMAC of exactly (hash, presented token, expiry field,
   ttl) under the presented key. *)
Theorem C07_verify_iff : forall loc tok ttl key now,
  verify loc tok ttl key now = VOk <->
  exists h sg e ts, signed_shape loc h sg e /\ hexnum e = Some ts /\ (now <= ts * 1000000000)%N /\
                    sg = hmac_sha1_hex key (h ++ "@" ++ tok ++ "@" ++ e ++ "@" ++ hexn (ttl / 1000000000)).
Proof. exact verify_ok_iff. Qed.
Print Assumptions C07_verify_iff.

(* A well-formed signature whose expiry has passed is reported as expired, whatever the signature,
   token, ttl and key are ... *)
Theorem C07_expired_before_invalid : forall loc h sg e ts tok ttl key now,
  signed_shape loc h sg e -> hexnum e = Some ts -> (ts * 1000000000 < now)%N ->
  verify loc tok ttl key now = VExpired.
Proof. exact expired_before_invalid. Qed.
Print Assumptions C07_expired_before_invalid.

(* ... and only then *)
Theorem C07_expired_iff : forall loc tok ttl key now,
  verify loc tok ttl key now = VExpired <->
  exists h sg e ts, signed_shape loc h sg e /\ hexnum e = Some ts /\ ~ (now <= ts * 1000000000)%N.
Proof. exact verify_expired_iff. Qed.
Print Assumptions C07_expired_iff.

(* Everything else is Missing (not of the regexp's shape) or Invalid (shape fine, unexpired, wrong
   signature). *)
Theorem C07_missing_or_invalid_otherwise : forall loc tok ttl key now,
  ~ (exists h sg e ts, signed_shape loc h sg e /\ hexnum e = Some ts /\ (now <= ts * 1000000000)%N /\
                       sg = make_sig key h tok e (ttl_hex ttl)) ->
  ~ (exists h sg e ts, signed_shape loc h sg e /\ hexnum e = Some ts /\ ~ (now <= ts * 1000000000)%N) ->
  (verify loc tok ttl key now = VMissing /\ forall h sg e, ~ signed_shape loc h sg e) \/
  (verify loc tok ttl key now = VInvalid /\
   exists h sg e ts, signed_shape loc h sg e /\ hexnum e = Some ts /\ (now <= ts * 1000000000)%N /\
                     sg <> make_sig key h tok e (ttl_hex ttl)).
Proof. exact missing_or_invalid_otherwise. Qed.
Print Assumptions C07_missing_or_invalid_otherwise.

Theorem C07_missing_iff : forall loc tok ttl key now,
  verify loc tok ttl key now = VMissing <-> forall h sg e, ~ signed_shape loc h sg e.
Proof. exact verify_missing_iff. Qed.
Print Assumptions C07_missing_iff.

(* hash@token@expiry@ttl determines its four fields (tokens may contain '@' and '+') *)
Theorem C07_msg_injective : forall h t e l h' t' e' l',
  String.length h = String.length h' ->
  has_char "@" e = false -> has_char "@" l = false -> has_char "@" e' = false -> has_char "@" l' = false ->
  sig_msg h t e l = sig_msg h' t' e' l' -> h = h' /\ t = t' /\ e = e' /\ l = l'.
Proof. exact msg_injective. Qed.
Print Assumptions C07_msg_injective.

(* Perturbations.  sg is a signature made for (key, h, tok, e, ttl).  A presentation loc' (of the
   regexp's shape, with fields h', sg', e') with tok', ttl', key' that keeps the signature field but
   changes any signed field -- hash, token, expiry field, ttl (in whole seconds) or key -- or keeps all
   signed fields but changes the signature field, is not accepted; the only alternative is that the two
   (key, message) pairs are an explicit HMAC-SHA1 collision.  (A presentation not of the regexp's shape,
   e.g. with the signature removed, is Missing by C07_missing_iff.) *)
Theorem C07_perturbation_rejected : forall key h tok e ttl loc' tok' ttl' key' now h' sg' e',
  String.length h = 32 -> has_char "@" e = false ->
  signed_shape loc' h' sg' e' ->
  let sg := make_sig key h tok e (ttl_hex ttl) in
  let same_fields := key' = key /\ h' = h /\ tok' = tok /\ e' = e /\ ttl_hex ttl' = ttl_hex ttl in
  (sg' = sg /\ ~ same_fields) \/ (sg' <> sg /\ same_fields) ->
  verify loc' tok' ttl' key' now <> VOk \/
  ((key, sig_msg h tok e (ttl_hex ttl)) <> (key', sig_msg h' tok' e' (ttl_hex ttl')) /\
   hmac_sha1_hex key (sig_msg h tok e (ttl_hex ttl)) = hmac_sha1_hex key' (sig_msg h' tok' e' (ttl_hex ttl'))).
Proof. exact perturbation_rejected. Qed.
Print Assumptions C07_perturbation_rejected.

(* changing the signature field alone is rejected outright (no collision alternative) *)
Theorem C07_signature_change_rejected : forall key h tok e ttl loc' now sg',
  String.length h = 32 -> has_char "@" e = false ->
  signed_shape loc' h sg' e -> sg' <> make_sig key h tok e (ttl_hex ttl) ->
  verify loc' tok ttl key now <> VOk.
Proof. exact signature_change_rejected. Qed.
Print Assumptions C07_signature_change_rejected.

(* the ttl enters the signature as its number of whole seconds, printed injectively *)
Theorem C07_ttl_field_injective : forall a b, ttl_hex a = ttl_hex b -> (a / 1000000000 = b / 1000000000)%N.
Proof. exact ttl_hex_inj. Qed.
Print Assumptions C07_ttl_field_injective.

(* the signature is 40 lowercase hexadecimal digits *)
Theorem C07_sig_is_lowercase_hex40 : forall key h tok e l,
  String.length (make_sig key h tok e l) = 40 /\ all_chars is_lhex (make_sig key h tok e l) = true.
Proof. exact sig_hex40. Qed.
Print Assumptions C07_sig_is_lowercase_hex40.

(* Go's SignLocator equals the API server's Blob.sign_locator from expiry 2^28 on (below, Go pads the
   expiry to eight digits and Rails does not: Example go_rails_differ_below_2_28) *)
Theorem C07_go_equals_rails : forall loc tok exp ttl key,
  key <> "" -> tok <> "" -> (268435456 <= exp)%N ->
  rails_sign_locator loc tok exp (ttl / 1000000000)%N key = sign_locator loc tok exp ttl key.
Proof. exact go_equals_rails. Qed.
Print Assumptions C07_go_equals_rails.

(* SignManifest.  chunks m = the maximal runs of blank (false) / non-blank (true) characters of m;
   their concatenation is m; blank runs are copied, tokens are mapped through sign_tok. *)
Theorem C07_sign_manifest_shape : forall m tokn exp ttl key,
  sign_manifest m tokn exp ttl key =
    concat_s (map (fun ch : bool * string => if fst ch then sign_tok_k make_sig tokn exp ttl key (snd ch) else snd ch) (chunks m)) /\
  concat_s (map snd (chunks m)) = m /\
  Forall (fun ch => snd ch <> "" /\ all_chars (fun c => Bool.eqb (negb (is_ws c)) (fst ch)) (snd ch) = true) (chunks m) /\
  alternating (chunks m).
Proof. exact sign_manifest_shape. Qed.
Print Assumptions C07_sign_manifest_shape.

(* a token that does not begin with 32 lowercase hex digits (stream name, file token) is unchanged *)
Theorem C07_sign_manifest_other_tokens : forall tokn exp ttl key t,
  is_blk t = false -> sign_tok_k make_sig tokn exp ttl key t = t.
Proof. exact not_blk_unchanged. Qed.
Print Assumptions C07_sign_manifest_other_tokens.

(* a block token keeps its first field and every hint not starting with A, in order; all +A hints
   are gone; exactly one new +A hint is appended *)
Theorem C07_sign_manifest_block_token : forall tokn exp ttl key t,
  is_blk t = true -> key <> "" -> tokn <> "" ->
  let e := hex08 exp in
  let sg := make_sig key (hd "" (nonA_fields t)) tokn e (ttl_hex ttl) in
  split_on "+" (sign_tok_k make_sig tokn exp ttl key t) = (nonA_fields t ++ [("A" ++ sg ++ "@" ++ e)%string])%list /\
  Forall (fun f => is_Afield f = false) (tl (nonA_fields t)).
Proof. exact sign_tok_fields. Qed.
Print Assumptions C07_sign_manifest_block_token.

(* ... and that signature verifies when what remains is a well-formed unsigned locator *)
Theorem C07_sign_manifest_verifies : forall tokn exp ttl key t h now,
  is_blk t = true -> key <> "" -> tokn <> "" -> unsigned_shape (strip_sigs t) h ->
  (exp < 4294967296)%N -> (now <= exp * 1000000000)%N ->
  verify (sign_tok_k make_sig tokn exp ttl key t) tokn ttl key now = VOk.
Proof. exact sign_tok_verifies. Qed.
Print Assumptions C07_sign_manifest_verifies.

(* keepstore GET with blob signing on: volume access only behind an accepted signature for the
   requesting token; expired => 401; anything else => 403 *)
Theorem C07_keepstore_get_gate : forall path auth ttl key now,
  match get_gate true path auth ttl key now with
  | GVolume h => route_get path = Some h /\ accepts (drop 1 path) (api_token auth) ttl key now
  | GDeny c => (c = 401%N /\ wf_expired (drop 1 path) now) \/
               (c = 403%N /\ ~ accepts (drop 1 path) (api_token auth) ttl key now /\ ~ wf_expired (drop 1 path) now)
  | GBadRequest => route_get path = None
  | GRemote => contains "+R" (drop 1 path) = true /\ contains "+A" (drop 1 path) = false
  end.
Proof. exact keepstore_get_gate. Qed.
Print Assumptions C07_keepstore_get_gate.

Theorem C07_keepstore_data_only_if_valid : forall path auth ttl key now stored,
  get_status (get_gate true path auth ttl key now) stored = Some 200%N ->
  exists h sg e ts, signed_shape (drop 1 path) h sg e /\ hexnum e = Some ts /\ (now <= ts * 1000000000)%N /\
                    sg = make_sig key h (api_token auth) e (ttl_hex ttl).
Proof. exact keepstore_data_only_if_valid. Qed.
Print Assumptions C07_keepstore_data_only_if_valid.

(* The evaluator: the boolean specification used on the implementation's observations reflects the
   statements above, the signature table is transparent, and the model satisfies the specification. *)
Theorem C07_spec_verify_reflects : forall loc tok ttl key now o,
  spec_verify_k make_sig loc tok ttl key now o = true <->
  ((o = VOk <-> accepts loc tok ttl key now) /\ (o = VExpired <-> wf_expired loc now)).
Proof. exact spec_verify_reflects. Qed.
Print Assumptions C07_spec_verify_reflects.

Theorem C07_spec_get_reflects : forall signing path auth ttl key now stored code body_ok,
  spec_get_k make_sig signing path auth ttl key now stored code body_ok = true <->
  GetSpec signing path auth ttl key now stored code body_ok.
Proof. exact spec_get_reflects. Qed.
Print Assumptions C07_spec_get_reflects.

Theorem C07_check_case_eq : forall c, check_case c = code_of (model_b c) (spec_b c).
Proof. exact check_case_eq. Qed.
Print Assumptions C07_check_case_eq.

(* The hypotheses above are satisfiable (checked by computation in proofs/C07_examples.v): *)
Theorem C07_hypotheses_satisfiable :
  (unsigned_shape ex_loc ex_h /\ "key" <> "" /\ "a@b+c" <> "" /\ (1600000000 < 4294967296)%N /\
   (1599999999000000000 <= 1600000000 * 1000000000)%N /\
   verify ex_signed "a@b+c" 1209600000000000 "key" 1599999999000000000 = VOk) /\
  (signed_shape ex_perturbed ex_h ex_sig "6f5e1000" /\
   (ex_sig = ex_sig /\ ~ ("key" = "key" /\ ex_h = ex_h /\ "a@b+c" = "a@b+c" /\ "6f5e1000" = "5f5e1000" /\
                          ttl_hex 1209600000000000 = ttl_hex 1209600000000000)) /\
   verify ex_perturbed "a@b+c" 1209600000000000 "key" 1599999999000000000 = VInvalid).
Proof. exact (conj sign_then_verify_instance perturbation_instance). Qed.
Print Assumptions C07_hypotheses_satisfiable.

Theorem C07_model_meets_spec :
  (forall loc tok ttl key now, spec_verify_k make_sig loc tok ttl key now (verify loc tok ttl key now) = true) /\
  (forall loc tok exp ttl key, spec_sign_k make_sig loc tok exp ttl key (sign_locator loc tok exp ttl key) = true) /\
  (forall m tokn exp ttl key, spec_manifest_k make_sig m tokn exp ttl key (sign_manifest m tokn exp ttl key) = true).
Proof. exact (conj model_verify_meets_spec (conj model_sign_meets_spec model_manifest_meets_spec)). Qed.
Print Assumptions C07_model_meets_spec.

(* the evaluator's "perturbation rejected" clause can fail on the model's verdict only through an
   explicit HMAC-SHA1 collision *)
Theorem C07_model_pert_meets_spec : forall key h tok e ttl p now,
  String.length h = 32 -> has_char "@" e = false ->
  p_obs p = verify (p_loc p) (p_tok p) (p_ttl p) (p_key p) now ->
  spec_pert_b (key, h, tok, e, ttl_hex ttl) (make_sig key h tok e (ttl_hex ttl)) p = false ->
  exists h' e', hmac_collision key (sig_msg h tok e (ttl_hex ttl)) (p_key p) (sig_msg h' (p_tok p) e' (ttl_hex (p_ttl p))).
Proof. exact model_pert_meets_spec. Qed.
Print Assumptions C07_model_pert_meets_spec.
