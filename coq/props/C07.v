(* C07 — property theorems only.  Each is closed by `exact` of a lemma from proofs/C07_*.v. *)
From Coq Require Import NArith List String Ascii Bool.
From AV Require Import lib.Str lib.Sha1 lib.TokSplit model.C07_model proofs.C07_msg.
Import ListNotations.
Local Open Scope string_scope.

(* hash@token@expiry@ttl determines its four fields (tokens may contain '@' and '+') *)
Theorem C07_msg_injective : forall h t e l h' t' e' l',
  String.length h = String.length h' ->
  has_char "@" e = false -> has_char "@" l = false -> has_char "@" e' = false -> has_char "@" l' = false ->
  sig_msg h t e l = sig_msg h' t' e' l' -> h = h' /\ t = t' /\ e = e' /\ l = l'.
Proof. exact msg_injective. Qed.
Print Assumptions C07_msg_injective.
