(* C14 — the dispatcher never runs a container twice at once or without holding its lock.
   Property theorems only; each is closed by `exact` of a lemma from proofs/C14_*.v / proofs/C16_runq.v.
   Models: model/C16_runq.v (runQueue), model/C14_sync.v (sync), model/C14_pool.v (worker.Pool, worker,
   remoteRunner bookkeeping), model/C14_sys.v (transition system: the scheduler pass instantiated with
   that pool + VMs/processes/probes/start commands), model/C14_e2e_run.v (judge of end-to-end logs).
   Every model function used below is compared with the Go code by the harness stages runq, sync, wp. *)
From Coq Require Import List ZArith Bool NArith.
From AV Require Import model.C16_runq model.C14_sync model.C14_sync_run model.C14_pool model.C14_sys
                       proofs.C16_runq proofs.C14_sync proofs.C14_pool proofs.C14_sys proofs.C14_thms.
From AV Require model.C14_e2e_run proofs.C14_e2e model.C14_wp_run proofs.C14_wp.
Import ListNotations.
Local Open Scope Z_scope.

(* ------------------------------------------------------------------------------------------------ *)
(* runQueue, for an arbitrary pool behaviour                                                        *)
Section Pool.
Variable P : Type.
Variable p_quota : P -> bool * P.
Variable p_kill p_create : N -> P -> bool * P.
Variable p_start : N -> N -> P -> bool * P.
Variable running : list N.   (* keys of pool.Running() *)
Notation rq := (run_queue_sorted P p_quota p_kill p_create p_start running).

(* a process is started only for a container that the queue cache shows Locked with priority >= 1 and
   that pool.Running() does not report (hence never for a running, cancelled, completed, held or
   re-queued one) *)
Theorem C14_start_only_locked_positive : forall sorted u0 p it u r,
  In (EStart it u r) (r_log (rq sorted u0 p)) ->
  exists e, In e sorted /\ e_uuid e = u /\ e_it e = it /\ e_state e = Locked /\ 1 <= e_prio e /\ memN u running = false.
Proof. exact (rq_start_only_locked_positive P p_quota p_kill p_create p_start running). Qed.

(* leftovers are killed before (re)starting: StartContainer is called only immediately after
   KillContainer(uuid) answered "no such process" *)
Theorem C14_kill_before_start : forall sorted u0 p a it u r b,
  r_log (rq sorted u0 p) = a ++ EStart it u r :: b -> exists a', a = a' ++ [EKill u false].
Proof. exact (rq_kill_before_start P p_quota p_kill p_create p_start running). Qed.

(* ... and before locking: lockContainer is spawned only for Queued, priority >= 1 containers without a
   known process after KillContainer answered false *)
Theorem C14_lock_only_queued : forall sorted u0 p u,
  In u (r_locks (rq sorted u0 p)) ->
  exists e, In e sorted /\ e_uuid e = u /\ e_state e = Queued /\ 1 <= e_prio e /\ memN u running = false /\
            In (EKill u false) (r_log (rq sorted u0 p)).
Proof. exact (rq_lock_only_queued P p_quota p_kill p_create p_start running). Qed.
End Pool.
Print Assumptions C14_start_only_locked_positive.
Print Assumptions C14_kill_before_start.
Print Assumptions C14_lock_only_queued.

(* ------------------------------------------------------------------------------------------------ *)
(* the pass over the real pool model                                                                *)

(* nothing that Pool.Running() reports (starting, running, or exited and not yet forgotten) is started *)
Theorem C14_run_queue_skips_running : forall sorted e it u r,
  In (EStart it u r) (r_log (sched_pass sorted e)) -> ~ In u (map fst (pool_running (pe_pool e))).
Proof. exact run_queue_skips_running. Qed.
Print Assumptions C14_run_queue_skips_running.

(* containers are started only on instances that are idle with IdleBehavior run: never held, draining,
   booting, unknown or shut down *)
Theorem C14_start_only_idle_run_workers : forall it u p id p',
  pool_start it u p = (Some id, p') ->
  exists w, In w (p_workers p) /\ w_id w = id /\ w_st w = WIdle /\ w_ib w = IRun /\ w_it w = it.
Proof. exact start_only_idle_run_workers. Qed.
Print Assumptions C14_start_only_idle_run_workers.

(* ------------------------------------------------------------------------------------------------ *)
(* sync                                                                                             *)

(* cancelled / completed / re-queued / on hold with a lingering live process => that process is killed
   (and by C14_start_only_locked_positive / C14_run_queue_skips_running it is not restarted) *)
Theorem C14_finished_is_killed_not_restarted : forall ents running unknown qupd latch e,
  In e ents -> rlook (e_uuid e) running = Some 0 ->
  (e_state e = Complete \/ e_state e = Cancelled \/ e_state e = Queued \/
   (e_prio e = 0 /\ (e_state e = Running \/ e_state e = Locked))) ->
  memN (e_uuid e) latch = false ->
  In (AKill (e_uuid e)) (sync ents running unknown qupd latch).
Proof. exact finished_is_killed. Qed.
Print Assumptions C14_finished_is_killed_not_restarted.

(* a process whose container is not in the queue at all is killed *)
Theorem C14_orphan_killed : forall ents running unknown qupd latch u t,
  rlook u running = Some t -> ~ In u (map e_uuid ents) -> memN u latch = false ->
  In (AKill u) (sync ents running unknown qupd latch).
Proof. exact orphan_killed. Qed.
Print Assumptions C14_orphan_killed.

(* per-container operation latch: no cancel/kill/requeue while another operation on that uuid is in flight *)
Theorem C14_latch_exclusive : forall ents running unknown qupd latch a,
  In a (sync ents running unknown qupd latch) -> memN (act_uuid a) latch = true -> exists u, a = AForget u.
Proof. exact latch_exclusive. Qed.
Print Assumptions C14_latch_exclusive.

Theorem C14_one_action_per_entry : forall running unknown qupd e, (List.length (sync_ent running unknown qupd e) <= 1)%nat.
Proof. exact one_action_per_entry. Qed.
Print Assumptions C14_one_action_per_entry.

(* F21 (fixed in /repo dbd540e + c30ecc5): a requeue goroutine unlocks only a container that queue.Get shows
   Locked when it runs AND whose reason still holds then: pool.Running() reports an exited crunch-run, or
   reports nothing and the priority is 0 *)
Theorem C14_requeue_rechecks_queue_and_reason : forall acts now run_now u,
  In u (sync_unlocks acts now run_now) ->
  (exists p, nlook u now = Some (Locked, p)) /\
  ((exists t, rlook u run_now = Some t /\ t <> 0) \/ (rlook u run_now = None /\ exists st p, nlook u now = Some (st, p) /\ p <= 0)).
Proof. exact requeue_rechecks. Qed.
Print Assumptions C14_requeue_rechecks_queue_and_reason.

(* a container that was re-locked after its old process had been forgotten is left alone ... *)
Theorem C14_requeue_relocked_left_alone : sync_unlocks [ARequeue 7] [(7%N, (Locked, 5))] [] = [].
Proof. exact requeue_relocked_left_alone. Qed.
Print Assumptions C14_requeue_relocked_left_alone.

(* ... regression witness about the OLD model: before those commits the decision was executed as it was *)
Theorem C14_requeue_old_model_regression_witness : sync_unlocks_old [ARequeue 7] = [7%N].
Proof. exact requeue_old_model_unlocked_relocked. Qed.
Print Assumptions C14_requeue_old_model_regression_witness.

(* the boolean specification of the sync stage is the Prop-level one, and the model meets it *)
Theorem C14_sync_spec_reflects : forall c, C14_sync_run.spec_b c = true <-> SyncSpec c.
Proof. exact sync_spec_reflects. Qed.
Print Assumptions C14_sync_spec_reflects.

Theorem C14_sync_meets_spec : forall ents running unknown qupd latch now run_now,
  SyncSpec (model_obs ents running unknown qupd latch now run_now).
Proof. exact sync_meets_spec. Qed.
Print Assumptions C14_sync_meets_spec.

(* ------------------------------------------------------------------------------------------------ *)
(* container.Queue: Update does not clobber local lock/unlock/cancel results received during a poll  *)
From AV Require Import model.C14_queue proofs.C14_queue.

Theorem C14_queue_no_clobber : forall next cur u v old,
  clook u cur = Some old ->
  let '(cur', dont) := with_resp (Some (u, v)) cur (Some []) in
  clook u (update_end next cur' (match dont with Some d => d | None => [] end)) = Some v.
Proof. exact no_clobber. Qed.
Print Assumptions C14_queue_no_clobber.

Theorem C14_queue_update_end_keeps_local : forall next cur dont u,
  memN u dont = true -> clook u (update_end next cur dont) = clook u cur.
Proof. exact update_end_keeps_local. Qed.
Print Assumptions C14_queue_update_end_keeps_local.

(* ... and without a local change the cache takes the polled record *)
Theorem C14_queue_update_end_takes_poll : forall next cur u v,
  clook u next = Some v -> NoDup (map fst next) -> clook u (update_end next cur []) = Some v.
Proof. exact update_end_takes_poll. Qed.
Print Assumptions C14_queue_update_end_takes_poll.

(* ------------------------------------------------------------------------------------------------ *)
(* the transition system: [run c labels (init_sys create)] executes ANY sequence of
   scheduler passes on arbitrary queue contents / start commands returning / probes beginning and ending /
   processes exiting / kills / give-ups / idle-behaviour changes / shutdowns / sweeps / cloud listings /
   instances vanishing / dispatcher restarts.  A label whose environment guard fails makes [run] return
   None; the guards are the assumptions A1-A6 written in model/C14_sys.v:
     A1 an instance that is gone has no processes; A2 (stale locks) a pass does not start a container that
     still has a process on an instance the pool has not discovered yet; A3 an instance given up by boot
     timeout without ever having answered a probe runs no unknown process; A4 cloud listings are complete;
     A5 probes and start commands of a replaced dispatcher die with it; A6 new instances run nothing.   *)

(* the inductive invariant is preserved by every step *)
Theorem C14_step_preserves_invariant : forall c l s s', Inv s -> step c l s = Some s' -> Inv s'.
Proof. exact step_inv. Qed.
Print Assumptions C14_step_preserves_invariant.

(* mutual exclusion: in every reachable state no uuid occurs twice among all live crunch-run processes
   of all VMs and all start commands in flight (not on two instances, not twice on one) *)
Theorem C14_mutual_exclusion : forall c create ls s,
  run c ls (init_sys create) = Some s ->
  NoDup (flat_map v_procs (s_vms s) ++ flat_map (fun w => map ru (w_starting w)) (p_workers (pe_pool (s_env s)))).
Proof. exact mutual_exclusion. Qed.
Print Assumptions C14_mutual_exclusion.

(* bookkeeping covers processes: a live process on an instance whose worker is known and not Unknown is
   in that worker's starting/running set, hence reported by Pool.Running() *)
Theorem C14_bookkeeping_covers_processes : forall c create ls s v w u,
  run c ls (init_sys create) = Some s ->
  In v (s_vms s) -> find_w (v_id v) (p_workers (pe_pool (s_env s))) = Some w -> w_st w <> WUnknown ->
  In u (v_procs v) -> In u (map ru (w_starting w) ++ map ru (w_running w)).
Proof. exact bookkeeping_covers_processes. Qed.
Print Assumptions C14_bookkeeping_covers_processes.

(* the system is not vacuous: create, boot, start container 7, restart, rediscover, schedule again: one process *)
Theorem C14_demo_run :
  match run cfg0 demo_run (init_sys [0%N]) with
  | Some s => all_procs s = [7%N] /\ map (fun w => (w_id w, w_st w, wbook w)) (p_workers (spool s)) = [(1%N, WRunning, [7%N])]
  | None => False
  end.
Proof. exact demo_run_ok. Qed.
Print Assumptions C14_demo_run.

(* what A2 excludes: right after a restart, before the old process is rediscovered, a pass on the same
   Locked entry is not a step (the code relies on fixStaleLocks + the stale-lock timeout here) *)
Theorem C14_restart_needs_A2 :
  match run cfg0 [LSched [ent1]; LProbeBegin 1 true true false false; LProbeEnd 1; LSched [ent1]; LLands 1 7 true;
                  LSched [mkent 8 Locked 4 0]; LProbeBegin 2 true true false false; LProbeEnd 2;
                  LRestart; LPoolSync []; LProbeBegin 2 true true false false; LProbeEnd 2] (init_sys [0%N; 0%N]) with
  | Some s => step cfg0 (LSched [ent1]) s = None /\ undiscovered s 7 = true
  | None => False
  end.
Proof. exact restart_needs_A2. Qed.
Print Assumptions C14_restart_needs_A2.

(* ------------------------------------------------------------------------------------------------ *)
(* evaluators of the worker stage and of the end-to-end stage                                        *)
Import C14_wp_run C14_wp.
(* the judge of the worker stage is what it says: per step (StartContainer only on an instance shown idle with
   IdleBehavior run, never on one this pool has shown shut down, never while a process of the container is alive
   on a discovered instance; a failed Create leaves Unallocated() unchanged; at most one live process per
   container on discovered instances) and over a whole sequence *)
Theorem C14_wp_step_ok_spec : forall shut disc sb prev o ob,
  C14_wp_run.step_ok shut disc sb prev o ob = true <-> step_P shut disc sb prev o ob.
Proof. exact wp_step_ok_spec. Qed.
Print Assumptions C14_wp_step_ok_spec.

Theorem C14_wp_spec_steps_spec : forall steps shut disc sb prev,
  spec_steps shut disc sb prev steps = true <-> spec_P shut disc sb prev steps.
Proof. exact wp_spec_steps_spec. Qed.
Print Assumptions C14_wp_spec_steps_spec.

(* which instances the judge carries as "shut down by this pool" *)
Theorem C14_wp_next_shut_spec : forall shut o ob i,
  In i (next_shut shut o ob) <->
  o <> ORestart /\ ((exists ib la de, In (i, 4%N, ib, la, de) (ob_inst ob)) \/ (In i shut /\ In i (inst_ids ob))).
Proof. exact wp_next_shut_spec. Qed.
Print Assumptions C14_wp_next_shut_spec.

(* StateShutdown is terminal in the pool model: no operation of the stage other than replacing the pool takes
   an instance out of it (instance ids unique; the cloud hands out fresh ids) *)
Theorem C14_shutdown_is_terminal : forall c o m i,
  o <> ORestart -> fresh_create o (ms_pool m) -> NoDup (ids (ms_pool m)) ->
  shut_id i (ms_pool m) -> only_shut i (ms_pool (snd (apply_op c o m))).
Proof. exact shutdown_is_terminal. Qed.
Print Assumptions C14_shutdown_is_terminal.

(* a sequence on which implementation and model agree satisfies every clause of the judge that speaks about the
   pool (start only on idle/run and never-shut-down instances, failed Create leaves Unallocated unchanged, a sync
   keeps what has appeared since its list request was issued); the full specification implies those clauses *)
Theorem C14_wp_model_satisfies_pool_clauses : forall cs,
  fresh_ids empty_obs (wc_steps cs) -> model_b cs = true -> pool_clauses [] None empty_obs (wc_steps cs).
Proof. exact wp_model_satisfies_pool_clauses. Qed.
Print Assumptions C14_wp_model_satisfies_pool_clauses.

Theorem C14_wp_spec_implies_pool_clauses : forall steps shut disc sb prev,
  spec_P shut disc sb prev steps -> pool_clauses shut sb prev steps.
Proof. exact wp_spec_implies_pool_clauses. Qed.
Print Assumptions C14_wp_spec_implies_pool_clauses.

(* the instance-list sync: Pool.sync with the threshold taken when the list request is issued.  It never drops a
   worker updated after that threshold (whatever the answer of the cloud says), the ordinary sync is the case
   "threshold taken immediately before", and an instance the pool creates carries a stamp later than any
   threshold taken before: a sync whose list request was in flight during the Create keeps the new worker *)
Theorem C14_sync_at_keeps_fresh : forall c th listed p w,
  th <= p_clock p -> In w (p_workers p) -> th < w_updated w -> In (w_id w) (ids (pool_sync_at c th listed p)).
Proof. exact sync_at_keeps_fresh. Qed.
Print Assumptions C14_sync_at_keeps_fresh.

Theorem C14_pool_sync_is_sync_at : forall c listed p,
  pool_sync c listed p = pool_sync_at c (fst (tick p)) listed (snd (tick p)).
Proof. exact pool_sync_is_sync_at. Qed.
Print Assumptions C14_pool_sync_is_sync_at.

Theorem C14_create_is_fresh : forall it newid p p',
  pool_create it newid 0 p = (true, p') -> p_quota p = false ->
  exists w, In w (p_workers p') /\ w_id w = newid /\ p_clock p < w_updated w.
Proof. exact create_is_fresh. Qed.
Print Assumptions C14_create_is_fresh.

Import C14_e2e_run C14_e2e.
(* the judge of the end-to-end event log: at every arriving start command, in the state reached by the
   events before it, the conditions of start_ok hold *)
Theorem C14_e2e_judge_reflects : forall log, judge j0 log = true <-> E2ESpec log.
Proof. exact judge_reflects. Qed.
Print Assumptions C14_e2e_judge_reflects.

Theorem C14_e2e_start_ok_spec : forall s t vm u b,
  C14_e2e_run.start_ok s t vm u b = true <->
  ~ In u (map snd (j_live s)) /\ ~ In u (map snd (j_infl s)) /\
  In u (j_locked s) /\ (forall tc, lookZ u (j_cancelled s) = Some tc -> t <= tc + grace) /\
  b = false /\ (forall tb, lookZ vm (j_bad s) = Some tb -> t <= tb + grace).
Proof. exact start_ok_spec. Qed.
Print Assumptions C14_e2e_start_ok_spec.

(* the pattern of the former finding F21 is rejected: no tolerance for a start after the dispatcher's own Unlock *)
Theorem C14_e2e_judge_rejects_f21_pattern :
  judge j0 [XLock 1 7; XUnlock 50 7; XLock 52 7; XUnlock 53 7; XStartBegin 54 1 7 false] = false.
Proof. exact judge_rejects_f21_pattern. Qed.
Print Assumptions C14_e2e_judge_rejects_f21_pattern.

Theorem C14_e2e_judge_rejects_double_start :
  judge j0 [XLock 1 7; XStartBegin 2 1 7 false; XStartEnd 3 1 7 true; XStartBegin 12 2 7 false] = false.
Proof. exact judge_rejects_double. Qed.
Print Assumptions C14_e2e_judge_rejects_double_start.

Theorem C14_e2e_judge_accepts_restart_after_exit :
  judge j0 [XLock 1 7; XStartBegin 2 1 7 false; XStartEnd 3 1 7 true; XList 9 1 []; XUnlock 10 7; XLock 11 7;
            XStartBegin 12 2 7 false; XStartEnd 13 2 7 true] = true.
Proof. exact judge_accepts. Qed.
Print Assumptions C14_e2e_judge_accepts_restart_after_exit.
