(* C14 — property theorems only (being filled in). *)
From Coq Require Import List ZArith Bool NArith.
From AV Require Import model.C16_runq proofs.C16_runq.
Import ListNotations.
Theorem C14_placeholder_psort : forall ents, Permutation.Permutation (psort ents) ents.
Proof. exact psort_perm. Qed.
Print Assumptions C14_placeholder_psort.
