(* C20 — federated list-by-UUID returns each requested object once from its home cluster.
   Property theorems only; each is closed by `exact` of a lemma from proofs/C20_*.v.

   Vocabulary (model/C20_model.v, model/C20_run.v):
     run cfg page o            the model of Conn.<Type>List: plan (splitListRequest's checks), one loop per
                               cluster against the backend oracle  page : cluster -> call no. -> batch -> answer
     errs out                  error classes of the failing goroutines ([] = the call returns nil; otherwise the
                               first error to arrive, i.e. one element of this list, is returned)
     calls_to cfg o out b      the requests backend b receives, in order;  n_calls out  their total number
     merged cfg out            the returned items, each tagged with the backend that delivered it
     is_target o u             u is a requested object (reflects [Target], first theorem)
     federated o               not bypass_federation, no forwarded_for
     all_well_typed o          every uuid filter has an operand of the right Go type
     remote_involved cfg o     some requested object has a non-local prefix
     unsafe cfg o              another filter / count<>"none" / limit>=0 / offset<>0 / order / more targets than
                               MaxItemsPerResponse
   Entry points (model/C20_entry.v):
     erun ec page k o          the model of Conn.<k>List under the configuration ec = splitter configuration +
                               Login.LoginCluster: either the generic splitter (EGeneric (run ...)) or, for users on a
                               cluster that delegates logins to another cluster, the whole request forwarded there
     e_calls_to / e_errs / e_items / e_updates   the observables of an entry-point outcome (list requests per
                               backend, error classes, returned items, UserBatchUpdate calls at the local backend) *)
From Coq Require Import NArith ZArith List String Bool.
From AV Require Import lib.Str model.C20_model model.C20_entry model.C20_run proofs.C20_proofs proofs.C20_plan proofs.C20_main proofs.C20_spec
  proofs.C20_entry_proofs.
Import ListNotations.
Local Open Scope string_scope.

(* the boolean target test used everywhere below means: 27 characters, there is a uuid filter, and every
   uuid filter ("uuid = s" / "uuid in [...]") is satisfied *)
Theorem C20_target_reflects : forall o u,
  is_target o u = true <->
  (String.length u = 27 /\
   (exists f, In f (o_filters o) /\ f_attr f = "uuid" /\ (f_op f = "=" \/ f_op f = "in")) /\
   forall f, In f (o_filters o) -> f_attr f = "uuid" /\ (f_op f = "=" \/ f_op f = "in") ->
     match f_operand f with
     | OStr s => f_op f = "=" /\ s = u
     | OList l => f_op f = "in" /\ In (Some u) l
     | OStrs l => f_op f = "in" /\ In u l
     | OOther => False
     end).
Proof. exact is_target_iff. Qed.
Print Assumptions C20_target_reflects.

(* queries that cannot be split safely are rejected with 400 before any backend is called *)
Theorem C20_rejects_before_any_call : forall cfg page o,
  federated o = true -> all_well_typed o = true -> remote_involved cfg o = true -> unsafe cfg o = true ->
  errs (run cfg page o) = [400%N] /\ n_calls (run cfg page o) = 0 /\ forall b, calls_to cfg o (run cfg page o) b = [].
Proof. exact rejects_before_any_call. Qed.
Print Assumptions C20_rejects_before_any_call.

(* a uuid filter with an operand of the wrong type: 400, no backend called *)
Theorem C20_bad_operand_rejected : forall cfg page o,
  federated o = true -> all_well_typed o = false ->
  errs (run cfg page o) = [400%N] /\ n_calls (run cfg page o) = 0 /\ forall b, calls_to cfg o (run cfg page o) b = [].
Proof. exact bad_operand_rejected. Qed.
Print Assumptions C20_bad_operand_rejected.

(* a requested object whose prefix names no configured cluster: the request fails (404 among the errors)
   and nothing is sent anywhere on behalf of that prefix *)
Theorem C20_unknown_cluster_fails : forall cfg page o u,
  federated o = true -> all_well_typed o = true -> unsafe cfg o = false ->
  is_target o u = true -> has_backend cfg (prefix u) = false ->
  In 404%N (errs (run cfg page o)) /\ calls_to cfg o (run cfg page o) (prefix u) = [].
Proof. exact unknown_cluster_fails. Qed.
Print Assumptions C20_unknown_cluster_fails.

(* every backend is asked only for requested objects carrying its own prefix *)
Theorem C20_asks_home_cluster_only : forall cfg page o,
  federated o = true -> all_well_typed o = true -> remote_involved cfg o = true -> unsafe cfg o = false ->
  forall b rq, In rq (calls_to cfg o (run cfg page o) b) ->
  exists batch, rq = remote_opts cfg o batch /\ batch <> [] /\
                forall u, In u batch -> is_target o u = true /\ prefix u = b.
Proof. exact asks_home_cluster_only. Qed.
Print Assumptions C20_asks_home_cluster_only.

(* when nothing requested is remote, no remote backend is contacted *)
Theorem C20_local_request_stays_local : forall cfg page o,
  federated o = true -> all_well_typed o = true -> remote_involved cfg o = false ->
  forall b, b <> cf_local cfg -> calls_to cfg o (run cfg page o) b = [].
Proof. exact local_request_stays_local. Qed.
Print Assumptions C20_local_request_stays_local.

(* exactly once (at most once + origin), for every paging behaviour in which each page is duplicate-free
   and every item in it is either in the batch just requested or not a requested object at all.
   _partial: without this hypothesis the statement is refuted below (F9). *)
Theorem C20_exactly_once_partial : forall cfg page o,
  federated o = true -> all_well_typed o = true -> remote_involved cfg o = true -> unsafe cfg o = false ->
  (forall c n batch its, page c n batch = AItems its ->
     NoDup (uuids its) /\ forall x, In x (uuids its) -> In x batch \/ is_target o x = false) ->
  forall u, is_target o u = true ->
    count_occ string_dec (result_uuids cfg (run cfg page o)) u <= 1 /\
    forall b i, In (b, i) (merged cfg (run cfg page o)) -> it_uuid i = u -> b = prefix u.
Proof. exact exactly_once_partial. Qed.
Print Assumptions C20_exactly_once_partial.

(* F9: a backend that repeats, next to a new item, an item it delivered in an earlier page: the call
   succeeds and the repeated object is returned twice *)
Theorem C20_exactly_once_refuted :
  federated f9_opts = true /\ all_well_typed f9_opts = true /\ remote_involved f9_cfg f9_opts = true /\
  unsafe f9_cfg f9_opts = false /\ is_target f9_opts f9_b0 = true /\
  errs (run f9_cfg f9_page f9_opts) = [] /\
  count_occ string_dec (result_uuids f9_cfg (run f9_cfg f9_page f9_opts)) f9_b0 = 2.
Proof. exact exactly_once_refuted. Qed.
Print Assumptions C20_exactly_once_refuted.

(* honest backends (each page: a duplicate-free set of existing objects of the batch, empty only if
   none of the batch exists), every prefix configured: the call succeeds and returns exactly the
   requested objects that exist — however the backends page *)
Theorem C20_complete_when_honest : forall cfg page o (E : string -> bool),
  federated o = true -> all_well_typed o = true -> remote_involved cfg o = true -> unsafe cfg o = false ->
  (forall u, is_target o u = true -> has_backend cfg (prefix u) = true) ->
  (forall c n b, exists its, page c n b = AItems its /\ NoDup (uuids its) /\ incl (uuids its) b /\
                 (forall x, In x (uuids its) -> E x = true) /\ (its = [] -> forall x, In x b -> E x = false)) ->
  errs (run cfg page o) = [] /\
  forall u, In u (result_uuids cfg (run cfg page o)) <-> is_target o u = true /\ E u = true.
Proof. exact complete_when_honest. Qed.
Print Assumptions C20_complete_when_honest.

(* the hypotheses of the two theorems above can be met (one object per page) *)
Theorem C20_hypotheses_satisfiable :
  federated f9_opts = true /\ all_well_typed f9_opts = true /\ remote_involved f9_cfg f9_opts = true /\
  unsafe f9_cfg f9_opts = false /\
  (forall u, is_target f9_opts u = true -> has_backend f9_cfg (prefix u) = true) /\
  (forall c, page_hyp ex_page (is_target f9_opts) c) /\ (forall c, honest ex_page (fun _ => true) c) /\
  result_uuids f9_cfg (run f9_cfg ex_page f9_opts) = [f9_b1; f9_b0].
Proof. exact hypotheses_satisfiable. Qed.
Print Assumptions C20_hypotheses_satisfiable.

(* an error answer to any call that was made fails the whole request *)
Theorem C20_error_propagates : forall cfg page o runs c tr st b code,
  run cfg page o = OSplit runs -> In (c, (tr, st)) runs -> In (b, AErr code) tr ->
  In 502%N (errs (run cfg page o)).
Proof. exact error_propagates. Qed.
Print Assumptions C20_error_propagates.

Theorem C20_passthrough_error : forall cfg page o rq code,
  run cfg page o = OPassed rq (AErr code) -> errs (run cfg page o) = [code].
Proof. exact passthrough_error. Qed.
Print Assumptions C20_passthrough_error.

(* a non-empty answer containing none of the uuids just asked for fails the whole request *)
Theorem C20_no_progress_fails : forall cfg page o runs c tr st b its,
  run cfg page o = OSplit runs -> In (c, (tr, st)) runs -> In (b, AItems its) tr ->
  its <> [] -> (forall x, In x (uuids its) -> ~ In x b) ->
  In 502%N (errs (run cfg page o)).
Proof. exact no_progress_fails. Qed.
Print Assumptions C20_no_progress_fails.

(* the traces above are real: the k-th recorded answer of cluster c is the oracle's answer to call k *)
Theorem C20_answers_are_the_oracle's : forall cfg page o runs c tr st k b a,
  run cfg page o = OSplit runs -> In (c, (tr, st)) runs -> nth_error tr k = Some (b, a) -> a = page c k b.
Proof. exact answers_are_the_oracle's. Qed.
Print Assumptions C20_answers_are_the_oracle's.

(* terminates: every cluster goroutine ends (the model's fuel |todo|+1 is never exhausted) after at most
   |todo| backend calls, whatever the backend answers *)
Theorem C20_terminates : forall cfg page c todo,
  snd (crun cfg page c todo) <> CFuel /\ List.length (fst (crun cfg page c todo)) <= List.length todo.
Proof. exact crun_terminates. Qed.
Print Assumptions C20_terminates.

(* the boolean clauses with which the evaluator (model/C20_run.v spec_b) judges what the implementation
   returned mean what they should ... *)
Theorem C20_once_b_reflects : forall tg items,
  once_b tg items = true <->
  (forall u, In u tg -> count_occ string_dec (map (fun x => it_uuid (snd x)) items) u <= 1) /\
  (forall b i, In (b, i) items -> In (it_uuid i) tg -> b = prefix (it_uuid i)).
Proof. exact once_b_iff. Qed.
Print Assumptions C20_once_b_reflects.
Theorem C20_complete_b_reflects : forall tg ex items,
  complete_b tg ex items = true <->
  (forall u, In u tg -> (In u ex <-> In u (map (fun x => it_uuid (snd x)) items))).
Proof. exact complete_b_iff. Qed.
Print Assumptions C20_complete_b_reflects.
Theorem C20_spec_targets_reflects : forall o u, In u (spec_targets o) <-> is_target o u = true.
Proof. exact spec_targets_In. Qed.
Print Assumptions C20_spec_targets_reflects.

(* ... and the model passes them under the hypotheses of the theorems above *)
Theorem C20_model_once : forall cfg page o,
  federated o = true -> all_well_typed o = true -> remote_involved cfg o = true -> unsafe cfg o = false ->
  (forall c n batch its, page c n batch = AItems its ->
     NoDup (uuids its) /\ forall x, In x (uuids its) -> In x batch \/ is_target o x = false) ->
  once_b (spec_targets o) (merged cfg (run cfg page o)) = true.
Proof. exact model_once. Qed.
Print Assumptions C20_model_once.
Theorem C20_model_complete : forall cfg page o ex,
  federated o = true -> all_well_typed o = true -> remote_involved cfg o = true -> unsafe cfg o = false ->
  (forall u, is_target o u = true -> has_backend cfg (prefix u) = true) ->
  (forall c n b, exists its, page c n b = AItems its /\ NoDup (uuids its) /\ incl (uuids its) b /\
                 (forall x, In x (uuids its) -> mem x ex = true) /\ (its = [] -> forall x, In x b -> mem x ex = false)) ->
  errs (run cfg page o) = [] /\ complete_b (spec_targets o) ex (merged cfg (run cfg page o)) = true.
Proof. exact model_complete. Qed.
Print Assumptions C20_model_complete.

(* ---------- the entry points Conn.<Type>List (conn.go) ---------- *)
(* UserList hands the whole request to the login cluster exactly when LoginCluster is set, names ANOTHER
   cluster, and the caller did not ask for bypass_federation ... *)
Theorem C20_entry_forward_guard : forall ec k o,
  forwards ec k o = true <->
  k = KUser /\ ec_login ec <> "" /\ ec_login ec <> cf_local (ec_cfg ec) /\ o_bypass o = false.
Proof. exact forwards_iff. Qed.
Print Assumptions C20_entry_forward_guard.

(* ... every other entry point / configuration (all six resource types; users with no LoginCluster or on a
   cluster that is its own LoginCluster) is the splitter: the same requests reach every backend, the same
   error classes and items come back, nothing is cached.  All theorems above therefore hold for Conn.<Type>List. *)
Theorem C20_entry_uses_splitter : forall ec page ok k o,
  (k <> KUser \/ ec_login ec = "" \/ ec_login ec = cf_local (ec_cfg ec) \/ o_bypass o = true) ->
  erun ec page k o = EGeneric (run (ec_cfg ec) page o) /\
  e_errs ec ok (erun ec page k o) = errs (run (ec_cfg ec) page o) /\
  (forall b, e_calls_to ec o (erun ec page k o) b = calls_to (ec_cfg ec) o (run (ec_cfg ec) page o) b) /\
  e_items ec (erun ec page k o) = merged (ec_cfg ec) (run (ec_cfg ec) page o) /\
  e_updates ec (erun ec page k o) = [].
Proof. exact entry_uses_splitter. Qed.
Print Assumptions C20_entry_uses_splitter.

(* the forwarded UserList: one list request, to a configured backend (chooseBackend LoginCluster), carrying
   the caller's options unchanged; its error or its items are what the caller gets *)
Theorem C20_entry_forwarded : forall ec page ok o, forwards ec KUser o = true ->
  let b := choose_backend (ec_cfg ec) (ec_login ec) in
  has_backend (ec_cfg ec) b = true /\
  (forall b', e_calls_to ec o (erun ec page KUser o) b' = if b' =? b then [o] else []) /\
  (forall code, page b 0 [] = AErr code -> e_errs ec ok (erun ec page KUser o) = [code]) /\
  (forall its, page b 0 [] = AItems its -> e_items ec (erun ec page KUser o) = map (fun i => (b, i)) its).
Proof. exact entry_forwarded. Qed.
Print Assumptions C20_entry_forwarded.

(* every requested object whose prefix names a configured cluster is asked for at that cluster (whatever
   the other clusters answer) — for the splitter and for every entry point that uses it *)
Theorem C20_every_target_asked_at_home : forall cfg page o u,
  federated o = true -> all_well_typed o = true -> remote_involved cfg o = true -> unsafe cfg o = false ->
  is_target o u = true -> has_backend cfg (prefix u) = true ->
  exists rq, In rq (calls_to cfg o (run cfg page o) (prefix u)) /\ In u (batch_of rq).
Proof. exact asked_home. Qed.
Print Assumptions C20_every_target_asked_at_home.
Theorem C20_entry_every_target_asked_at_home : forall ec page k o u,
  (k <> KUser \/ ec_login ec = "" \/ ec_login ec = cf_local (ec_cfg ec) \/ o_bypass o = true) ->
  federated o = true -> all_well_typed o = true -> remote_involved (ec_cfg ec) o = true -> unsafe (ec_cfg ec) o = false ->
  is_target o u = true -> has_backend (ec_cfg ec) (prefix u) = true ->
  exists rq, In rq (e_calls_to ec o (erun ec page k o) (prefix u)) /\ In u (batch_of rq).
Proof. exact entry_asked_home. Qed.
Print Assumptions C20_entry_every_target_asked_at_home.
Theorem C20_entry_unknown_cluster_fails : forall ec page ok k o u,
  (k <> KUser \/ ec_login ec = "" \/ ec_login ec = cf_local (ec_cfg ec) \/ o_bypass o = true) ->
  federated o = true -> all_well_typed o = true -> unsafe (ec_cfg ec) o = false ->
  is_target o u = true -> has_backend (ec_cfg ec) (prefix u) = false ->
  In 404%N (e_errs ec ok (erun ec page k o)) /\ e_calls_to ec o (erun ec page k o) (prefix u) = [].
Proof. exact entry_unknown_cluster_fails. Qed.
Print Assumptions C20_entry_unknown_cluster_fails.
Theorem C20_entry_rejects_before_any_call : forall ec page ok k o,
  (k <> KUser \/ ec_login ec = "" \/ ec_login ec = cf_local (ec_cfg ec) \/ o_bypass o = true) ->
  federated o = true -> all_well_typed o = true -> remote_involved (ec_cfg ec) o = true -> unsafe (ec_cfg ec) o = true ->
  e_errs ec ok (erun ec page k o) = [400%N] /\ forall b, e_calls_to ec o (erun ec page k o) b = [].
Proof. exact entry_rejects_before_any_call. Qed.
Print Assumptions C20_entry_rejects_before_any_call.

(* the evaluator's clause "asked at home" reflects the Prop-level statement, and the model passes it *)
Theorem C20_asked_home_b_reflects : forall cfg tg calls,
  asked_home_b cfg tg calls = true <->
  (forall u, In u tg -> has_backend cfg (prefix u) = true -> exists rq, In rq (calls (prefix u)) /\ In u (batch_of rq)).
Proof. exact asked_home_b_iff. Qed.
Print Assumptions C20_asked_home_b_reflects.
Theorem C20_model_asked_home : forall cfg page o,
  federated o = true -> all_well_typed o = true -> remote_involved cfg o = true -> unsafe cfg o = false ->
  asked_home_b cfg (spec_targets o) (calls_to cfg o (run cfg page o)) = true.
Proof. exact model_asked_home. Qed.
Print Assumptions C20_model_asked_home.

(* the request returns: no cluster loop of the model runs out of fuel (with C20_terminates: every outcome of
   the model is a list or an error after finitely many backend calls), and the evaluator accepts a case,
   as satisfying the specification or as explained by the model, only if the observed call returned
   (o_fate = 0; 1 = still not back when the 20 s watchdog expired, 2 = panicked) *)
Theorem C20_split_never_out_of_fuel : forall cfg page o runs c tr st,
  run cfg page o = OSplit runs -> In (c, (tr, st)) runs -> st <> CFuel.
Proof. exact split_never_out_of_fuel. Qed.
Print Assumptions C20_split_never_out_of_fuel.
Theorem C20_spec_needs_return : forall c, spec_b c = true -> o_fate c = 0%N.
Proof. exact spec_needs_return. Qed.
Print Assumptions C20_spec_needs_return.
Theorem C20_model_needs_return : forall c, model_b c = true -> o_fate c = 0%N.
Proof. exact model_needs_return. Qed.
Print Assumptions C20_model_needs_return.
