(* C16 — property theorems only. *)
From Coq Require Import List ZArith Bool.
From AV Require Import model.C16_model proofs.C16_choose.
Import ListNotations.
Local Open Scope Z_scope.

Theorem C16_choose_adequate : forall n ts r, choose_need n ts = Chosen r -> adequate n r = true.
Proof. exact choose_adequate. Qed.
Print Assumptions C16_choose_adequate.
