(* C16 — containers get the cheapest adequate instance type and start in priority order.
   Property theorems only; each is closed by `exact` of a lemma from proofs/C16_*.v.
   Models: model/C16_model.v (lib/dispatchcloud/node_size.go), model/C16_runq.v
   (lib/dispatchcloud/scheduler/run_queue.go).  The harness compares exactly these definitions with the
   Go code (model/C16_run.v, model/C16_runq_run.v). *)
From Coq Require Import List ZArith Bool String NArith Permutation Sorted.
From AV Require Import model.C16_model model.C16_run proofs.C16_choose proofs.C16_spec.
Import ListNotations.
Local Open Scope Z_scope.

(* ---------------------------------------------------------------------------------------------- *)
(* ChooseInstanceType: [choose_need n ts] is the fold over the table [ts] in ANY order (Go map      *)
(* iteration); n = need_of reserve ctr carries needRAM (int64 arithmetic incl. wrap), needScratch,  *)
(* VCPUs and the preemptible flag.                                                                  *)

(* the chosen type satisfies every constraint (no hypothesis on the table or the container) *)
Theorem C16_choose_adequate : forall n ts r, choose_need n ts = Chosen r -> adequate n r = true.
Proof. exact choose_adequate. Qed.
Print Assumptions C16_choose_adequate.

Theorem C16_adequate_spec : forall n t,
  adequate n t = true <->
  n_scratch n <= scratch t /\ n_ram n <= ram t /\ n_vcpus n <= vcpus t /\ preempt t = n_preempt n.
Proof. exact adequate_spec. Qed.
Print Assumptions C16_adequate_spec.

(* never an arbitrary type: the answer is an entry of the table *)
Theorem C16_choose_in_table : forall n ts r, choose_need n ts = Chosen r -> In r ts.
Proof. exact choose_in_table. Qed.
Print Assumptions C16_choose_in_table.

(* no other configured type satisfying the constraints is cheaper.  all_sane: RAM and VCPUs of the
   configured types are >= 0 (see C16_choose_needs_sane for why the code needs that) *)
Theorem C16_choose_cheapest : forall n ts r x,
  all_sane ts -> choose_need n ts = Chosen r -> In x ts -> adequate n x = true -> price r <= price x.
Proof. exact choose_cheapest. Qed.
Print Assumptions C16_choose_cheapest.

(* tie-break: among adequate types of the same price the answer is not strictly dominated in
   (RAM, VCPUs) *)
Theorem C16_choose_pareto : forall n ts r x,
  all_sane ts -> choose_need n ts = Chosen r -> In x ts -> adequate n x = true -> price x = price r ->
  ~ (ram r <= ram x /\ vcpus r <= vcpus x /\ (ram r < ram x \/ vcpus r < vcpus x)).
Proof. exact choose_pareto. Qed.
Print Assumptions C16_choose_pareto.

(* an unsatisfiable container gets an error ... *)
Theorem C16_choose_error_iff_none : forall n ts,
  all_sane ts -> ts <> [] ->
  ((exists av, choose_need n ts = ErrUnsat av) <-> forall x, In x ts -> adequate n x = false).
Proof. exact choose_error_iff_none. Qed.
Print Assumptions C16_choose_error_iff_none.

Theorem C16_choose_no_types : forall n ts, choose_need n ts = ErrNoTypes <-> ts = [].
Proof. exact choose_no_types. Qed.
Print Assumptions C16_choose_no_types.

(* ... listing all available types, by price *)
Theorem C16_choose_error_lists_all : forall n ts av,
  choose_need n ts = ErrUnsat av -> Permutation av ts /\ StronglySorted (fun a b => price a <= price b) av.
Proof. exact choose_error_lists_all. Qed.
Print Assumptions C16_choose_error_lists_all.

(* the price of the answer (and whether there is one) does not depend on the map iteration order *)
Theorem C16_choose_price_order_independent : forall n ts ts',
  all_sane ts -> Permutation ts ts' ->
  match choose_need n ts, choose_need n ts' with
  | Chosen x, Chosen y => price x = price y
  | ErrNoTypes, ErrNoTypes => True
  | ErrUnsat _, ErrUnsat _ => True
  | _, _ => False
  end.
Proof. exact choose_price_order_independent. Qed.
Print Assumptions C16_choose_price_order_independent.

(* the order-independent characterisation the evaluator uses for tables of more than 5 types *)
Theorem C16_choose_is_candidate : forall n ts r,
  all_sane ts -> choose_need n ts = Chosen r -> candidate n ts r = true.
Proof. exact choose_is_candidate. Qed.
Print Assumptions C16_choose_is_candidate.

(* why all_sane: a free type with negative RAM is adequate for a negative request but is skipped *)
Theorem C16_choose_needs_sane :
  let n := {| n_ram := -5; n_vcpus := 0; n_scratch := 0; n_preempt := false |} in
  let t := mkit 1 0 (-1) 1 0 false in
  adequate n t = true /\ choose_need n [t] = ErrUnsat [t].
Proof. exact choose_needs_sane. Qed.
Print Assumptions C16_choose_needs_sane.

(* arithmetic: within sums < 2^63/100 the int64 computation is the mathematical (x*100)/95 ... *)
Theorem C16_no_overflow_range : forall r kc res,
  0 <= r -> 0 <= kc -> 0 <= res -> (r + kc + res) * 100 < two63 ->
  need_ram r kc res = (r + kc + res) * 100 / 95.
Proof. exact no_overflow_range. Qed.
Print Assumptions C16_no_overflow_range.

(* ... so a type has enough RAM iff 95% of (RAM + 1) exceeds RAM + KeepCacheRAM + ReserveExtraRAM *)
Theorem C16_ram_threshold : forall r kc res cap,
  0 <= r -> 0 <= kc -> 0 <= res -> (r + kc + res) * 100 < two63 ->
  (need_ram r kc res <= cap <-> (r + kc + res) * 100 < (cap + 1) * 95).
Proof. exact ram_threshold. Qed.
Print Assumptions C16_ram_threshold.

(* beyond that range the code wraps around (modelled, witness replayed by the harness stratum "overflow") *)
Theorem C16_need_ram_wraps : need_ram 92233720368547759 0 0 < 0.
Proof. exact need_ram_wraps. Qed.
Print Assumptions C16_need_ram_wraps.

(* scratch = max(sum of tmp mount capacities, image estimate) + image estimate *)
Theorem C16_scratch_formula : forall c,
  Forall (fun m => 0 <= snd m) (c_mounts c) ->
  0 <= estimate_image (c_image c) ->
  Z.max (tmp_total (c_mounts c)) (estimate_image (c_image c)) + estimate_image (c_image c) < two63 ->
  estimate_scratch c = Z.max (tmp_total (c_mounts c)) (estimate_image (c_image c)) + estimate_image (c_image c).
Proof. exact scratch_formula. Qed.
Print Assumptions C16_scratch_formula.

(* image estimate: ((n - 80) / 42) * 64 MiB for a PDH "<32 hex>+n" with n >= 122, else 0 *)
Theorem C16_image_formula : forall pdh n,
  pdh_size pdh = Some n -> 122 <= n -> ((n - 80) / 42) * mib64 < two63 ->
  estimate_image pdh = ((n - 80) / 42) * mib64.
Proof. exact image_formula. Qed.
Print Assumptions C16_image_formula.

Theorem C16_image_small : forall pdh, (forall n, pdh_size pdh = Some n -> n < 122) -> estimate_image pdh = 0.
Proof. exact image_small. Qed.
Print Assumptions C16_image_small.

(* the boolean specification that judges the implementation's answers is the Prop-level one *)
Theorem C16_choose_spec_reflects : forall c, spec_b c = true <-> Spec c.
Proof. exact choose_spec_reflects. Qed.
Print Assumptions C16_choose_spec_reflects.

(* first half of the property for all tables, reserves and containers: inside the int64 range
   (Spec's in_range) the model's answer is a table entry that satisfies
     VCPUs, (RAM + KeepCacheRAM + reserve) * 100 < (type RAM + 1) * 95, scratch, preemptibility
   and no satisfying type is cheaper; if none satisfies them the answer is the error listing every
   type by price *)
Theorem C16_choose_meets_spec : forall ts reserve c,
  NoDup (map it_id ts) -> Spec (model_case ts reserve c).
Proof. exact choose_meets_spec. Qed.
Print Assumptions C16_choose_meets_spec.

Theorem C16_spec_example_chosen :
  let ts := [T 0 4 1000 2 0 false; T 1 2 1000 2 0 false; T 2 1 900 2 0 false] in
  let c := mkctr 900 50 2 [] EmptyString false in
  in_range_b 0 ts c = true /\ choose 0 ts c = Chosen (T 1 2 1000 2 0 false) /\ spec_b (model_case ts 0 c) = true.
Proof. exact spec_example_chosen. Qed.
Print Assumptions C16_spec_example_chosen.

Theorem C16_spec_example_unsat :
  let ts := [T 0 4 1000 2 0 false; T 1 2 1000 2 0 false] in
  let c := mkctr 900 51 2 [] EmptyString false in
  in_range_b 0 ts c = true /\ kind_of (choose 0 ts c) = 2%N /\ spec_b (model_case ts 0 c) = true.
Proof. exact spec_example_unsat. Qed.
Print Assumptions C16_spec_example_unsat.

(* ---------------------------------------------------------------------------------------------- *)
(* runQueue: one scheduling pass as a function of the sorted queue, pool.Running(),                *)
(* pool.Unallocated() and an ARBITRARY pool behaviour (AtQuota / KillContainer / Create /           *)
(* StartContainer as state machines over any type P).                                              *)
From AV Require Import model.C16_runq model.C16_runq_run proofs.C16_runq.

Section Pool.
Variable P : Type.
Variable p_quota : P -> bool * P.
Variable p_kill p_create : N -> P -> bool * P.
Variable p_start : N -> N -> P -> bool * P.
Variable running : list N.
Notation rq := (run_queue_sorted P p_quota p_kill p_create p_start running).

(* sort.Slice(priority desc): the executable model's sort is one admissible outcome *)
Theorem C16_psort_is_sorted_permutation : forall ents,
  Permutation (psort ents) ents /\ StronglySorted (fun a b => e_prio b <= e_prio a) (psort ents).
Proof. exact psort_sorted_perm. Qed.

(* StartContainer is attempted only for a cache-Locked entry with priority >= 1 whose uuid is not in
   pool.Running(), on that entry's instance type *)
Theorem C16_start_only_locked_positive : forall sorted u0 p it u r,
  In (EStart it u r) (r_log (rq sorted u0 p)) ->
  exists e, In e sorted /\ e_uuid e = u /\ e_it e = it /\ e_state e = Locked /\ 1 <= e_prio e /\ memN u running = false.
Proof. exact (rq_start_only_locked_positive P p_quota p_kill p_create p_start running). Qed.

(* dontstart latch: after a failed StartContainer(it, _) no later StartContainer(it, _) in the pass *)
Theorem C16_dontstart_latch : forall sorted u0 p a it u b,
  r_log (rq sorted u0 p) = a ++ EStart it u false :: b -> forall u' r', ~ In (EStart it u' r') b.
Proof. exact (rq_dontstart_latch_prop P p_quota p_kill p_create p_start running). Qed.

(* hence no lower-priority start overtakes a Locked container waiting for a worker of the same type:
   if StartContainer is attempted for u, every Locked, priority >= 1, not-running v of the same type
   and strictly higher priority was started successfully in this pass, or its previous crunch-run is
   still being killed, or the pool refused to create an instance for it *)
Theorem C16_no_overtake : forall sorted u0 p v u r,
  StronglySorted (fun a b => e_prio b <= e_prio a) sorted -> NoDup (map e_uuid sorted) ->
  In v sorted -> In u sorted -> e_it u = e_it v -> e_prio u < e_prio v ->
  e_state v = Locked -> eligible running v = true ->
  In (EStart (e_it u) (e_uuid u) r) (r_log (rq sorted u0 p)) ->
  In (EStart (e_it v) (e_uuid v) true) (r_log (rq sorted u0 p)) \/
  In (EKill (e_uuid v) true) (r_log (rq sorted u0 p)) \/
  In (ECreate (e_it v) false) (r_log (rq sorted u0 p)).
Proof. exact (rq_no_overtake P p_quota p_kill p_create p_start running). Qed.

(* overquota tail: the unlocked set is a priority-suffix: if u is unlocked, every Locked entry of
   strictly lower priority is unlocked too (none keeps its lock) *)
Theorem C16_overquota_tail : forall sorted u0 p u v,
  StronglySorted (fun a b => e_prio b <= e_prio a) sorted -> NoDup (map e_uuid sorted) ->
  In u sorted -> In v sorted -> e_prio v < e_prio u -> e_state v = Locked ->
  In (EUnlock (e_uuid u)) (r_log (rq sorted u0 p)) -> In (EUnlock (e_uuid v)) (r_log (rq sorted u0 p)).
Proof. exact (rq_overquota_tail P p_quota p_kill p_create p_start running). Qed.

(* KillContainer answered "no process" immediately before every StartContainer *)
Theorem C16_kill_before_start : forall sorted u0 p a it u r b,
  r_log (rq sorted u0 p) = a ++ EStart it u r :: b -> exists a', a = a' ++ [EKill u false].
Proof. exact (rq_kill_before_start P p_quota p_kill p_create p_start running). Qed.

(* second half of the property, for every pool behaviour, snapshot and outcome of the unstable sort *)
Theorem C16_run_queue_meets_spec : forall ents sorted u0 p,
  Permutation sorted ents -> StronglySorted (fun a b => e_prio b <= e_prio a) sorted -> NoDup (map e_uuid ents) ->
  RqSpec ents running (r_log (rq sorted u0 p)) (r_locks (rq sorted u0 p)).
Proof. exact (run_queue_meets_spec P p_quota p_kill p_create p_start running). Qed.
End Pool.
Print Assumptions C16_psort_is_sorted_permutation.
Print Assumptions C16_start_only_locked_positive.
Print Assumptions C16_dontstart_latch.
Print Assumptions C16_no_overtake.
Print Assumptions C16_overquota_tail.
Print Assumptions C16_kill_before_start.
Print Assumptions C16_run_queue_meets_spec.

(* the boolean specification that judges the observed call log is the Prop-level one *)
Theorem C16_rq_spec_reflects : forall ents run log lk, rq_spec_b ents run log lk = true <-> RqSpec ents run log lk.
Proof. exact rq_spec_reflects. Qed.
Print Assumptions C16_rq_spec_reflects.

Theorem C16_rq_spec_is_evaluator_spec : forall c,
  C16_runq_run.spec_b c = rq_spec_b (q_ents c) (q_running c) (o_log c) (o_locks c).
Proof. exact spec_b_rq. Qed.
Print Assumptions C16_rq_spec_is_evaluator_spec.

(* satisfiable and not vacuous *)
Theorem C16_rq_example :
  let ents := [E 1 1 5 0; E 2 1 9 0; E 3 1 7 0] in
  let res := run_queue_stub (psort ents) [] [(0%N, 3)] (mkstub [false] [] [] [(0%N, 1)]) in
  r_log res = [EKill 2 false; EStart 0 2 true; EKill 3 false; EStart 0 3 false] /\
  rq_spec_b ents [] (r_log res) (r_locks res) = true.
Proof. exact rq_example. Qed.
Print Assumptions C16_rq_example.

Theorem C16_rq_example_rejected :
  let ents := [E 1 1 5 0; E 2 1 9 0] in
  rq_spec_b ents [] [EKill 1 false; EStart 0 1 true] [] = false.
Proof. exact rq_example_rejected. Qed.
Print Assumptions C16_rq_example_rejected.

(* ---------------------------------------------------------------------------------------------- *)
(* The container queue (lib/dispatchcloud/container/queue.go) between ChooseInstanceType and the   *)
(* scheduler: one Update of the queue built with the dispatcher's typeChooser, model/C16_cq.v.     *)
(* [ord u] is the order in which the chooseType call for container u iterated over the table (any  *)
(* permutation), [cons] the containers' constraints, [db] the API server's records, [cur] the cache *)
(* before, [faults] the requests of the cancel goroutines that the API server refuses.             *)
From AV Require Import model.C16_cq model.C16_cq_run proofs.C16_cq.

(* the boolean specification that judges the observed queue / API requests is the Prop-level one *)
Theorem C16_cq_spec_reflects : forall c, C16_cq_run.spec_b c = true <-> CqSpec c.
Proof. exact cq_spec_reflects. Qed.
Print Assumptions C16_cq_spec_reflects.

(* first half of the property at the queue layer, for all tables, databases, caches, fault assignments and
   iteration orders: after an Update every entry carries a configured type that satisfies its container's
   constraints and none cheaper does, no Queued/Locked entry carries the zero InstanceType, and an
   unsatisfiable container that arrives Queued or Locked ends Cancelled with ChooseInstanceType's error in
   runtime_status unless the API server refused a request.  Hypotheses: the cache before is the result of
   earlier Updates (its typed entries are well typed), and a container first seen Running or later does not
   return to Queued/Locked *)
Theorem C16_cq_update_meets_spec : forall reserve ts ord cons faults,
  NoDup (map it_id ts) -> (forall u, Permutation (ord u) ts) ->
  forall db cur,
  (forall e, In e cur -> forall id, ce_type e = Some id -> type_ok reserve ts (cons_of cons (ce_uuid e)) id) ->
  (forall e d, In e cur -> ce_type e = None -> find_d (ce_uuid e) db = Some d -> waiting_st (cd_state d) = false) ->
  CqSpec (mkcq ts reserve cons db cur faults
               (cache_after reserve ord cons db cur) (calls_after reserve ord cons faults db cur)
               (db_after reserve ord cons faults db cur) true).
Proof. exact cq_update_meets_spec. Qed.
Print Assumptions C16_cq_update_meets_spec.

(* never an arbitrary type: a container that is not yet cached, is Queued or Locked, and for which the
   chooseType call returns no type, is not handed to the scheduler by this Update ... *)
Theorem C16_cq_unsat_not_queued : forall reserve ord cons db cur d,
  In d db -> NoDup (map cd_uuid db) -> find_e (cd_uuid d) cur = None -> waiting_st (cd_state d) = true ->
  (forall t, choose reserve (ord (cd_uuid d)) (cons_of cons (cd_uuid d)) <> Chosen t) ->
  forall e, In e (cache_after reserve ord cons db cur) -> ce_uuid e <> cd_uuid d.
Proof. exact cq_unsat_not_queued. Qed.
Print Assumptions C16_cq_unsat_not_queued.

(* ... it gets the error: [lock if Queued,] runtime_status.error := the error's message, cancel *)
Theorem C16_cq_unsat_gets_error : forall reserve ord cons faults db cur d,
  In d db -> offered d = true -> find_e (cd_uuid d) cur = None -> waiting_st (cd_state d) = true ->
  (forall t, choose reserve (ord (cd_uuid d)) (cons_of cons (cd_uuid d)) <> Chosen t) ->
  exists k, (k = 1%N \/ k = 2%N) /\
    In (cd_uuid d, fst (cancel_run d k (fault_of faults (cd_uuid d)))) (calls_after reserve ord cons faults db cur) /\
    (fault_of faults (cd_uuid d) = 0%N ->
     fst (cancel_run d k 0%N) = (if cstate_eqb (cd_state d) Queued then [ALock true] else []) ++ [ASetErr k true; ACancel true]).
Proof. exact cq_unsat_gets_error. Qed.
Print Assumptions C16_cq_unsat_gets_error.

(* a type handed to the scheduler for a newly seen container is ChooseInstanceType's answer for it *)
Theorem C16_cq_chosen_type_ok : forall reserve ts ord cons,
  NoDup (map it_id ts) -> (forall u, Permutation (ord u) ts) ->
  forall u t, choose reserve (ord u) (cons_of cons u) = Chosen t -> type_ok reserve ts (cons_of cons u) (it_id t).
Proof. exact chosen_type_ok. Qed.
Print Assumptions C16_cq_chosen_type_ok.

(* satisfiable and not vacuous; an observation with the unsatisfiable Locked container queued with the zero
   type, or silently dropped, or with a cheaper-than-adequate type, is rejected *)
Theorem C16_cq_example :
  let ts := [T 0 1 2000 1 0 false; T 1 2 4000 2 0 false] in
  let cons := [(1%N, mkctr 1000 0 1 [] EmptyString false); (2%N, mkctr 1000 0 4 [] EmptyString false);
               (3%N, mkctr 1000 0 4 [] EmptyString false)] in
  let db := [DB 1 1 5 true 0; DB 2 1 5 true 0; DB 3 0 5 false 0] in
  let c := cq_model_case 0 ts (fun _ => ts) cons [] db [] in
  co_cur c = [CE 1 1 5 (Some 0%N)] /\
  co_calls c = [(2%N, [ASetErr 1 true; ACancel true]); (3%N, [ALock true; ASetErr 1 true; ACancel true])] /\
  co_db c = [DB 1 1 5 true 0; DB 2 4 5 false 1; DB 3 4 5 false 1] /\
  C16_cq_run.spec_b c = true /\ C16_cq_run.model_b c = true.
Proof. exact cq_example. Qed.
Print Assumptions C16_cq_example.

Theorem C16_cq_example_rejected :
  let ts := [T 0 1 2000 1 0 false; T 1 2 4000 2 0 false] in
  let cons := [(1%N, mkctr 1000 0 1 [] EmptyString false); (2%N, mkctr 1000 0 4 [] EmptyString false)] in
  let db := [DB 1 1 5 true 0; DB 2 1 5 true 0] in
  C16_cq_run.spec_b (mkcq ts 0 cons db [] [] [CE 1 1 5 (Some 0%N); CE 2 1 5 None] [] db true) = false /\
  C16_cq_run.spec_b (mkcq ts 0 cons db [] [] [CE 1 1 5 (Some 0%N)] [] db true) = false /\
  C16_cq_run.spec_b (mkcq ts 0 cons db [] [] [CE 1 1 5 (Some 1%N)] [(2%N, [ASetErr 1 true; ACancel true])] [DB 1 1 5 true 0; DB 2 4 5 false 1] true) = false.
Proof. exact cq_example_rejected. Qed.
Print Assumptions C16_cq_example_rejected.

(* ---------------------------------------------------------------------------------------------- *)
(* runQueue behind the real queue: between two polls the cache follows the API server's answers to  *)
(* the dispatcher's lock / unlock / cancel requests (state AND priority).  [told polled resps] is the *)
(* snapshot as the server last told this dispatcher; the pass is judged against it (model/C16_tq.v). *)
From AV Require Import model.C16_tq proofs.C16_tq.

(* the answers change states and priorities only: same containers, same instance types *)
Theorem C16_told_keeps_containers : forall polled resps,
  map e_uuid (told polled resps) = map e_uuid polled /\ map e_it (told polled resps) = map e_it polled.
Proof. intros polled resps. split; [exact (told_uuids polled resps)|exact (told_types polled resps)]. Qed.
Print Assumptions C16_told_keeps_containers.

(* the latest answer about a container wins: state and priority of the last response that mentions it *)
Theorem C16_told_latest_wins : forall polled a r b,
  (forall r', In r' b -> rs_uuid r' <> rs_uuid r) ->
  forall e, In e (told polled (a ++ r :: b)) -> e_uuid e = rs_uuid r -> e_state e = rs_state r /\ e_prio e = rs_prio r.
Proof. exact told_latest_wins. Qed.
Print Assumptions C16_told_latest_wins.

(* a container without an answer keeps what the poll said *)
Theorem C16_told_no_resp : forall polled resps e,
  (forall r, In r resps -> rs_uuid r <> e_uuid e) -> (In e (told polled resps) <-> In e polled).
Proof. exact told_no_resp. Qed.
Print Assumptions C16_told_no_resp.

(* second half of the property with respect to the told priorities, for every pool behaviour, poll result,
   sequence of answers and outcome of the unstable sort *)
Theorem C16_told_run_queue_meets_spec :
  forall (P : Type) (p_quota : P -> bool * P) (p_kill p_create : N -> P -> bool * P) (p_start : N -> N -> P -> bool * P)
         (running : list N) (polled : list ent) (resps : list resp) (sorted : list ent) (u0 : umap) (p : P),
  Permutation sorted (told polled resps) -> StronglySorted (fun a b => e_prio b <= e_prio a) sorted ->
  NoDup (map e_uuid polled) ->
  RqSpec (told polled resps) running
         (r_log (run_queue_sorted P p_quota p_kill p_create p_start running sorted u0 p))
         (r_locks (run_queue_sorted P p_quota p_kill p_create p_start running sorted u0 p)).
Proof. exact told_run_queue_meets_spec. Qed.
Print Assumptions C16_told_run_queue_meets_spec.

(* the stage's boolean specification is the proved-equivalent rq_spec_b on the told snapshot *)
Theorem C16_tq_spec_is_rq_spec : forall c,
  C16_tq.spec_b c = rq_spec_b (told (t_polled c) (t_resps c)) (t_running c) (to_log c) (to_locks c).
Proof. exact tq_spec_is_rq_spec. Qed.
Print Assumptions C16_tq_spec_is_rq_spec.

(* not vacuous: A (priority 1 at the poll, 3 in its lock response) goes before B (priority 2); a pass that
   starts B and unlocks A at quota is rejected *)
Theorem C16_tq_example :
  let polled := [E 1 0 1 0; E 2 0 2 0] in
  let resps := [RS 1 1 3; RS 2 1 2] in
  told polled resps = [E 1 1 3 0; E 2 1 2 0] /\
  C16_tq.spec_b (mktq polled resps [] [(0%N, 1)] (mkstub [false] [] [(0%N, [false])] [(0%N, 1)])
               [EKill 1 false; EStart 0 1 true; ECreate 0 false] [] []) = true /\
  C16_tq.model_b (mktq polled resps [] [(0%N, 1)] (mkstub [false] [] [(0%N, [false])] [(0%N, 1)])
               [EKill 1 false; EStart 0 1 true; ECreate 0 false] [] []) = true /\
  C16_tq.spec_b (mktq polled resps [] [(0%N, 1)] (mkstub [true] [] [] [(0%N, 1)])
               [EKill 2 false; EStart 0 2 true; EUnlock 1] [] []) = false.
Proof. exact tq_example. Qed.
Print Assumptions C16_tq_example.
