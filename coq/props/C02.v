(* C02 — keepstore PUT is all-or-nothing and survives process death once acknowledged.
   Property theorems only; each is closed by `exact` of a lemma from proofs/C02_*.v.
   Model: model/C02_model.v — the PUT write path (CompareAndTouch, Touch, WriteBlock with every write
   of the copy loop) as a step program over per-volume disk states; crash k = the disk after the first
   k steps (= the process was killed at yield point k); a restart is "same disk, fresh handler". *)
From Coq Require Import NArith List String Bool.
From AV Require Import lib.Str model.C02_model model.C02_run proofs.C02_proofs proofs.C02_spec_proofs.
Import ListNotations.
Local Open Scope N_scope.

(* put_crash_atomic: for every body length L, every list of volumes in any prior state (hash absent,
   intact copy, corrupt copy, on any volume), whatever the writer's data source does, and EVERY crash
   point k: each volume's block file is what it was before or the complete body *)
Theorem C02_put_crash_atomic : forall vs L src k,
  Forall2 (fun v v' => (d_blk v' = d_blk v \/ d_blk v' = Some KGood) /\ d_ro v' = d_ro v) vs (crash vs L src k).
Proof. exact put_crash_atomic. Qed.
Print Assumptions C02_put_crash_atomic.

(* ... hence /index after a crash lists only what it listed before, or the new block with its true size *)
Theorem C02_crash_index : forall vs L src k n, In n (index L (crash vs L src k)) -> In n (index L vs) \/ n = L.
Proof. exact crash_index. Qed.
Print Assumptions C02_crash_index.

(* tmp_not_block: temp files are never visible as blocks *)
Theorem C02_tmp_not_block : forall h suffix, is_block_name (tmp_name h suffix) = false.
Proof. exact tmp_not_block. Qed.
Print Assumptions C02_tmp_not_block.

(* put_ack_durable: once acknowledged, GET on the disk left behind serves the complete block *)
Theorem C02_put_ack_durable : forall vs L src e, snd (put_prog vs L src) = true -> get_block (finish vs L src) e = GData.
Proof. exact put_ack_durable. Qed.
Print Assumptions C02_put_ack_durable.

(* put_cancel_safe: a writer that sees an error instead of EOF (client disconnect / context cancel at
   any point) never renames and removes its temp file; the request is not acknowledged unless an
   identical copy already existed *)
Theorem C02_put_cancel_safe : forall vs L src,
  (match src with Complete => False | _ => True end) ->
  Forall2 (fun v v' => d_blk v' = d_blk v /\ (d_tmp v = None -> d_tmp v' = None)) vs (finish vs L src) /\
  snd (put_prog vs L src) = false \/ (exists v, In v vs /\ d_ro v = false /\ d_blk v = Some KGood).
Proof. exact put_cancel_safe. Qed.
Print Assumptions C02_put_cancel_safe.

(* handler_ack_after_put *)
Theorem C02_handler_ack_after_put : forall vs L src, snd (put_prog vs L src) = true ->
  src = Complete \/ exists v, In v vs /\ d_ro v = false /\ d_blk v = Some KGood.
Proof. exact handler_ack_after_put. Qed.
Print Assumptions C02_handler_ack_after_put.

(* the boolean oracle that judges the implementation is the Prop-level specification ... *)
Theorem C02_spec_b_reflects : forall c, spec_b c = true <-> Spec c.
Proof. exact spec_b_iff. Qed.
Print Assumptions C02_spec_b_reflects.

(* ... and the model satisfies it at every crash point *)
Theorem C02_model_meets_spec : forall h L vs src k, is_block_name h = true -> Spec (model_case h L vs src k).
Proof. exact model_meets_spec. Qed.
Print Assumptions C02_model_meets_spec.

(* satisfiable: a 40000-byte PUT over a corrupt copy, killed at the flock of the old file (temp file
   complete, block file still the corrupt one), and run to completion *)
Theorem C02_example_crash : crash [D false true (Some (KCorrupt 5)) None] 40000 Complete 10 = [D false true (Some (KCorrupt 5)) (Some 40000)].
Proof. exact ex_crash_mid. Qed.
Print Assumptions C02_example_crash.
Theorem C02_example_finish : finish [D false true (Some (KCorrupt 5)) None] 40000 Complete = [D false true (Some KGood) None].
Proof. exact ex_finish. Qed.
Print Assumptions C02_example_finish.

(* ---- full volumes (IsFull(): fresh <root>/full marker or too little free space) and the fallback loop of
   PutBlock ---- *)
(* a complete upload is acknowledged whenever some writable volume is not full, whichever volume the
   round-robin picked first; by C02_put_ack_durable the block is then retrievable after a restart *)
Theorem C02_put_some_free_acked : forall vs L,
  (exists v, In v vs /\ d_ro v = false /\ d_full v = false) -> snd (put_prog vs L Complete) = true.
Proof. exact put_some_free_acked. Qed.
Print Assumptions C02_put_some_free_acked.

(* when every writable volume is full (and no identical copy can be touched) the request is refused and no
   step of the write path changes anything *)
Theorem C02_put_all_full_refused : forall vs L,
  (forall v, In v vs -> d_ro v = false -> d_full v = true) -> snd (compare_and_touch vs 0) = false ->
  snd (put_prog vs L Complete) = false /\ inert (fst (put_prog vs L Complete)).
Proof. exact put_all_full_refused. Qed.
Print Assumptions C02_put_all_full_refused.

(* regression witness about a VARIANT only (FullError from the round-robin volume taken as success):
   acknowledged, nothing written, nothing to GET -- while the model acknowledges AND stores *)
Theorem C02_variant_full_as_success_refuted :
  exists vs L, snd (put_prog_fullok vs L) = true /\ get_block (apply_all L (fst (put_prog_fullok vs L)) vs) 404 = GErr 404 /\
               snd (put_prog vs L Complete) = true /\ get_block (finish vs L Complete) 404 = GData.
Proof. exact variant_full_as_success_refuted. Qed.
Print Assumptions C02_variant_full_as_success_refuted.
