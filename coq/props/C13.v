(* C13 — concurrent use of a collection filesystem never loses or mixes file data.
   The model (model/CFS_bg.v) makes every Keep write an explicit pending record that completes at an
   arbitrary later point of the history, with the outcome the fake Keep chose; foreground operations
   are the atomic steps the Go code performs under the node locks.  Property theorems only. *)
From Coq Require Import List Arith Bool String.
From AV Require Import model.CFS_file model.CFS_tree model.CFS_inst model.C08_run model.CFS_bg model.CFS_run
  proofs.CFS_file_proofs proofs.CFS_refine proofs.CFS_tree_proofs proofs.CFS_bg_proofs proofs.CFS_hist_proofs.
Import ListNotations.

(* Whole histories: for EVERY interleaving of foreground operations (any number of handles/workers),
   explicit flushes, saves, completions of background writes in any order and at any later time,
   and Keep failure modes, the observations of the foreground operations are exactly those of the
   plain byte-array filesystem applied to the foreground operations alone.  So slow, reordered or
   failing background writes never change what readers see and never resurrect overwritten data,
   and each file's content is the result of the operations issued on it, in order. *)
Theorem C13_history_refines : forall mb, 1 <= mb -> forall tab es,
  bouts mb tab (binit mb tab (fs_init (Conc mb))) es = run Spec (fs_init Spec) (fg_ops es).
Proof.
  intros mb Hmb tab es.
  exact (bg_history_refines mb Hmb tab es (binit mb tab (fs_init (Conc mb))) (BInv_init mb Hmb tab)).
Qed.
Print Assumptions C13_history_refines.

(* ... from every state satisfying the invariant, one event at a time *)
Theorem C13_event_refines : forall mb, 1 <= mb -> forall tab st e, BInv mb st ->
  let '(st', o) := bexec mb tab st e in
  BInv mb st' /\ spec_effect e o (abs mb (fsys mb st)) (abs mb (fsys mb st')).
Proof. exact bexec_ok. Qed.
Print Assumptions C13_event_refines.

(* the heart of it: when a background write returns - whenever, in whatever order, successfully or
   not - and its result is installed after the Go code's re-validation, no file content changes *)
Theorem C13_completion_invisible : forall mb, 1 <= mb -> forall st id, BInv mb st ->
  abs mb (fsys mb (complete mb st id)) = abs mb (fsys mb st) /\ BInv mb (complete mb st id).
Proof. exact complete_ok. Qed.
Print Assumptions C13_completion_invisible.

(* a Write that starts background writes (pruning inside the loop) is the plain write *)
Theorem C13_write_with_pruning_refines : forall mb, 1 <= mb -> forall st h data, BInv mb st ->
  let '(st', r) := b_write mb st h data in
  h_write Spec (abs mb (fsys mb st)) h data = (abs mb (fsys mb st'), r) /\ BInv mb st'.
Proof. exact b_write_sim. Qed.
Print Assumptions C13_write_with_pruning_refines.

Theorem C13_flush_invisible : forall mb, 1 <= mb -> forall st path short, BInv mb st ->
  quiet mb st (fst (b_flush mb st path short)).
Proof. exact b_flush_quiet. Qed.
Print Assumptions C13_flush_invisible.

(* the invariant's premises are satisfiable: the initial state is good *)
Theorem C13_init_good : forall mb, 1 <= mb -> forall tab, BInv mb (binit mb tab (fs_init (Conc mb))).
Proof. exact BInv_init. Qed.
Print Assumptions C13_init_good.

(* ---- manifests saved during or after the activity ---- *)
From AV Require Import model.CFS_tload proofs.CFS_rt_defs proofs.CFS_line_proofs proofs.CFS_ents_inv proofs.CFS_roundtrip proofs.CFS_flush_proofs proofs.CFS_depth_inv.

(* Every manifest that a save returns at ANY point of ANY interleaved history loads cleanly, and the
   loaded tree is exactly the tree of the plain byte-array filesystem after the foreground operations
   issued so far (in their order in the history, i.e. each file holds a content it actually passed
   through: the one at the save's linearisation point) - whatever background writes were in flight,
   completed, failed or reordered before the save.  Side conditions as in C09 (locator table hygiene,
   store covered by the table), each evaluated on every save of every case. *)
Theorem C13_save_during_activity_round_trips : forall mb, 1 <= mb -> forall tab es st1 txt,
  let st := bfinal mb tab (binit mb tab (fs_init (Conc mb))) es in
  b_marshal mb tab st = (st1, Ok txt) ->
  tab_ok_b tab = true -> in_tab_b tab (blocks mb st1) = true ->
  exists t, t_load tab txt = Some t /\
            listing_T "." t = tree_listing Spec (fun b => b) (fg_final Spec (fs_init Spec) (fg_ops es)).
Proof.
  intros mb Hmb tab es st1 txt st Em Ht Hi.
  pose proof (bg_history_deep_ok mb Hmb tab es) as Hd. cbv zeta in Hd. fold st in Hd.
  assert (HB0 : BInv mb (binit mb tab (fs_init (Conc mb)))) by (apply BInv_init; exact Hmb).
  assert (HB : BInv mb st) by (apply (bg_history_invariant mb Hmb tab es); exact HB0).
  assert (HE : EntsOK (Conc mb) (fsys mb st)) by (apply (bg_history_EntsOK mb Hmb tab _ es); apply EntsOK_init).
  destruct (b_marshal_round_trip mb Hmb tab st st1 txt (tab_ok_b_spec tab Ht) HB HE Em (in_tab_b_spec tab _ Hi)
              (b_marshal_ready mb Hmb tab st st1 txt HB Em Hd)) as (t & Hl & Hlist).
  exists t. split; [exact Hl|]. rewrite Hlist. unfold st.
  rewrite (bg_history_state mb Hmb tab es _ HB0). cbn [binit fsys]. rewrite (abs_init mb). reflexivity.
Qed.
Print Assumptions C13_save_during_activity_round_trips.
