(* C14 / C15 — evaluator for the worker stage: operation sequences driven through the real worker.Pool
   (in-package, stub instance set, stub executors) against the state machine of model/C14_pool.v.
   After every operation the observable projection of the pool is compared. *)
From Coq Require Import List ZArith Bool NArith.
From AV Require Import model.C16_runq model.C14_pool.
Import ListNotations.
Local Open Scope Z_scope.

Inductive op :=
| OSync (listed : list (N * N * ibeh))      (* Pool.sync with this cloud listing *)
| OCreate (it newid outcome : N)            (* Pool.Create + completion of the cloud call *)
| OProbe (id : N) (r : presp)               (* a whole probeAndUpdate *)
| OProbeBegin (id : N) (r : presp)          (* probeAndUpdate up to the point where crunch-run --list has answered *)
| OProbeEnd (id : N)                        (* ... the rest of it *)
| OStart (it u : N)                         (* Pool.StartContainer *)
| OLands (id u : N)                         (* the start command returned *)
| OKill (u : N)                             (* Pool.KillContainer *)
| OKillDelivered (id u : N)                 (* a SIGTERM round succeeded *)
| OGiveUp (id u : N)                        (* timeoutTERM reached *)
| OForget (u : N)                           (* Pool.ForgetContainer *)
| OSetIB (id : N) (b : ibeh)                (* Pool.SetIdleBehavior *)
| OShutdown (it chosen : N)                 (* Pool.Shutdown(it); chosen = instance whose Destroy was called *)
| OSweep                                    (* the shutdownIfIdle sweep of a runProbes round *)
| OAtQuota                                  (* Pool.AtQuota *)
| ORestart                                  (* a new Pool on the same cloud *)
| OStuck (what : N)                         (* STUCK: an effect the previous operation must have (the model has it)
                                               did not arrive within the watchdog deadline; the scenario ends here.
                                               1 create 2 start command 3 landing 4 kill delivered 5 give-up
                                               6 probe 7 destroy call 8 other *)
| OSyncBegin (listed : list (N * N * ibeh))  (* getInstancesAndSync up to the point where the cloud has the list request:
                                               the threshold is taken, the answer is the listing as of now *)
| OSyncEnd.                                  (* ... the answer arrives and Pool.sync(threshold, answer) runs *)

(* observable projection: return value; Running() as (uuid, exited?); Unallocated(); CountWorkers() for
   unknown/booting/idle/running/shutdown; Instances() as (id, state, idle behavior, last uuid, Destroy calls);
   and, from the environment (not from the pool): the live crunch-run processes of the stub VMs as
   (instance, uuid), one entry per process *)
Record obs := mkobs {
  ob_ret : N;
  ob_running : list (N * bool);
  ob_unalloc : list (N * Z);
  ob_counts : list nat;
  ob_inst : list (N * N * N * N * N);
  ob_live : list (N * N)
}.

Record mstate := mkms { ms_pool : wpool; ms_pending : list (probe0 * presp);
                        ms_sync : option (Z * list (N * N * ibeh)) (* a list request in flight: threshold, answer *) }.

Definition st_code (s : wstate) : N := match s with WUnknown => 0 | WBooting => 1 | WIdle => 2 | WRunning => 3 | WShutdown => 4 end%N.
Definition ib_code (b : ibeh) : N := match b with IRun => 0 | IHold => 1 | IDrain => 2 end%N.

(* Pool.sync(threshold, listed) with the threshold given: pool_sync of model/C14_pool.v is the case where the
   threshold is taken immediately before (proofs/C14_wp.v: pool_sync_is_sync_at) *)
Definition pool_sync_at (c : cfg) (threshold : Z) (listed : list (N * N * ibeh)) (p : wpool) : wpool :=
  let (ws, clock) := sync_listed c listed (p_workers p) (p_clock p) in
  mkp (filter (fun w => threshold <? w_updated w) ws) (p_exited p) clock (p_quota p) true.

Definition bret (b : bool) : N := if b then 1%N else 0%N.

Definition apply_op (c : cfg) (o : op) (m : mstate) : N * mstate :=
  let p := ms_pool m in
  (* time passes between operations *)
  let p := snd (tick p) in
  match o with
  | OSync l => (0%N, mkms (pool_sync c l p) (ms_pending m) (ms_sync m))
  | OCreate it id oc => let (b, p') := pool_create it id oc p in (bret b, mkms p' (ms_pending m) (ms_sync m))
  | OProbe id r =>
      match probe_begin id p with
      | (None, p') => (0%N, mkms p' (ms_pending m) (ms_sync m))
      | (Some pb, p') => (0%N, mkms (probe_end c pb r p') (ms_pending m) (ms_sync m))
      end
  | OProbeBegin id r =>
      match probe_begin id p with
      | (None, p') => (0%N, mkms p' (ms_pending m) (ms_sync m))
      | (Some pb, p') =>
          if probe_lists pb r then (0%N, mkms p' ((pb, r) :: ms_pending m) (ms_sync m))
          else (0%N, mkms (probe_end c pb r p') (ms_pending m) (ms_sync m))
      end
  | OProbeEnd id =>
      match filter (fun x => N.eqb (pb_id (fst x)) id) (ms_pending m) with
      | (pb, r) :: _ => (0%N, mkms (probe_end c pb r p) (filter (fun x => negb (N.eqb (pb_id (fst x)) id)) (ms_pending m)) (ms_sync m))
      | [] => (0%N, mkms p (ms_pending m) (ms_sync m))
      end
  | OStart it u => let (r, p') := pool_start it u p in
                   (match r with Some id => (id + 1)%N | None => 0%N end, mkms p' (ms_pending m) (ms_sync m))
  | OLands id u => (0%N, mkms (start_lands id u p) (ms_pending m) (ms_sync m))
  | OKill u => let (b, p') := pool_kill u p in (bret b, mkms p' (ms_pending m) (ms_sync m))
  | OKillDelivered id u => (0%N, mkms (kill_delivered id u p) (ms_pending m) (ms_sync m))
  | OGiveUp id u => (0%N, mkms (give_up c id u p) (ms_pending m) (ms_sync m))
  | OForget u => (0%N, mkms (pool_forget u p) (ms_pending m) (ms_sync m))
  | OSetIB id b => (0%N, mkms (pool_set_ib c id b p) (ms_pending m) (ms_sync m))
  | OShutdown it ch => let (b, p') := pool_shutdown it ch p in (bret b, mkms p' (ms_pending m) (ms_sync m))
  | OSweep => (0%N, mkms (pool_sweep c p) (ms_pending m) (ms_sync m))
  | OAtQuota => (bret (p_quota p), mkms p (ms_pending m) (ms_sync m))
  | ORestart => (0%N, mkms (empty_pool (p_clock p)) [] None)
  | OStuck _ => (0%N, mkms p (ms_pending m) (ms_sync m))
  | OSyncBegin l => let (threshold, p1) := tick p in (0%N, mkms p1 (ms_pending m) (Some (threshold, l)))
  | OSyncEnd =>
      match ms_sync m with
      | Some (threshold, l) => (0%N, mkms (pool_sync_at c threshold l p) (ms_pending m) None)
      | None => (0%N, mkms p (ms_pending m) None)
      end
  end.

(* ---- canonical projection of the model state ---- *)
Fixpoint ins_by {A} (key : A -> N) (x : A) (l : list A) : list A :=
  match l with [] => [x] | y :: r => if (key x <=? key y)%N then x :: l else y :: ins_by key x r end.
Definition sort_by {A} (key : A -> N) (l : list A) : list A := fold_right (ins_by key) [] l.

Definition project (ret : N) (p : wpool) : obs :=
  mkobs ret
        (sort_by fst (map (fun kv => (fst kv, negb (snd kv =? 0))) (pool_running p)))
        (sort_by fst (pool_unallocated p))
        [pool_count p WUnknown; pool_count p WBooting; pool_count p WIdle; pool_count p WRunning; pool_count p WShutdown]
        (sort_by (fun x => match x with (id, _, _, _, _) => id end)
                 (map (fun w => (w_id w, st_code (w_st w), ib_code (w_ib w), w_last w, w_destroys w)) (p_workers p)))
        [].

Definition pairNb_eqb (a b : N * bool) : bool := N.eqb (fst a) (fst b) && Bool.eqb (snd a) (snd b).
Definition pairNZ_eqb (a b : N * Z) : bool := N.eqb (fst a) (fst b) && Z.eqb (snd a) (snd b).
Definition inst_eqb (a b : N * N * N * N * N) : bool :=
  match a, b with (a1, a2, a3, a4, a5), (b1, b2, b3, b4, b5) => N.eqb a1 b1 && N.eqb a2 b2 && N.eqb a3 b3 && N.eqb a4 b4 && N.eqb a5 b5 end.
Fixpoint list_eqb {A} (f : A -> A -> bool) (a b : list A) : bool :=
  match a, b with [], [] => true | x :: r, y :: s => f x y && list_eqb f r s | _, _ => false end.
Definition obs_eqb (a b : obs) : bool :=
  N.eqb (ob_ret a) (ob_ret b) && list_eqb pairNb_eqb (ob_running a) (ob_running b) &&
  list_eqb pairNZ_eqb (ob_unalloc a) (ob_unalloc b) && list_eqb Nat.eqb (ob_counts a) (ob_counts b) &&
  list_eqb inst_eqb (ob_inst a) (ob_inst b).

Record case := mkwp {
  wc_cfg : cfg;
  wc_steps : list (op * obs)      (* operation and what the real pool showed afterwards *)
}.

(* OShutdown carries the observed choice: it must be one the code may take *)
Definition choice_ok (o : op) (p : wpool) : bool :=
  match o with
  | OShutdown it ch => match shutdown_candidates it (snd (tick p)) with [] => true | l => memN ch l end
  | _ => true
  end.

Fixpoint run_steps (c : cfg) (steps : list (op * obs)) (m : mstate) : bool :=
  match steps with
  | [] => true
  | (o, ob) :: r =>
      let '(ret, m') := apply_op c o m in
      (* in the model every awaited effect arrives: a STUCK step is a disagreement *)
      match o with OStuck _ => false | _ => true end &&
      choice_ok o (ms_pool m) && obs_eqb (project ret (ms_pool m')) ob && run_steps c r m'
  end.

Definition model_b (c : case) : bool := run_steps (wc_cfg c) (wc_steps c) (mkms (empty_pool 0) [] None).

(* ---------------- specification on the observed sequence (worker-level clauses of C14 / C15) ---------------- *)
Fixpoint find_inst (id : N) (l : list (N * N * N * N * N)) : option (N * N) :=
  match l with
  | [] => None
  | (i, st, ib, _, _) :: r => if N.eqb i id then Some (st, ib) else find_inst id r
  end.

(* instances the present pool has shut down: it has shown them in state shutdown.  StateShutdown is final for a
   worker (proofs/C14_wp.v: shutdown_is_terminal); only a new pool (ORestart) sees the instance afresh. *)
Definition inst_ids (ob : obs) : list N := map (fun x => match x with (i, _, _, _, _) => i end) (ob_inst ob).
Definition shut_now (ob : obs) : list N :=
  flat_map (fun x => match x with (i, st, _, _, _) => if N.eqb st 4 then [i] else [] end) (ob_inst ob).
Definition next_shut (shut : list N) (o : op) (ob : obs) : list N :=
  match o with ORestart => [] | _ => shut_now ob ++ filter (fun i => memN i (inst_ids ob)) shut end.

(* instances whose processes the present pool has discovered: it has shown them booting (it created them: they
   run nothing else), idle or running (a crunch-run --list answer has been applied).  An instance that went
   from unknown straight to shutdown is NOT discovered (environment assumption A3 of C14). *)
Definition disc_now (ob : obs) : list N :=
  flat_map (fun x => match x with (i, st, _, _, _) => if N.eqb st 1 || N.eqb st 2 || N.eqb st 3 then [i] else [] end) (ob_inst ob).
Definition next_disc (disc : list N) (o : op) (ob : obs) : list N :=
  match o with ORestart => [] | _ => disc_now ob ++ filter (fun i => memN i (inst_ids ob)) disc end.

Definition live_on (disc : list N) (ob : obs) : list (N * N) := filter (fun vu => memN (fst vu) disc) (ob_live ob).
Fixpoint nodup_uuid (l : list (N * N)) : bool :=
  match l with [] => true | x :: r => negb (existsb (fun y => N.eqb (snd x) (snd y)) r) && nodup_uuid r end.

(* the instances shown when the list request that is in flight was issued *)
Definition next_sb (sb : option (list N)) (o : op) (ob : obs) : option (list N) :=
  match o with OSyncBegin _ => Some (inst_ids ob) | OSyncEnd | ORestart => None | _ => sb end.

Definition step_ok (shut disc : list N) (sb : option (list N)) (prev : obs) (o : op) (ob : obs) : bool :=
  match o with
  | OStart it u =>
      N.eqb (ob_ret ob) 0 ||
      ((* C14: only on an instance shown idle with IdleBehavior run immediately before ... *)
       match find_inst (ob_ret ob - 1) (ob_inst prev) with
       | Some (st, ib) => N.eqb st 2 && N.eqb ib 0
       | None => false
       end &&
       (* ... never on one this pool has shut down (even if it shows it idle again) ... *)
       negb (memN (ob_ret ob - 1) shut) &&
       (* ... and never while a crunch-run process of that container is alive on a discovered instance *)
       negb (memN u (map snd (live_on disc prev))))
  | OCreate _ _ oc =>
      (* C15: a Create that failed in the cloud leaves no phantom capacity behind *)
      N.eqb oc 0 || list_eqb pairNZ_eqb (ob_unalloc ob) (ob_unalloc prev)
  | OSyncEnd =>
      (* C14 (bookkeeping covers processes): the answer to a list request is a snapshot from when the request was
         issued; an instance that has appeared in the pool since then is not dropped by that sync *)
      match sb with
      | Some b => forallb (fun i => memN i b || memN i (inst_ids ob)) (inst_ids prev)
      | None => true
      end
  | _ => true
  end &&
  (* C14: at most one live crunch-run process per container on the instances the pool has discovered *)
  nodup_uuid (live_on (next_disc disc o ob) ob).

Fixpoint spec_steps (shut disc : list N) (sb : option (list N)) (prev : obs) (steps : list (op * obs)) : bool :=
  match steps with
  | [] => true
  | (o, ob) :: r => step_ok shut disc sb prev o ob && spec_steps (next_shut shut o ob) (next_disc disc o ob) (next_sb sb o ob) ob r
  end.
Definition empty_obs : obs := mkobs 0 [] [] [0; 0; 0; 0; 0]%nat [] [].
Definition spec_b (c : case) : bool := spec_steps [] [] None empty_obs (wc_steps c).

Definition check_case (c : case) : N :=
  ((if model_b c then 0 else 1) + (if spec_b c then 0 else 2))%N.
Fixpoint failing_from (i : N) (cs : list case) : list (N * N) :=
  match cs with
  | [] => []
  | c :: r => let k := check_case c in
              if N.eqb k 0 then failing_from (N.succ i) r else (i, k) :: failing_from (N.succ i) r
  end.
Definition failing (cs : list case) : list (N * N) := failing_from 0%N cs.

Definition R (boot lok : bool) (uuids : list N) (broken stale : bool) : presp := mkpr boot lok uuids broken stale.
Definition Ob (ret : N) (run : list (N * bool)) (un : list (N * Z)) (cnt : list nat) (inst : list (N * N * N * N * N))
              (live : list (N * N)) : obs :=
  mkobs ret run un cnt inst live.

(* ---------------- the same specification as propositions (statements of proofs/C14_wp.v) ---------------- *)
(* one step, as a proposition *)
Definition step_P (shut disc : list N) (sb : option (list N)) (prev : obs) (o : op) (ob : obs) : Prop :=
  match o with
  | OStart it u =>
      ob_ret ob = 0%N \/
      (find_inst (ob_ret ob - 1) (ob_inst prev) = Some (2%N, 0%N) /\      (* shown idle, IdleBehavior run *)
       ~ In (ob_ret ob - 1)%N shut /\                                      (* never shown shut down by this pool *)
       ~ In u (map snd (live_on disc prev)))                               (* no live process of u on a discovered instance *)
  | OCreate _ _ oc => oc = 0%N \/ ob_unalloc ob = ob_unalloc prev
  | OSyncEnd => forall b, sb = Some b -> forall i, In i (inst_ids prev) -> ~ In i b -> In i (inst_ids ob)
  | _ => True
  end /\ NoDup (map snd (live_on (next_disc disc o ob) ob)).

Fixpoint spec_P (shut disc : list N) (sb : option (list N)) (prev : obs) (steps : list (op * obs)) : Prop :=
  match steps with
  | [] => True
  | (o, ob) :: r => step_P shut disc sb prev o ob /\ spec_P (next_shut shut o ob) (next_disc disc o ob) (next_sb sb o ob) ob r
  end.


(* the clauses of step_P that speak about the pool only (not about the environment's process list) *)
Definition pool_clause (shut : list N) (sb : option (list N)) (prev : obs) (o : op) (ob : obs) : Prop :=
  match o with
  | OStart it u => ob_ret ob = 0%N \/ (find_inst (ob_ret ob - 1) (ob_inst prev) = Some (2%N, 0%N) /\ ~ In (ob_ret ob - 1)%N shut)
  | OCreate _ _ oc => oc = 0%N \/ ob_unalloc ob = ob_unalloc prev
  | OSyncEnd => forall b, sb = Some b -> forall i, In i (inst_ids prev) -> ~ In i b -> In i (inst_ids ob)
  | _ => True
  end.

Fixpoint pool_clauses (shut : list N) (sb : option (list N)) (prev : obs) (steps : list (op * obs)) : Prop :=
  match steps with
  | [] => True
  | (o, ob) :: r => pool_clause shut sb prev o ob /\ pool_clauses (next_shut shut o ob) (next_sb sb o ob) ob r
  end.

(* instance ids of the model pool; the cloud hands out fresh instance ids *)
Definition ids (p : wpool) : list N := map w_id (p_workers p).
Definition fresh_create (o : op) (p : wpool) : Prop :=
  match o with OCreate _ id _ => ~ In id (ids p) | _ => True end.

Definition fresh_obs (o : op) (prev : obs) : Prop :=
  match o with OCreate _ id _ => ~ In id (inst_ids prev) | _ => True end.
Fixpoint fresh_ids (prev : obs) (steps : list (op * obs)) : Prop :=
  match steps with [] => True | (o, ob) :: r => fresh_obs o prev /\ fresh_ids ob r end.

Definition shut_id (i : N) (p : wpool) : Prop := exists w, In w (p_workers p) /\ w_id w = i /\ w_st w = WShutdown.
Definition only_shut (i : N) (p : wpool) : Prop := forall w, In w (p_workers p) -> w_id w = i -> w_st w = WShutdown.

