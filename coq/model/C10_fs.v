(* C10 — model of the collection filesystem's manifest codec and of the portable data hash.
     fs_load         sdk/go/arvados/fs_collection.go  dirnode.loadManifest + createFileAndParents
     fs_marshal      sdk/go/arvados/fs_collection.go  dirnode.marshalManifest (files hold only stored segments: the
                                                       flush it calls changes nothing)
     fs_escape/fs_unescape                            manifestEscape / manifestUnescape
     pdh, sized_digests  sdk/go/arvados/collection.go PortableDataHash, Collection.SizedDigests
   The tree is kept flat: a list of directory paths and a list of files, paths as component lists below the root.
   Not modelled: pos/next accumulate in int64 without wrapping (needs >= 2^32 locators in one stream). *)
From Coq Require Import NArith List Ascii String Bool.
From AV Require Import lib.Str lib.Md5 model.C10_manifest model.C10_ranges.
Import ListNotations.
Local Open Scope string_scope.

(* strconv.ParseInt(s, 10, bits): optional sign, then digits; None = syntax or range error *)
Definition parse_int (bits : N) (s : string) : option (bool * N) :=
  let '(neg, body) :=
    match s with
    | String a r => if Ascii.eqb a "+"%char then (false, r) else if Ascii.eqb a "-"%char then (true, r) else (false, s)
    | EmptyString => (false, s)
    end in
  if all_digits body then
    let v := dec_val body in
    if neg then (if (v <=? 2 ^ (bits - 1))%N then Some (true, v) else None)
    else (if (v <? 2 ^ (bits - 1))%N then Some (false, v) else None)
  else None.
(* the callers' "err != nil || x < 0" *)
Definition parse_nonneg (bits : N) (s : string) : option N :=
  match parse_int bits s with
  | Some (false, v) => Some v
  | Some (true, v) => if (v =? 0)%N then Some 0%N else None
  | None => None
  end.

Definition fs_unescape : string -> string := unescape_with is_octd.     (* regexp \\([0-7]{3}|\\) *)
Definition fs_escape : string -> string := escape_with must_escape.     (* regexp [\000-\040:\s\\] *)

(* ---------- tree ---------- *)
Definition fpath := list string.
Record fstree := { t_dirs : list fpath; t_files : list (fpath * list seg) }.
Definition empty_tree : fstree := {| t_dirs := []; t_files := [] |}.
Fixpoint path_eqb (a b : fpath) : bool :=
  match a, b with
  | [], [] => true
  | x :: r, y :: s => String.eqb x y && path_eqb r s
  | _, _ => false
  end.
Definition is_dir (t : fstree) (p : fpath) : bool := existsb (path_eqb p) (t_dirs t).
Definition is_file (t : fstree) (p : fpath) : bool := existsb (fun e => path_eqb p (fst e)) (t_files t).
Definition add_dir (t : fstree) (p : fpath) : fstree :=
  if is_dir t p then t else {| t_dirs := (t_dirs t ++ [p])%list; t_files := t_files t |}.
Definition add_file (t : fstree) (p : fpath) : fstree :=
  if is_file t p then t else {| t_dirs := t_dirs t; t_files := (t_files t ++ [(p, [])])%list |}.
Definition append_segs (t : fstree) (p : fpath) (l : list seg) : fstree :=
  {| t_dirs := t_dirs t;
     t_files := map (fun e => if path_eqb p (fst e) then (fst e, (snd e ++ l)%list) else e) (t_files t) |}.

(* the loop over names[:len(names)-1] in createFileAndParents; None = error.  (dirnode.Child's special case for
   ".arvados#collection" does not apply here: fs.root is still nil while loadManifest runs.) *)
Fixpoint walk_dirs (t : fstree) (node : fpath) (names : list string) : option (fstree * fpath) :=
  match names with
  | [] => Some (t, node)
  | name :: r =>
      if String.eqb name "" || String.eqb name "." then walk_dirs t node r
      else if String.eqb name ".." then
        match node with
        | [] => None                                             (* node == dn: ErrInvalidArgument *)
        | _ => walk_dirs t (removelast node) r
        end
      else
        let q := (node ++ [name])%list in
        if is_file t q then None                                 (* ErrFileExists *)
        else walk_dirs (add_dir t q) q r
  end.

(* createFileAndParents: None = error; Some (t, None) = "(nil, nil)"; Some (t, Some p) = file node p *)
Definition create_file_and_parents (t : fstree) (path : string) : option (fstree * option fpath) :=
  let names := split_on c_slash path in
  let basename := last_str names "" in
  match walk_dirs t [] (removelast names) with
  | None => None
  | Some (t1, node) =>
      if String.eqb basename "." then Some (t1, None)
      else if String.eqb basename "" || String.eqb basename ".." then None          (* !permittedName *)
      else
        let q := (node ++ [basename])%list in
        if is_dir t1 q then None                                 (* ErrIsDirectory *)
        else Some (add_file t1 q, Some q)
  end.

(* ---------- loadManifest ---------- *)
Record lstate := {
  l_tree : fstree;
  l_segs : list (string * N);        (* segments: locator token, size *)
  l_any : bool;                      (* anyFileTokens *)
  l_cur : nat * N                    (* segIdx, pos *)
}.

Definition fs_loc_size (tok : string) : option N :=
  match split_on c_plus tok with
  | _ :: sz :: _ => parse_nonneg 32 sz
  | _ => None
  end.

Definition load_token (dirname : string) (st : lstate) (token : string) : option lstate :=
  if negb (contains_char c_colon token) then
    if l_any st then None
    else match fs_loc_size token with
         | Some n => Some {| l_tree := l_tree st; l_segs := (l_segs st ++ [(token, n)])%list; l_any := false; l_cur := l_cur st |}
         | None => None
         end
  else
    match l_segs st with
    | [] => None
    | _ :: _ =>
        match splitn3 c_colon token with
        | [o; n; nm] =>
            match parse_nonneg 64 o, parse_nonneg 64 n with
            | Some offset, Some length =>
                (* "offset+length < offset" (int64 wrap): bad file segment *)
                if match fs_end offset length with None => true | Some _ => false end then None else
                let name := dirname ++ "/" ++ fs_unescape nm in
                match create_file_and_parents (l_tree st) name with
                | None => None
                | Some (t1, None) =>
                    if (length =? 0)%N
                    then Some {| l_tree := t1; l_segs := l_segs st; l_any := true; l_cur := l_cur st |}
                    else None
                | Some (t1, Some p) =>
                    match fs_map (map snd (l_segs st)) (l_cur st) offset length with
                    | FsRangeErr => None
                    | FsSegs sg i pos =>
                        Some {| l_tree := append_segs t1 p (name_segs (map fst (l_segs st)) sg);
                                l_segs := l_segs st; l_any := true; l_cur := (i, pos) |}
                    end
                end
            | _, _ => None
            end
        | _ => None
        end
    end.

Fixpoint load_tokens (dirname : string) (st : lstate) (toks : list string) : option lstate :=
  match toks with
  | [] => Some st
  | t :: r => match load_token dirname st t with Some st' => load_tokens dirname st' r | None => None end
  end.

Definition load_stream (t : fstree) (line : string) : option fstree :=
  match split_on c_sp line with
  | [] => None
  | nm :: toks =>
      let dirname := fs_unescape nm in
      match load_tokens dirname {| l_tree := t; l_segs := []; l_any := false; l_cur := (O, 0%N) |} toks with
      | Some st =>
          if negb (l_any st) then None
          else match l_segs st with [] => None | _ => if String.eqb dirname "" then None else Some (l_tree st) end
      | None => None
      end
  end.
Fixpoint load_streams (t : fstree) (ls : list string) : option fstree :=
  match ls with
  | [] => Some t
  | l :: r => match load_stream t l with Some t' => load_streams t' r | None => None end
  end.
(* None = loadManifest returns an error (Collection.FileSystem then returns no filesystem at all) *)
Definition fs_load (txt : string) : option fstree :=
  match lines_of txt with
  | Some ls => load_streams empty_tree ls
  | None => None
  end.

(* segments of a path "./a/b" in a loaded tree; [] if there is no such file *)
Definition path_string (p : fpath) : string := join "/" ("." :: p).
Definition fs_file_segs (t : fstree) (path : string) : list seg :=
  flat_map (fun e => if String.eqb (path_string (fst e)) path then snd e else []) (t_files t).
Definition fs_files (t : fstree) : list string := map (fun e => path_string (fst e)) (t_files t).
Definition fs_dirs (t : fstree) : list string := "." :: map path_string (t_dirs t).

(* ---------- marshalManifest ---------- *)
Fixpoint insert_str (x : string) (l : list string) : list string :=
  match l with
  | [] => [x]
  | y :: r => if str_ltb x y then x :: l else if String.eqb x y then l else y :: insert_str x r
  end.
Definition sort_strs (l : list string) : list string := fold_right insert_str [] l.   (* sorted, duplicates removed *)

(* direct children of directory p *)
Definition child_name (p q : fpath) : option string :=
  if Nat.eqb (List.length q) (S (List.length p)) && path_eqb p (firstn (List.length p) q)
  then Some (last_str q "") else None.
Definition child_names (p : fpath) (qs : list fpath) : list string :=
  flat_map (fun q => match child_name p q with Some n => [n] | None => [] end) qs.

Record filepart := { fp_name : string; fp_off : N; fp_len : N }.
Record mstate := { m_blocks : list string; m_len : N; m_parts : list filepart }.
Definition seg_size (sg : seg) : N :=
  let '(loc, _, _) := sg in match fs_loc_size loc with Some n => n | None => 0%N end.
Definition marshal_seg (name : string) (st : mstate) (sg : seg) : mstate :=
  let '(loc, off, len) := sg in
  let size := seg_size sg in
  let same := match rev (m_blocks st) with b :: _ => String.eqb b loc | [] => false end in
  let blocks := if same then m_blocks st else (m_blocks st ++ [loc])%list in
  let slen := if same then (m_len st - size)%N else m_len st in
  let next := {| fp_name := name; fp_off := (slen + off)%N; fp_len := len |} in
  let parts :=
    match rev (m_parts st) with
    | prev :: before =>
        if String.eqb (fp_name prev) name && (fp_off prev + fp_len prev =? fp_off next)%N
        then (rev before ++ [{| fp_name := name; fp_off := fp_off prev; fp_len := (fp_len prev + len)%N |}])%list
        else (m_parts st ++ [next])%list
    | [] => [next]
    end in
  {| m_blocks := blocks; m_len := (slen + size)%N; m_parts := parts |}.
Definition marshal_file (st : mstate) (name : string) (segs : list seg) : mstate :=
  match segs with
  | [] => {| m_blocks := m_blocks st; m_len := m_len st;
             m_parts := (m_parts st ++ [{| fp_name := name; fp_off := 0; fp_len := 0 |}])%list |}
  | _ => fold_left (marshal_seg name) segs st
  end.
Definition empty_block : string := "d41d8cd98f00b204e9800998ecf8427e+0".
Definition file_token (fp : filepart) : string := dec (fp_off fp) ++ ":" ++ dec (fp_len fp) ++ ":" ++ fs_escape (fp_name fp).

Definition find_file (t : fstree) (p : fpath) : list seg :=
  flat_map (fun e => if path_eqb p (fst e) then snd e else []) (t_files t).

Fixpoint marshal_dir (fuel : nat) (t : fstree) (p : fpath) : string :=
  match fuel with
  | O => ""
  | S f =>
      let prefix := path_string p in
      let dirnames := sort_strs (child_names p (t_dirs t)) in
      let filenames := sort_strs (child_names p (map fst (t_files t))) in
      match dirnames, filenames with
      | [], [] => match p with [] => "" | _ => fs_escape prefix ++ " " ++ empty_block ++ " 0:0:\056" ++ s_nl end
      | _, _ =>
          let st := fold_left (fun st name => marshal_file st name (find_file t (p ++ [name])%list)) filenames
                              {| m_blocks := []; m_len := 0; m_parts := [] |} in
          let rootdir :=
            match m_parts st with
            | [] => ""
            | _ => let blocks := match m_blocks st with [] => [empty_block] | b => b end in
                   fs_escape prefix ++ " " ++ join " " blocks ++ " " ++ join " " (map file_token (m_parts st)) ++ s_nl
            end in
          rootdir ++ sconcat (map (fun d => marshal_dir f t (p ++ [d])%list) dirnames)
      end
  end.
Definition fs_marshal (t : fstree) : string := marshal_dir (S (List.length (t_dirs t))) t [].

(* ---------- PortableDataHash ----------
   tokRe = ` ?[^ ]*` cuts the text into pieces "optional space + run of non-spaces" (a run may contain newlines);
   a piece that starts with blkRe = `^ [0-9a-f]{32}\+\d+` is replaced by that prefix. *)
Fixpoint take_while (p : ascii -> bool) (s : string) : string :=
  match s with EmptyString => "" | String a r => if p a then String a (take_while p r) else "" end.
Definition blk_prefix (piece : string) : option string :=       (* piece without its leading space *)
  let h := take 32 piece in
  if Nat.eqb (String.length h) 32 && all_chars is_lhex h then
    match drop 32 piece with
    | String a r => if Ascii.eqb a c_plus then
                      let ds := take_while is_digit r in
                      if String.eqb ds "" then None else Some (h ++ "+" ++ ds)
                    else None
    | EmptyString => None
    end
  else None.
Definition pdh_piece (piece : string) : string :=
  " " ++ match blk_prefix piece with Some b => b | None => piece end.
Definition pdh_text (txt : string) : string :=
  match split_on c_sp txt with
  | [] => ""
  | p0 :: r => p0 ++ sconcat (map pdh_piece r)
  end.
Definition pdh (txt : string) : string :=
  let t := pdh_text txt in md5hex t ++ "+" ++ dec (slen t).

(* ---------- Collection.SizedDigests (ManifestText non-empty) ----------
   bufio.Scanner lines: split at \n, a trailing \r is dropped, no final empty line. None = error. *)
Definition chomp_cr (s : string) : string :=
  match rev (list_ascii_of_string s) with
  | a :: r => if (cn a =? 13)%N then string_of_list_ascii (rev r) else s
  | [] => s
  end.
Definition scan_lines (txt : string) : list string :=
  let ls := split_on c_nl txt in
  let ls' := match rev ls with EmptyString :: r => rev r | _ => ls end in
  map chomp_cr ls'.
Definition go_locator : string -> bool := locator_with is_hex.          (* blockdigest.LocatorPattern *)
Fixpoint sd_tokens (toks : list string) : list string :=
  match toks with
  | [] => []
  | t :: r => if go_locator t then
                let rest := drop 33 t in
                (match cut_at c_plus rest with Some (a, _) => take 33 t ++ a | None => t end) :: sd_tokens r
              else []
  end.
Fixpoint sd_lines (ls : list string) : option (list string) :=
  match ls with
  | [] => Some []
  | l :: r =>
      let toks := split_on c_sp l in
      if Nat.ltb (List.length toks) 3 then None
      else match sd_lines r with Some ds => Some (sd_tokens (tl toks) ++ ds)%list | None => None end
  end.
Definition sized_digests (txt : string) : option (list string) := sd_lines (scan_lines txt).
