(* C05 — the algorithm of balanceBlock BEFORE the repairs (fix: commits 4181588, 0c179f4, b66ed86 in
   /repo): protection in trySlot regardless of class membership and counted per mount, `safe` counted per
   mount, desired classes without mounts ignored, lost only via a wanted empty slot.  Kept as a
   regression witness: proofs/C05_spec.v + props/C05.v show that this algorithm violates the
   specification (findings F1, F10, F12, F8) and under which hypotheses it met it.
   Not exercised by the harness any more.  Base definitions: model/C05_model.v. *)
From Coq Require Import List Arith Bool.
From AV Require Import model.C05_model.
Import ListNotations.

Section Block.
Variable dflt : nat.
Variable rank : nat -> nat.
Variable devrank : nat -> nat.
Variable minMtime : nat.

(* trySlot(i): new accumulator, new slots[i], and the returned "done" *)
Definition try_slot_old (desired : nat) (a : acc) (s : slot) : acc * slot * bool :=
  let m := smnt s in
  if mem (mid m) (wantMnt a) || (negb (dev m =? 0) && mem (dev m) (wantDev a)) then (a, s, false)
  else
    let a1 :=
      match srepl s with
      | Some mt =>
        if (replProt a <? desired) && negb (mem (mid m) (protMnt a)) then
          {| wantSrv := wantSrv a; wantMnt := wantMnt a; wantDev := wantDev a;
             protMnt := add (mid m) (protMnt a); replWant := replWant a;
             replProt := replProt a + mrepl m; unsafe := add mt (unsafe a) |}
        else a
      | None => a
      end in
    if (replWant a1 <? desired) && (has s || negb (mro m)) then
      let a2 := {| wantSrv := add (msrv m) (wantSrv a1);
                   wantMnt := add (mid m) (wantMnt a1);
                   wantDev := if dev m =? 0 then wantDev a1 else add (dev m) (wantDev a1);
                   protMnt := protMnt a1; replWant := replWant a1 + mrepl m;
                   replProt := replProt a1; unsafe := unsafe a1 |} in
      (a2, set_want s, (desired <=? replProt a2) && (desired <=? replWant a2))
    else (a1, s, (desired <=? replProt a1) && (desired <=? replWant a1)).

(* one `for i := 0; i < len(slots) && !done; i++` loop; distinct = "skip servers already used".
   Returns the accumulator, done, and the slots with their updated want flags (same order). *)
Fixpoint pass_old (distinct : bool) (desired : nat) (a : acc) (done : bool) (l : list slot) : acc * bool * list slot :=
  match l with
  | [] => (a, done, [])
  | s :: r =>
    if done then (a, done, l)
    else if distinct && mem (msrv (smnt s)) (wantSrv a) then
      let '(a', dn, r') := pass_old distinct desired a done r in (a', dn, s :: r')
    else
      let '(a1, s1, d1) := try_slot_old desired a s in
      let '(a', dn, r') := pass_old distinct desired a1 d1 r in (a', dn, s1 :: r')
  end.

(* the `safe` loop (stops as soon as safe >= desired) *)
Fixpoint safe_count_old (c desired : nat) (l : list slot) (safe : nat) : nat :=
  match l with
  | [] => safe
  | s :: r =>
    if negb (has s) || negb (inclass dflt c (smnt s)) then safe_count_old c desired r safe
    else let safe' := safe + mrepl (smnt s) in
         if desired <=? safe' then safe' else safe_count_old c desired r safe'
  end.

(* "Avoid deleting wanted replicas from devices that are mounted on multiple servers" *)
Definition protect_wanted_devs (wd : list nat) (l : list slot) (uns : list nat) : list nat :=
  fold_left (fun u s => match srepl s with
                        | Some mt => if negb (dev (smnt s) =? 0) && mem (dev (smnt s)) wd then add mt u else u
                        | None => u end) l uns.

(* body of `for _, class := range bal.classes` *)
Definition do_class_old (c desired : nat) (st : cstate) : cstate :=
  let '(sl, uns, under) := st in
  if desired =? 0 then st else
  let sorted := isort dflt rank devrank c sl in
  let '(a1, d1, l1) := pass_old true desired (acc0 uns) false sorted in
  let '(a2, _, l2) := pass_old false desired a1 d1 l1 in
  let under' := if under then true else safe_count_old c desired l2 0 <? desired in
  (l2, protect_wanted_devs (wantDev a2) l2 (unsafe a2), under').

Definition run_classes_old (classes : list nat) (desired : list (nat * nat)) (sl0 : list slot) : cstate :=
  fold_left (fun st c => do_class_old c (lookup desired c) st) classes (sl0, [], false).

Definition final_slots_old (mounts : list mnt) (replicas : list (nat * nat)) (classes : list nat)
           (desired : list (nat * nat)) : list slot :=
  let '(sl, uns, under) := run_classes_old classes desired (map (mkslot replicas) mounts) in
  map (widen under uns) sl.

(* mounts: the services' mounts after cleanupMounts/setupLookupTables; allmounts: every mount
   known (only used to name the service of Replicas[0], the pull source);
   replicas: blk.Replicas in order (mount, mtime); desired: blk.Desired.
   Result: the Trash/Pull requests added to the change sets, and balanceResult.lost. *)
Definition balance_block_old (mounts allmounts : list mnt) (replicas : list (nat * nat)) (classes : list nat)
           (desired : list (nat * nat)) : list change * bool :=
  let sl := final_slots_old mounts replicas classes desired in
  let norepl := match replicas with [] => true | _ => false end in
  let from := match replicas with
              | (m0, _) :: _ => match find (fun m => mid m =? m0) allmounts with Some m => msrv m | None => 0 end
              | [] => 0 end in
  (flat_map (emit minMtime norepl from) sl,
   existsb (fun s => negb (has s) && swant s && norepl) sl).

(* the `underreplicated` flag as balanceBlock computes it *)
Definition under_flag_old (mounts : list mnt) (replicas : list (nat * nat)) (classes : list nat)
           (desired : list (nat * nat)) : bool :=
  snd (run_classes_old classes desired (map (mkslot replicas) mounts)).
End Block.

(* cleanupMounts; setupLookupTables; balanceBlock *)
Definition balance_old (dflt : nat) (rank devrank : nat -> nat) (minMtime : nat)
           (raw : list mnt) (sro : list nat) (replicas : list (nat * nat)) (desired : list (nat * nat))
  : list change * bool :=
  let eff := setup raw sro in
  balance_block_old dflt rank devrank minMtime eff raw replicas (classes_of dflt eff) desired.
