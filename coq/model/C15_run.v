(* C15 — evaluator for the fixStaleLocks stage. *)
From Coq Require Import List ZArith Bool NArith.
From AV Require Import model.C16_runq model.C14_sync model.C15_model.
Import ListNotations.
Local Open Scope Z_scope.

Record case := mkst {
  t_snaps : list (bool * rmap * list ent);   (* one per evaluation of the loop condition, then the timer fires *)
  o_unlock : list N                          (* queue.Unlock calls *)
}.

(* "releases locks inherited from a previous dispatcher": only Locked containers that had no process at
   some look are unlocked; with workers all known at the first look nothing is unlocked *)
Fixpoint first_known (snaps : list (bool * rmap * list ent)) : option rmap :=
  match snaps with
  | [] => None
  | (unknown, running, _) :: r => if unknown then first_known r else Some running
  end.
(* ... and (finding F24, fixed) a container that pool.Running() reports when the wait ends because all
   workers have become known is not unlocked *)
Definition spec_b (c : case) : bool :=
  forallb (fun u => existsb (fun sn => match sn with (unknown, running, ents) => unknown && memN u (stale_locks ents running) end)
                            (t_snaps c)) (o_unlock c) &&
  match first_known (t_snaps c) with
  | Some running => forallb (not_running running) (o_unlock c)
  | None => true
  end.

Fixpoint insN (x : N) (l : list N) : list N :=
  match l with [] => [x] | y :: r => if (x <=? y)%N then x :: l else y :: insN x r end.
Definition sortN (l : list N) : list N := fold_right insN [] l.
Fixpoint listN_eqb (a b : list N) : bool :=
  match a, b with [], [] => true | x :: r, y :: s => N.eqb x y && listN_eqb r s | _, _ => false end.

Definition model_b (c : case) : bool := listN_eqb (sortN (o_unlock c)) (sortN (fix_stale_locks (t_snaps c) [])).

Definition check_case (c : case) : N :=
  ((if model_b c then 0 else 1) + (if spec_b c then 0 else 2))%N.
Fixpoint failing_from (i : N) (cs : list case) : list (N * N) :=
  match cs with
  | [] => []
  | c :: r => let k := check_case c in
              if N.eqb k 0 then failing_from (N.succ i) r else (i, k) :: failing_from (N.succ i) r
  end.
Definition failing (cs : list case) : list (N * N) := failing_from 0%N cs.

Definition E (u : N) (st : N) (p : Z) (it : N) : ent :=
  mkent u (match st with 0 => Queued | 1 => Locked | 2 => Running | 3 => Complete | 4 => Cancelled | _ => OtherState end%N) p it.
