(* C04 (D) — delayed-write level: WHEN is the timestamp taken that protects an acknowledged block?

   One request A (a PUT or a TOUCH, exactly the step programs of model/C04_race.v, thread B not moving)
   runs alone, but time passes while it is parked at its yield points: waiting for the volume's
   Serialize mutex (v.lock), a slow data copy, a slow close ...  Each step of A is executed at an explicit
   clock value.  The model adds to the untimed state of C04_race
     - the local variable `ts` of Touch / WriteBlock (unix_volume.go: `ts := time.Now()`), read
         in WriteBlock after tmpfile.Close() has returned   (the data is complete),
         in Touch      after v.lockfile(f) has returned      (the flock is held),
     - the stored mtime of every inode (os.Chtimes(.., ts, ts); the kernel stamps creations and writes).
   After A has returned, a DELETE request (Trash, thread B of C04_race, alone) runs at clock u: the
   abstraction {Old, Fresh} of C04_race is instantiated by  Fresh <-> u - mtime < BlobSigningTTL.

   The yield points are those of tools/instrument; in addition the instrumented copy calls
   verifAux("<Method>:v.lock") before every v.lock(ctx) (getFunc, Touch, WriteBlock): at these points the
   harness lets time pass as well (= the Serialize mutex is held by other I/O for that long).  They are
   steps of the timed program (they do not change the untimed state).
   Definitions only; proofs are in proofs/C04_delay_proofs.v. *)
From Coq Require Import ZArith List Bool Arith String.
From AV Require Import model.C04_race.
Import ListNotations.
Local Open Scope Z_scope.

Record tst := {
  t_s : st;            (* untimed state (C04_race) *)
  t_aux : bool;        (* the v.lock point that precedes the current yield point has been passed *)
  t_ts : Z;            (* local variable ts *)
  t_mt : list Z;       (* stored mtime per inode, index = inode number *)
  t_early : bool       (* false = the code as it is.  true = a VARIANT in which WriteBlock reads the clock
                          when it creates the temp file (before the Serialize lock and the copy):
                          used only for the regression witness delayed_early_ts_refuted *)
}.

Fixpoint set_nthZ (l : list Z) (n : nat) (x : Z) : list Z :=
  match l, n with
  | [], _ => []
  | _ :: r, O => x :: r
  | y :: r, S n' => y :: set_nthZ r n' x
  end.
Definition mtime_of (T : tst) (n : nat) : Z := nth n (t_mt T) 0.

(* the v.lock point that program order puts immediately before this yield point *)
Local Open Scope string_scope.
Definition aux_before (p : pcA) : option string :=
  match p with
  | Ac_open => Some "getFunc:v.lock"          (* getFunc: v.lock(ctx); v.os.Open *)
  | At_flock _ => Some "Touch:v.lock"         (* Touch: OpenFile; v.lock; v.lockfile *)
  | Aw_write _ => Some "WriteBlock:v.lock"    (* WriteBlock: MkdirAll; TempFile; v.lock; io.Copy *)
  | _ => None
  end.
Local Close Scope string_scope.

(* one step of A, executed at clock value [now] *)
Definition tstepA (T : tst) (now : Z) : option tst :=
  let s := t_s T in
  match stepA s with
  | None => None
  | Some s' =>
    let '(ts', mt') :=
      match pa s with
      | Aw_create => ((if t_early T then now else t_ts T), t_mt T ++ [now])   (* new inode, stamped by the kernel *)
      | Aw_write t => (t_ts T, set_nthZ (t_mt T) t now)                       (* write(2) stamps the file *)
      | Aw_closetmp _ => ((if t_early T then t_ts T else now), t_mt T)        (* ts := time.Now() follows tmpfile.Close() *)
      | Aw_utimes t => (t_ts T, set_nthZ (t_mt T) t (t_ts T))                 (* os.Chtimes(tmp, ts, ts) *)
      | At_flock _ => (now, t_mt T)                                           (* ts := time.Now() follows v.lockfile(f) *)
      | At_utimes _ => (t_ts T, match path s with
                                | Some j => set_nthZ (t_mt T) j (t_ts T)      (* os.Chtimes(path, ts, ts) *)
                                | None => t_mt T
                                end)
      | _ => (t_ts T, t_mt T)
      end in
    Some {| t_s := s'; t_aux := false; t_ts := ts'; t_mt := mt'; t_early := t_early T |}
  end.

(* a timed run: the label of every yield point A was parked at, and the clock when it went on *)
Fixpoint trun (T : tst) (steps : list (string * Z)) : option tst :=
  match steps with
  | [] => Some T
  | (l, now) :: r =>
    match (if t_aux T then None else aux_before (pa (t_s T))) with
    | Some a =>
        if String.eqb a l
        then trun {| t_s := t_s T; t_aux := true; t_ts := t_ts T; t_mt := t_mt T; t_early := t_early T |} r
        else None
    | None =>
        if String.eqb (labelA (pa (t_s T))) l
        then match tstepA T now with Some T' => trun T' r | None => None end
        else None
    end
  end.

Definition tinit_gen (p : prior) (put rm : bool) (m0 : Z) (early : bool) : tst :=
  {| t_s := init p put rm; t_aux := false; t_ts := 0;
     t_mt := match p with PAbsent => [] | _ => [m0] end; t_early := early |}.
Definition tinit (p : prior) (put rm : bool) (m0 : Z) : tst := tinit_gen p put rm m0 false.

Definition a_finished (T : tst) : bool := match pa (t_s T) with A_done _ => true | _ => false end.

(* ---- the commit phase: the yield points after the clock has been read.  Time spent there (setting
   the timestamp, taking the flock on the file to be replaced, renaming, unlocking) lies between the
   timestamp and the acknowledgement. ---- *)
Local Open Scope string_scope.
Definition in_commit (l : string) : bool :=
  existsb (String.eqb l)
    ["WriteBlock:os.Chtimes"; "WriteBlock:v.os.OpenFile"; "WriteBlock:v.lockfile"; "WriteBlock:v.os.Rename";
     "WriteBlock:defer:v.unlockfile"; "WriteBlock:defer:old.Close";
     "Touch:os.Chtimes"; "Touch:defer:v.unlockfile"; "Touch:defer:f.Close"].
Local Close Scope string_scope.

(* clock value at the last yield point before the commit phase *)
Fixpoint last_pre (acc : option Z) (steps : list (string * Z)) : option Z :=
  match steps with
  | [] => acc
  | (l, t) :: r => last_pre (if in_commit l then acc else Some t) r
  end.

(* ---- the DELETE request at clock u ---- *)
Definition age_at (u ttl m : Z) : age := if u - m <? ttl then Fresh else Old.
Fixpoint retime_inodes (u ttl : Z) (ino : list inode) (mt : list Z) : list inode :=
  match ino, mt with
  | i :: r, m :: r' => {| i_age := age_at u ttl m; i_cont := i_cont i |} :: retime_inodes u ttl r r'
  | l, _ => l
  end.
Definition retime (T : tst) (u ttl : Z) : st :=
  let s := t_s T in
  upd s (retime_inodes u ttl (inodes s) (t_mt T)) (path s) (trash s) (gone s) (lockA s) (lockB s) (pa s) (pb s).
Fixpoint runB (fuel : nat) (s : st) : st :=
  match fuel with
  | O => s
  | S f => match stepB s with Some s' => runB f s' | None => s end
  end.
Definition after_trash (T : tst) (u ttl : Z) : st := runB 8 (retime T u ttl).
