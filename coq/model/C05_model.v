(* C05 — keep-balance never trashes a needed or too-new replica.
   Executable model of services/keep-balance/balance.go AS REPAIRED by the fix: commits 4181588 (F1/F10),
   0c179f4 (F12), b66ed86 (F8): cleanupMounts, setupLookupTables, balanceBlock (slot list, per-class sort
   with the 5-key comparator, trySlot with wantSrv/wantMnt/wantDev/protMnt/protDev/replWant/replProt -
   only replicas on mounts of the class are protected, a non-blank device once -, the two passes, the
   `safe` loop counting a non-blank device once (safeDev), `underreplicated` (also set by a desired
   class that no mount offers), unsafeToDelete keyed by mtime incl. the replicas on wanted or protected
   devices, the final widening of `want`, emission of Trash/Pull/lost incl. "no replica and desired > 0")
   and of what change_set.go carries (mount, observed mtime / target mount, source service).
   The algorithm before the repairs is kept in model/C05_old_model.v (regression witness).

   Identities: mounts, services, devices and storage classes are small naturals handed out by the
   harness (Go uses pointer identity for mounts/services and strings for devices/classes).
   Device 0 is the blank DeviceID "".  Classes are numbered in the lexicographic order of their
   names (balanceBlock walks bal.classes sorted); the id of "default" is a parameter.
   The rendezvous position of every service (C12) and the order of md5(blkid ++ DeviceID)
   (rendezvousLess) are produced by the real code for the block at hand and passed in.
   Definitions only; proofs are in proofs/C05_*.v. *)
From Coq Require Import List Arith Bool.
Import ListNotations.

Record mnt := { mid : nat; msrv : nat; dev : nat (* 0 = "" *); mro : bool; mrepl : nat; mclasses : list nat }.
Record slot := { smnt : mnt; srepl : option nat (* mtime of the replica seen through this mount *); swant : bool }.

Definition mem (x : nat) (l : list nat) : bool := existsb (Nat.eqb x) l.
Definition add (x : nat) (l : list nat) : list nat := if mem x l then l else x :: l.
Definition nz (n : nat) : bool := negb (n =? 0).

(* ---------- cleanupMounts / setupLookupTables ---------- *)

(* devices mounted read-write somewhere (mount flag only: the server flag is applied later) *)
Definition rwdev (raw : list mnt) : list nat :=
  map dev (filter (fun m => negb (mro m) && negb (dev m =? 0)) raw).
(* drop the read-only views of devices that are writable elsewhere *)
Definition cleanup (raw : list mnt) : list mnt :=
  filter (fun m => negb (mro m && mem (dev m) (rwdev raw))) raw.
(* Replication <= 0 is read as 1; mounts of a read-only service are read-only.
   sro = ids of the read-only services. *)
Definition eff_mnt (sro : list nat) (m : mnt) : mnt :=
  {| mid := mid m; msrv := msrv m; dev := dev m; mro := mro m || mem (msrv m) sro;
     mrepl := if mrepl m =? 0 then 1 else mrepl m; mclasses := mclasses m |}.
Definition setup (raw : list mnt) (sro : list nat) : list mnt := map (eff_mnt sro) (cleanup raw).

(* a mount without StorageClasses belongs to "default" (id dflt) only *)
Definition inclass (dflt c : nat) (m : mnt) : bool :=
  match mclasses m with [] => c =? dflt | cs => mem c cs end.

(* bal.classes: "default" plus every class named by a mount, sorted, without duplicates *)
Fixpoint ins_sorted (x : nat) (l : list nat) : list nat :=
  match l with
  | [] => [x]
  | y :: r => if x <? y then x :: l else if x =? y then l else y :: ins_sorted x r
  end.
Definition classes_of (dflt : nat) (ms : list mnt) : list nat :=
  fold_right ins_sorted [] (dflt :: flat_map mclasses ms).

(* ---------- balanceBlock ---------- *)
Section Block.
Variable dflt : nat.               (* id of the class "default" *)
Variable rank : nat -> nat.        (* rendezvous position of a service for this block *)
Variable devrank : nat -> nat.     (* position of a DeviceID in the rendezvousLess order *)
Variable minMtime : nat.

Definition has (s : slot) : bool := match srepl s with Some _ => true | None => false end.

(* the sort.Slice comparator for class c *)
Definition less (c : nat) (a b : slot) : bool :=
  let ca := inclass dflt c (smnt a) in let cb := inclass dflt c (smnt b) in
  if negb (Bool.eqb ca cb) then ca
  else if negb (Bool.eqb (swant a) (swant b)) then swant a
  else if negb (rank (msrv (smnt a)) =? rank (msrv (smnt b))) then rank (msrv (smnt a)) <? rank (msrv (smnt b))
  else if negb (Bool.eqb (has a) (has b)) then has a
  else devrank (dev (smnt a)) <? devrank (dev (smnt b)).

(* sort.Slice is modelled as a stable insertion sort; the result is determined by the comparator
   alone whenever no two slots tie (C05_run.no_ties), and only then are outputs compared exactly *)
Fixpoint insert (c : nat) (x : slot) (l : list slot) : list slot :=
  match l with
  | [] => [x]
  | y :: r => if less c y x then y :: insert c x r else if less c x y then x :: l else y :: insert c x r
  end.
Fixpoint isort (c : nat) (l : list slot) : list slot :=
  match l with [] => [] | x :: r => insert c x (isort c r) end.

Record acc := {
  wantSrv : list nat; wantMnt : list nat; wantDev : list nat;
  protMnt : list nat; replWant : nat; replProt : nat; unsafe : list nat (* unsafeToDelete: mtimes *) }.

Definition set_want (s : slot) : slot := {| smnt := smnt s; srepl := srepl s; swant := true |}.

Definition acc0 (uns : list nat) : acc :=
  {| wantSrv := []; wantMnt := []; wantDev := []; protMnt := []; replWant := 0; replProt := 0; unsafe := uns |}.

(* state carried from class to class: slots (order and want flags), unsafeToDelete, underreplicated *)
Definition cstate := (list slot * list nat * bool)%type.

Inductive change := Trash (m : nat) (mt : nat) | Pull (m : nat) (from : nat).

Fixpoint find_repl (replicas : list (nat * nat)) (m : nat) (acc : option nat) : option nat :=
  match replicas with
  | [] => acc
  | (i, t) :: r => find_repl r m (if i =? m then Some t else acc)
  end.

Definition mkslot (replicas : list (nat * nat)) (m : mnt) : slot :=
  let r := find_repl replicas (mid m) None in
  {| smnt := m; srepl := r; swant := match r with Some _ => mro m | None => false end |}.

Fixpoint lookup (d : list (nat * nat)) (c : nat) : nat :=
  match d with [] => 0 | (k, v) :: r => if k =? c then v else lookup r c end.

(* "Don't trash (1) any replicas of an underreplicated block ... or (2) any replicas whose Mtimes
   are identical to needed replicas" *)
Definition widen (under : bool) (uns : list nat) (s : slot) : slot :=
  match srepl s with
  | Some mt => if under || mem mt uns then set_want s else s
  | None => s
  end.

Definition emit (norepl : bool) (from : nat) (s : slot) : list change :=
  match srepl s with
  | Some mt => if negb (swant s) && (mt <? minMtime) then [Trash (mid (smnt s)) mt] else []
  | None => if swant s && negb norepl && negb (mro (smnt s)) then [Pull (mid (smnt s)) from] else []
  end.

(* ---------- the repaired algorithm ---------- *)
(* acc + protDev *)
Definition acc2 := (acc * list nat)%type.

Definition try_slot (c desired : nat) (ap : acc2) (s : slot) : acc2 * slot * bool :=
  let '(a, pd) := ap in
  let m := smnt s in
  if mem (mid m) (wantMnt a) || (negb (dev m =? 0) && mem (dev m) (wantDev a)) then (ap, s, false)
  else
    let '(a1, pd1) :=
      match srepl s with
      | Some mt =>
        if (replProt a <? desired) && negb (mem (mid m) (protMnt a)) && negb (nz (dev m) && mem (dev m) pd) &&
           inclass dflt c m then
          ({| wantSrv := wantSrv a; wantMnt := wantMnt a; wantDev := wantDev a;
              protMnt := add (mid m) (protMnt a); replWant := replWant a;
              replProt := replProt a + mrepl m; unsafe := add mt (unsafe a) |},
           if nz (dev m) then add (dev m) pd else pd)
        else (a, pd)
      | None => (a, pd)
      end in
    if (replWant a1 <? desired) && (has s || negb (mro m)) then
      let a2 := {| wantSrv := add (msrv m) (wantSrv a1);
                   wantMnt := add (mid m) (wantMnt a1);
                   wantDev := if dev m =? 0 then wantDev a1 else add (dev m) (wantDev a1);
                   protMnt := protMnt a1; replWant := replWant a1 + mrepl m;
                   replProt := replProt a1; unsafe := unsafe a1 |} in
      ((a2, pd1), set_want s, (desired <=? replProt a2) && (desired <=? replWant a2))
    else ((a1, pd1), s, (desired <=? replProt a1) && (desired <=? replWant a1)).

Fixpoint pass (distinct : bool) (c desired : nat) (ap : acc2) (done : bool) (l : list slot) : acc2 * bool * list slot :=
  match l with
  | [] => (ap, done, [])
  | s :: r =>
    if done then (ap, done, l)
    else if distinct && mem (msrv (smnt s)) (wantSrv (fst ap)) then
      let '(ap', dn, r') := pass distinct c desired ap done r in (ap', dn, s :: r')
    else
      let '(ap1, s1, d1) := try_slot c desired ap s in
      let '(ap', dn, r') := pass distinct c desired ap1 d1 r in (ap', dn, s1 :: r')
  end.

(* the `safe` loop with safeDev *)
Fixpoint safe_count (c desired : nat) (l : list slot) (safe : nat) (sd : list nat) : nat :=
  match l with
  | [] => safe
  | s :: r =>
    if negb (has s) || negb (inclass dflt c (smnt s)) || (nz (dev (smnt s)) && mem (dev (smnt s)) sd)
    then safe_count c desired r safe sd
    else let safe' := safe + mrepl (smnt s) in
         let sd' := if nz (dev (smnt s)) then dev (smnt s) :: sd else sd in
         if desired <=? safe' then safe' else safe_count c desired r safe' sd'
  end.

Definition protect_devices (wd pd : list nat) (l : list slot) (uns : list nat) : list nat :=
  fold_left (fun u s => match srepl s with
                        | Some mt => if nz (dev (smnt s)) && (mem (dev (smnt s)) wd || mem (dev (smnt s)) pd)
                                     then add mt u else u
                        | None => u end) l uns.

Definition do_class (c desired : nat) (st : cstate) : cstate :=
  let '(sl, uns, under) := st in
  if desired =? 0 then st else
  let sorted := isort c sl in
  let '(ap1, d1, l1) := pass true c desired (acc0 uns, []) false sorted in
  let '(ap2, _, l2) := pass false c desired ap1 d1 l1 in
  let under' := if under then true else safe_count c desired l2 0 [] <? desired in
  (l2, protect_devices (wantDev (fst ap2)) (snd ap2) l2 (unsafe (fst ap2)), under').

Definition unoffered_class (classes : list nat) (desired : list (nat * nat)) : bool :=
  existsb (fun kd => (0 <? snd kd) && negb (mem (fst kd) classes)) desired.

Definition run_classes (classes : list nat) (desired : list (nat * nat)) (sl0 : list slot) : cstate :=
  fold_left (fun st c => do_class c (lookup desired c) st) classes (sl0, [], unoffered_class classes desired).

Definition final_slots (mounts : list mnt) (replicas : list (nat * nat)) (classes : list nat)
           (desired : list (nat * nat)) : list slot :=
  let '(sl, uns, under) := run_classes classes desired (map (mkslot replicas) mounts) in
  map (widen under uns) sl.

Definition balance_block (mounts allmounts : list mnt) (replicas : list (nat * nat)) (classes : list nat)
           (desired : list (nat * nat)) : list change * bool :=
  let sl := final_slots mounts replicas classes desired in
  let norepl := match replicas with [] => true | _ => false end in
  let from := match replicas with
              | (m0, _) :: _ => match find (fun m => mid m =? m0) allmounts with Some m => msrv m | None => 0 end
              | [] => 0 end in
  (flat_map (emit norepl from) sl,
   existsb (fun s => negb (has s) && swant s && norepl) sl ||
   (norepl && existsb (fun kd => 0 <? snd kd) desired)).
End Block.

Definition balance (dflt : nat) (rank devrank : nat -> nat) (minMtime : nat)
           (raw : list mnt) (sro : list nat) (replicas : list (nat * nat)) (desired : list (nat * nat))
  : list change * bool :=
  let eff := setup raw sro in
  balance_block dflt rank devrank minMtime eff raw replicas (classes_of dflt eff) desired.
