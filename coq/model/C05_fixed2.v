(* C05 — model of balanceBlock with the RECOMMENDED repairs applied (fixes/F1_F10.diff, F8.diff,
   F12.diff).  Unlike model/C05_fixed.v (separate protection pass) this variant keeps the protection
   interleaved with the allocation in trySlot, so that the distinct-servers preference of the current
   code (and upstream's TestMultipleReplicasPerService) is preserved.
   Differences from model/C05_model.v:
     F1/F10  trySlot protects a replica only if its mount belongs to the class, and only if its
             non-blank device has not been protected before (protDev); the `safe` loop counts a
             non-blank device once (safeDev); replicas on protected devices are unsafe to delete;
     F12     a desired class that no mount offers sets `underreplicated`;
     F8      lost is also reported when there is no replica and some desired > 0. *)
From Coq Require Import List Arith Bool.
From AV Require Import model.C05_model.
Import ListNotations.

Section Block.
Variable dflt : nat.
Variable rank : nat -> nat.
Variable devrank : nat -> nat.
Variable minMtime : nat.

(* acc + protDev *)
Definition acc2 := (acc * list nat)%type.

Definition try_slot2 (c desired : nat) (ap : acc2) (s : slot) : acc2 * slot * bool :=
  let '(a, pd) := ap in
  let m := smnt s in
  if mem (mid m) (wantMnt a) || (negb (dev m =? 0) && mem (dev m) (wantDev a)) then (ap, s, false)
  else
    let '(a1, pd1) :=
      match srepl s with
      | Some mt =>
        if (replProt a <? desired) && negb (mem (mid m) (protMnt a)) && negb (nz (dev m) && mem (dev m) pd) &&
           inclass dflt c m then
          ({| wantSrv := wantSrv a; wantMnt := wantMnt a; wantDev := wantDev a;
              protMnt := add (mid m) (protMnt a); replWant := replWant a;
              replProt := replProt a + mrepl m; unsafe := add mt (unsafe a) |},
           if nz (dev m) then add (dev m) pd else pd)
        else (a, pd)
      | None => (a, pd)
      end in
    if (replWant a1 <? desired) && (has s || negb (mro m)) then
      let a2 := {| wantSrv := add (msrv m) (wantSrv a1);
                   wantMnt := add (mid m) (wantMnt a1);
                   wantDev := if dev m =? 0 then wantDev a1 else add (dev m) (wantDev a1);
                   protMnt := protMnt a1; replWant := replWant a1 + mrepl m;
                   replProt := replProt a1; unsafe := unsafe a1 |} in
      ((a2, pd1), set_want s, (desired <=? replProt a2) && (desired <=? replWant a2))
    else ((a1, pd1), s, (desired <=? replProt a1) && (desired <=? replWant a1)).

Fixpoint pass2 (distinct : bool) (c desired : nat) (ap : acc2) (done : bool) (l : list slot) : acc2 * bool * list slot :=
  match l with
  | [] => (ap, done, [])
  | s :: r =>
    if done then (ap, done, l)
    else if distinct && mem (msrv (smnt s)) (wantSrv (fst ap)) then
      let '(ap', dn, r') := pass2 distinct c desired ap done r in (ap', dn, s :: r')
    else
      let '(ap1, s1, d1) := try_slot2 c desired ap s in
      let '(ap', dn, r') := pass2 distinct c desired ap1 d1 r in (ap', dn, s1 :: r')
  end.

(* the `safe` loop with safeDev *)
Fixpoint safe_count2 (c desired : nat) (l : list slot) (safe : nat) (sd : list nat) : nat :=
  match l with
  | [] => safe
  | s :: r =>
    if negb (has s) || negb (inclass dflt c (smnt s)) || (nz (dev (smnt s)) && mem (dev (smnt s)) sd)
    then safe_count2 c desired r safe sd
    else let safe' := safe + mrepl (smnt s) in
         let sd' := if nz (dev (smnt s)) then dev (smnt s) :: sd else sd in
         if desired <=? safe' then safe' else safe_count2 c desired r safe' sd'
  end.

Definition protect_devs2 (wd pd : list nat) (l : list slot) (uns : list nat) : list nat :=
  fold_left (fun u s => match srepl s with
                        | Some mt => if nz (dev (smnt s)) && (mem (dev (smnt s)) wd || mem (dev (smnt s)) pd)
                                     then add mt u else u
                        | None => u end) l uns.

Definition do_class2 (c desired : nat) (st : cstate) : cstate :=
  let '(sl, uns, under) := st in
  if desired =? 0 then st else
  let sorted := isort dflt rank devrank c sl in
  let '(ap1, d1, l1) := pass2 true c desired (acc0 uns, []) false sorted in
  let '(ap2, _, l2) := pass2 false c desired ap1 d1 l1 in
  let under' := if under then true else safe_count2 c desired l2 0 [] <? desired in
  (l2, protect_devs2 (wantDev (fst ap2)) (snd ap2) l2 (unsafe (fst ap2)), under').

Definition unoffered2 (classes : list nat) (desired : list (nat * nat)) : bool :=
  existsb (fun kd => (0 <? snd kd) && negb (mem (fst kd) classes)) desired.

Definition run_classes2 (classes : list nat) (desired : list (nat * nat)) (sl0 : list slot) : cstate :=
  fold_left (fun st c => do_class2 c (lookup desired c) st) classes (sl0, [], unoffered2 classes desired).

Definition final_slots2 (mounts : list mnt) (replicas : list (nat * nat)) (classes : list nat)
           (desired : list (nat * nat)) : list slot :=
  let '(sl, uns, under) := run_classes2 classes desired (map (mkslot replicas) mounts) in
  map (widen under uns) sl.

Definition balance_block2 (mounts allmounts : list mnt) (replicas : list (nat * nat)) (classes : list nat)
           (desired : list (nat * nat)) : list change * bool :=
  let sl := final_slots2 mounts replicas classes desired in
  let norepl := match replicas with [] => true | _ => false end in
  let from := match replicas with
              | (m0, _) :: _ => match find (fun m => mid m =? m0) allmounts with Some m => msrv m | None => 0 end
              | [] => 0 end in
  (flat_map (emit minMtime norepl from) sl,
   existsb (fun s => negb (has s) && swant s && norepl) sl ||
   (norepl && existsb (fun kd => 0 <? snd kd) desired)).
End Block.

Definition balance2 (dflt : nat) (rank devrank : nat -> nat) (minMtime : nat)
           (raw : list mnt) (sro : list nat) (replicas : list (nat * nat)) (desired : list (nat * nat))
  : list change * bool :=
  let eff := setup raw sro in
  balance_block2 dflt rank devrank minMtime eff raw replicas (classes_of dflt eff) desired.
