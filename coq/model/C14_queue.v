(* C14 — lib/dispatchcloud/container/queue.go: the cache of container.Queue under Update (poll + merge) with
   a locally initiated change (Lock / Unlock / Cancel -> updateWithResp) arriving before, during or after
   the poll: the don't-clobber rule (dontupdate).  Definitions only. *)
From Coq Require Import List ZArith Bool NArith.
From AV Require Import model.C16_runq.
Import ListNotations.
Local Open Scope Z_scope.

(* the API server's record: uuid, state, priority, locked_by_uuid = this dispatcher's token *)
Record dbent := mkdb { d_uuid : N; d_state : cstate; d_prio : Z; d_mine : bool }.
Definition cache := list (N * (cstate * Z)).      (* Queue.current: uuid -> (state, priority) *)

Fixpoint clook (u : N) (c : cache) : option (cstate * Z) :=
  match c with [] => None | (k, v) :: r => if N.eqb k u then Some v else clook u r end.
Fixpoint cset (u : N) (v : cstate * Z) (c : cache) : cache :=
  match c with
  | [] => [(u, v)]
  | (k, x) :: r => if N.eqb k u then (k, v) :: r else (k, x) :: cset u v r
  end.
Definition cdel (u : N) (c : cache) : cache := filter (fun kv => negb (N.eqb (fst kv) u)) c.
Fixpoint dlook (u : N) (db : list dbent) : option dbent :=
  match db with [] => None | d :: r => if N.eqb (d_uuid d) u then Some d else dlook u r end.
Definition final_state (s : cstate) : bool := cstate_eqb s Complete || cstate_eqb s Cancelled.

(* poll(): three queries, answered from the database as it is at that moment *)
Definition poll (db1 db2 db3 : list dbent) (cur : cache) : cache * list N :=
  let mine := map (fun d => (d_uuid d, (d_state d, d_prio d))) (filter d_mine db1) in
  let avail := map (fun d => (d_uuid d, (d_state d, d_prio d)))
                   (filter (fun d => cstate_eqb (d_state d) Queued && (0 <? d_prio d)) db2) in
  let next12 := fold_left (fun n kv => cset (fst kv) (snd kv) n) (mine ++ avail) [] in
  let missing := map fst (filter (fun kv => match clook (fst kv) next12 with Some _ => false | None => negb (final_state (fst (snd kv))) end) cur) in
  let found := filter (fun u => match dlook u db3 with Some _ => true | None => false end) missing in
  let gone := filter (fun u => match dlook u db3 with Some _ => false | None => true end) missing in
  (fold_left (fun n u => match dlook u db3 with Some d => cset u (d_state d, d_prio d) n | None => n end) found next12, gone).

(* the merge at the end of Update() *)
Definition update_end (next : cache) (cur : cache) (dont : list N) : cache :=
  let c1 := fold_left (fun c kv => if memN (fst kv) dont then c else cset (fst kv) (snd kv) c) next cur in
  filter (fun kv => memN (fst kv) dont || match clook (fst kv) next with Some _ => true | None => false end) c1.

(* a locally initiated change and what the API server answers *)
Inductive lop := OpLock (u : N) | OpUnlock (u : N) | OpCancel (u : N)
               | OpExtState (u : N) (st : cstate)      (* somebody else changes the record (crunch-run, a user) *)
               | OpNone.

Fixpoint dset (d : dbent) (db : list dbent) : list dbent :=
  match db with [] => [] | x :: r => if N.eqb (d_uuid x) (d_uuid d) then d :: r else x :: dset d r end.

(* returns the new database and the response handed to updateWithResp (None: the call failed or it is not a queue call) *)
Definition api (o : lop) (db : list dbent) : list dbent * option (N * (cstate * Z)) :=
  match o with
  | OpLock u => match dlook u db with
                | Some d => if cstate_eqb (d_state d) Queued then (dset (mkdb u Locked (d_prio d) true) db, Some (u, (Locked, d_prio d)))
                            else (db, None)
                | None => (db, None)
                end
  | OpUnlock u => match dlook u db with
                  | Some d => if cstate_eqb (d_state d) Locked && d_mine d then (dset (mkdb u Queued (d_prio d) false) db, Some (u, (Queued, d_prio d)))
                              else (db, None)
                  | None => (db, None)
                  end
  | OpCancel u => match dlook u db with
                  | Some d => if final_state (d_state d) then (db, None)
                              else (dset (mkdb u Cancelled (d_prio d) (d_mine d)) db, Some (u, (Cancelled, d_prio d)))
                  | None => (db, None)
                  end
  | OpExtState u st => match dlook u db with
                       | Some d => (dset (mkdb u st (d_prio d) (d_mine d)) db, None)
                       | None => (db, None)
                       end
  | OpNone => (db, None)
  end.

(* updateWithResp: mark dontupdate if a poll is in progress; update the entry if it is in the cache *)
Definition with_resp (r : option (N * (cstate * Z))) (cur : cache) (dont : option (list N)) : cache * option (list N) :=
  match r with
  | None => (cur, dont)
  | Some (u, v) => (match clook u cur with Some _ => cset u v cur | None => cur end,
                    match dont with Some d => Some (u :: d) | None => None end)
  end.

(* Update() with the operation arriving at position k: 0 before Update, 1/2/3 while the first/second/third
   query is being answered (3 only if that query happens; otherwise after), 4 after Update *)
Definition update_with (k : nat) (o : lop) (db : list dbent) (cur : cache) : list dbent * cache :=
  let plain (db : list dbent) (cur : cache) := let (next, gone) := poll db db db cur in
                                               update_end next (fold_left (fun c u => cdel u c) gone cur) [] in
  match k with
  | O => let (db', r) := api o db in let (cur', _) := with_resp r cur None in (db', plain db' cur')
  | 1%nat => let (db', r) := api o db in
             let (cur', dont) := with_resp r cur (Some []) in
             let (next, gone) := poll db' db' db' cur' in
             (db', update_end next (fold_left (fun c u => cdel u c) gone cur') (match dont with Some d => d | None => [] end))
  | 2%nat => let (db', r) := api o db in
             let (cur', dont) := with_resp r cur (Some []) in
             let (next, gone) := poll db db' db' cur' in
             (db', update_end next (fold_left (fun c u => cdel u c) gone cur') (match dont with Some d => d | None => [] end))
  | 3%nat =>
      (* does the third query happen?  It depends on what the first two returned for the unchanged database *)
      let mine := map (fun d => (d_uuid d, (d_state d, d_prio d))) (filter d_mine db) in
      let avail := map (fun d => (d_uuid d, (d_state d, d_prio d))) (filter (fun d => cstate_eqb (d_state d) Queued && (0 <? d_prio d)) db) in
      let next12 := fold_left (fun n kv => cset (fst kv) (snd kv) n) (mine ++ avail) [] in
      let missing := filter (fun kv => match clook (fst kv) next12 with Some _ => false | None => negb (final_state (fst (snd kv))) end) cur in
      match missing with
      | [] => let cur1 := plain db cur in let (db', r) := api o db in let (cur', _) := with_resp r cur1 None in (db', cur')
      | _ => let (db', r) := api o db in
             (* the cache is read for `missing` before the request is sent, the response sees the change *)
             let (next, gone) := poll db db db' cur in
             let (cur', dont) := with_resp r cur (Some []) in
             (db', update_end next (fold_left (fun c u => cdel u c) gone cur') (match dont with Some d => d | None => [] end))
      end
  | _ => let cur1 := plain db cur in let (db', r) := api o db in let (cur', _) := with_resp r cur1 None in (db', cur')
  end.
