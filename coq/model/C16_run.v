(* C16 — evaluator for the ChooseInstanceType stage: specification of the property (Prop [Spec] and its
   boolean form [spec_b], proved equivalent in proofs/C16_spec.v), comparison of the model with what
   dispatchcloud.ChooseInstanceType / EstimateScratchSpace returned. *)
From Coq Require Import List ZArith Bool String Ascii NArith.
From AV Require Import model.C16_model.
Import ListNotations.
Local Open Scope Z_scope.

Record case := mkcase {
  k_types : list itype;   (* cc.InstanceTypes as listed by the harness; Go ranges over its map in an unknown order *)
  k_reserve : Z;          (* cc.Containers.ReserveExtraRAM *)
  k_ctr : ctr;
  o_kind : N;             (* 0 a type was returned; 1 ErrInstanceTypesNotConfigured;
                             2 ConstraintsNotSatisfiableError; 3 anything else *)
  o_id : N;               (* it_id of the returned type (kind 0) *)
  o_avail : list N;       (* ids in ConstraintsNotSatisfiableError.AvailableTypes, in order (kind 2) *)
  o_scratch : Z           (* EstimateScratchSpace(ctr) *)
}.

(* ---------------- specification (what the property text demands) ---------------- *)

(* "satisfies every constraint - VCPUs, RAM plus keep-cache RAM plus the configured reserve after the
   5 percent discount, scratch space for tmp mounts and for loading the Docker image, and preemptibility" *)
Definition satisfies (reserve : Z) (c : ctr) (t : itype) : Prop :=
  c_vcpus c <= vcpus t /\
  (c_ram c + c_kc c + reserve) * 100 < (ram t + 1) * 95 /\
  Z.max (tmp_total (c_mounts c)) (estimate_image (c_image c)) + estimate_image (c_image c) <= scratch t /\
  preempt t = c_preempt c.
Definition satisfies_b (reserve : Z) (c : ctr) (t : itype) : bool :=
  (c_vcpus c <=? vcpus t) &&
  ((c_ram c + c_kc c + reserve) * 100 <? (ram t + 1) * 95) &&
  (Z.max (tmp_total (c_mounts c)) (estimate_image (c_image c)) + estimate_image (c_image c) <=? scratch t) &&
  Bool.eqb (preempt t) (c_preempt c).

(* the range in which int64 arithmetic is exact and the configuration is meaningful *)
Definition in_range (reserve : Z) (ts : list itype) (c : ctr) : Prop :=
  0 <= c_ram c /\ 0 <= c_kc c /\ 0 <= reserve /\ (c_ram c + c_kc c + reserve) * 100 < two63 /\
  Forall (fun m => 0 <= snd m) (c_mounts c) /\
  0 <= estimate_image (c_image c) /\
  Z.max (tmp_total (c_mounts c)) (estimate_image (c_image c)) + estimate_image (c_image c) < two63 /\
  Forall (fun t => 0 <= ram t /\ 0 <= vcpus t) ts.
Definition in_range_b (reserve : Z) (ts : list itype) (c : ctr) : bool :=
  (0 <=? c_ram c) && (0 <=? c_kc c) && (0 <=? reserve) && ((c_ram c + c_kc c + reserve) * 100 <? two63) &&
  forallb (fun m : bool * Z => 0 <=? snd m) (c_mounts c) &&
  (0 <=? estimate_image (c_image c)) &&
  (Z.max (tmp_total (c_mounts c)) (estimate_image (c_image c)) + estimate_image (c_image c) <? two63) &&
  forallb (fun t => (0 <=? ram t) && (0 <=? vcpus t)) ts.

Fixpoint find_it (id : N) (ts : list itype) : option itype :=
  match ts with [] => None | t :: r => if N.eqb (it_id t) id then Some t else find_it id r end.

Fixpoint countN (x : N) (l : list N) : nat :=
  match l with [] => O | y :: r => (if N.eqb x y then 1 else 0) + countN x r end.
Definition permN_b (a b : list N) : bool := forallb (fun x => Nat.eqb (countN x a) (countN x b)) (a ++ b).
Fixpoint nondecr_b (l : list Z) : bool :=
  match l with a :: ((b :: _) as r) => (a <=? b) && nondecr_b r | _ => true end.
Definition price_of (ts : list itype) (id : N) : Z := match find_it id ts with Some t => price t | None => 0 end.

(* judged on the implementation's observed answer *)
Definition Spec (c : case) : Prop :=
  let ts := k_types c in
  o_kind c <> 3%N /\
  (o_kind c = 0%N -> exists t, find_it (o_id c) ts = Some t) /\
  (o_kind c = 1%N -> ts = []) /\
  (in_range (k_reserve c) ts (k_ctr c) ->
     (o_kind c = 0%N -> exists t, find_it (o_id c) ts = Some t /\ satisfies (k_reserve c) (k_ctr c) t /\
                          forall x, In x ts -> satisfies (k_reserve c) (k_ctr c) x -> price t <= price x) /\
     (o_kind c = 2%N -> ts <> [] /\ (forall x, In x ts -> ~ satisfies (k_reserve c) (k_ctr c) x) /\
                        permN_b (o_avail c) (map it_id ts) = true /\
                        nondecr_b (map (price_of ts) (o_avail c)) = true)).

Definition spec_b (c : case) : bool :=
  let ts := k_types c in
  let sat := satisfies_b (k_reserve c) (k_ctr c) in
  negb (N.eqb (o_kind c) 3) &&
  (negb (N.eqb (o_kind c) 0) || match find_it (o_id c) ts with Some _ => true | None => false end) &&
  (negb (N.eqb (o_kind c) 1) || match ts with [] => true | _ => false end) &&
  (negb (in_range_b (k_reserve c) ts (k_ctr c)) ||
   ((negb (N.eqb (o_kind c) 0) ||
     match find_it (o_id c) ts with
     | Some t => sat t && forallb (fun x => negb (sat x) || (price t <=? price x)) ts
     | None => false
     end) &&
    (negb (N.eqb (o_kind c) 2) ||
     (match ts with [] => false | _ => true end && forallb (fun x => negb (sat x)) ts &&
      permN_b (o_avail c) (map it_id ts) && nondecr_b (map (price_of ts) (o_avail c)))))).

(* ---------------- model vs implementation ---------------- *)

Fixpoint insert_all {A} (x : A) (l : list A) : list (list A) :=
  match l with [] => [[x]] | y :: r => (x :: l) :: map (cons y) (insert_all x r) end.
Fixpoint perms {A} (l : list A) : list (list A) :=
  match l with [] => [[]] | x :: r => flat_map (insert_all x) (perms r) end.

Definition kind_of (ch : choice) : N := match ch with Chosen _ => 0 | ErrNoTypes => 1 | ErrUnsat _ => 2 end%N.
Definition chosen_id (ch : choice) : option N := match ch with Chosen t => Some (it_id t) | _ => None end.
Definition same_answer (c : case) (ch : choice) : bool :=
  N.eqb (kind_of ch) (o_kind c) &&
  match ch with Chosen t => N.eqb (it_id t) (o_id c) | _ => true end.

Fixpoint nodupZ (l : list Z) : bool :=
  match l with [] => true | x :: r => negb (existsb (Z.eqb x) r) && nodupZ r end.
Fixpoint listN_eqb (a b : list N) : bool :=
  match a, b with [] , [] => true | x :: r, y :: s => N.eqb x y && listN_eqb r s | _, _ => false end.

Definition model_b (c : case) : bool :=
  let ts := k_types c in
  let n := need_of (k_reserve c) (k_ctr c) in
  Z.eqb (o_scratch c) (estimate_scratch (k_ctr c)) &&
  (* the answer is one the fold can produce for some iteration order of the map *)
  (if Nat.leb (List.length ts) 5 then existsb (fun p => same_answer c (choose_need n p)) (perms ts)
   else
     let m := choose_need n ts in
     if forallb sane ts then
       N.eqb (kind_of m) (o_kind c) &&
       (negb (N.eqb (o_kind c) 0) ||
        match find_it (o_id c) ts with Some t => candidate n ts t | None => false end)
     else (* not generated; only adequacy can be demanded *)
       (negb (N.eqb (o_kind c) 0) ||
        match find_it (o_id c) ts with Some t => adequate n t | None => false end)) &&
  (* the error lists the table by price *)
  (negb (N.eqb (o_kind c) 2) ||
   (permN_b (o_avail c) (map it_id ts) && nondecr_b (map (price_of ts) (o_avail c)) &&
    (negb (nodupZ (map price ts)) || listN_eqb (o_avail c) (map it_id (sort_price ts))))).

(* result code per case: 0 ok; +1 model/implementation mismatch; +2 observed behaviour violates the spec *)
Definition check_case (c : case) : N :=
  ((if model_b c then 0 else 1) + (if spec_b c then 0 else 2))%N.

Fixpoint failing_from (i : N) (cs : list case) : list (N * N) :=
  match cs with
  | [] => []
  | c :: r => let k := check_case c in
              if N.eqb k 0 then failing_from (N.succ i) r else (i, k) :: failing_from (N.succ i) r
  end.
Definition failing (cs : list case) : list (N * N) := failing_from 0%N cs.

(* short constructors for the generated case files *)
Definition T (id : N) (p r v s : Z) (pre : bool) : itype := mkit id p r v s pre.
