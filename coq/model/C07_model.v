(* C07 — block signatures.  Executable model of
     sdk/go/arvados/blob_signature.go   makePermSignature, SignLocator, SignedLocatorRe,
                                        VerifySignature, parseHexTimestamp, SignManifest
     sdk/go/keepclient/perms.go         (re-exports of the above: nothing to model)
     services/keepstore/perms.go        SignLocator / VerifySignature (error mapping)
     services/keepstore/handlers.go     MakeRESTRouter (GET routes), GetAPIToken, handleGET gate
     services/api/app/models/blob.rb    generate_signature, sign_locator (the Rails reference;
                                        Ruby is not installed: this transcription is the reference)
   Times are explicit: [exp] is expiry.Unix() (seconds, non-negative), [now_ns] is time.Now() in
   nanoseconds since the epoch, [ttl_ns] the BlobSigningTTL in nanoseconds (non-negative).
   Definitions only. *)
From Coq Require Import NArith List Ascii String Bool.
From AV Require Import lib.Str lib.Sha1 lib.TokSplit.
Import ListNotations.
Local Open Scope string_scope.

(* ---- makePermSignature / Blob.generate_signature ---- *)
Definition sig_msg (h tok e l : string) : string := h ++ "@" ++ tok ++ "@" ++ e ++ "@" ++ l.
Definition make_sig (key h tok e l : string) : string := hmac_sha1_hex key (sig_msg h tok e l).

(* strconv.FormatInt(int64(ttl.Seconds()), 16) *)
Definition ttl_hex (ttl_ns : N) : string := hexn (ttl_ns / 1000000000)%N.

(* ---- SignLocator; parameterised by the signature function so that the evaluator can cache ---- *)
Definition sigfun := string -> string -> string -> string -> string -> string.
Definition blob_hash (loc : string) : string := hd "" (split_on "+" loc).   (* strings.Split(loc,"+")[0] *)
Definition sign_locator_k (mk : sigfun) (loc tok : string) (exp ttl_ns : N) (key : string) : string :=
  if String.eqb key "" || String.eqb tok "" then loc
  else let e := hex08 exp in
       loc ++ "+A" ++ mk key (blob_hash loc) tok e (ttl_hex ttl_ns) ++ "@" ++ e.
Definition sign_locator := sign_locator_k make_sig.

(* ---- SignedLocatorRe as a hand-written recogniser ----
   The regular expression (written here with HINT for the group  \+[B-Z][A-Za-z0-9@_-]*  because
   the original text would end this comment) is
     ^([[:xdigit:]]{32})(\+[0-9]+)?((HINT)* )(\+A([[:xdigit:]]{40})@([[:xdigit:]]{8}))((HINT)* )$
   parse_signed returns groups 1, 6, 7. *)
Definition is_hintchar (c : ascii) : bool :=
  is_upper c || is_lower c || is_digit c || Ascii.eqb c "@" || Ascii.eqb c "_" || Ascii.eqb c "-".
Definition is_BZ (c : ascii) : bool := in_range 66 90 c.
Definition is_hint (f : string) : bool :=
  match f with String c r => is_BZ c && all_chars is_hintchar r | EmptyString => false end.
Definition is_size (f : string) : bool :=
  match f with EmptyString => false | _ => all_chars is_digit f end.
Definition parse_sigfield (f : string) : option (string * string) :=
  match f with
  | String c r =>
    if Ascii.eqb c "A" && Nat.eqb (String.length r) 49 && all_chars is_xdigit (take 40 r)
       && String.eqb (take 1 (drop 40 r)) "@" && all_chars is_xdigit (drop 41 r)
    then Some (take 40 r, drop 41 r) else None
  | EmptyString => None
  end.
Fixpoint skip_hints (fs : list string) : list string :=
  match fs with f :: r => if is_hint f then skip_hints r else fs | [] => [] end.
Definition skip_size (fs : list string) : list string :=
  match fs with f :: r => if is_size f then r else fs | [] => [] end.
Definition parse_signed (loc : string) : option (string * string * string) :=
  let h := take 32 loc in
  if negb (Nat.eqb (String.length h) 32 && all_chars is_xdigit h) then None else
  match split_on "+" (drop 32 loc) with
  | EmptyString :: fs =>
    match skip_hints (skip_size fs) with
    | a :: r =>
      match parse_sigfield a with
      | Some (sg, e) => match skip_hints r with [] => Some (h, sg, e) | _ :: _ => None end
      | None => None
      end
    | [] => None
    end
  | _ => None
  end.

(* ---- VerifySignature ---- *)
Inductive vres := VOk | VExpired | VInvalid | VMissing.
(* time.Unix(ts,0).Before(now) *)
Definition expired (ts now_ns : N) : bool := (ts * 1000000000 <? now_ns)%N.
(* parseHexTimestamp: strconv.ParseInt(e,16,0) — on the 8 hex digits the regexp guarantees it never
   fails; the model keeps the error branch (signs and range errors cannot occur on 8 hex digits) *)
Definition verify_k (mk : sigfun) (loc tok : string) (ttl_ns : N) (key : string) (now_ns : N) : vres :=
  match parse_signed loc with
  | None => VMissing
  | Some (h, sg, e) =>
    match hexnum e with
    | None => VInvalid
    | Some ts =>
      if expired ts now_ns then VExpired
      else if String.eqb sg (mk key h tok e (ttl_hex ttl_ns)) then VOk else VInvalid
    end
  end.
Definition verify := verify_k make_sig.

(* ---- SignManifest ----
   regexp \S+ tokens (Go's \s = [\t\n\f\r ]); a token matching ^[0-9a-f]{32} loses every
   +A field (\+A[^+]* ) and is then signed; everything else is copied. *)
Definition is_ws (c : ascii) : bool :=
  let n := cN c in (n =? 9)%N || (n =? 10)%N || (n =? 12)%N || (n =? 13)%N || (n =? 32)%N.
Definition is_blk (tok : string) : bool :=
  Nat.leb 32 (String.length tok) && all_chars is_lhex (take 32 tok).
Definition is_Afield (f : string) : bool := has_prefix "A" f.
Definition strip_sigs (tok : string) : string :=
  match split_on "+" tok with
  | f0 :: fs => join "+" (f0 :: filter (fun f => negb (is_Afield f)) fs)
  | [] => tok
  end.
Definition sign_tok_k (mk : sigfun) (tokn : string) (exp ttl_ns : N) (key : string) (t : string) : string :=
  if is_blk t then sign_locator_k mk (strip_sigs t) tokn exp ttl_ns key else t.
Definition flush (f : string -> string) (t : string) : string :=
  match t with EmptyString => EmptyString | _ => f t end.
(* returns (the still open token at the head of s, the rest already rewritten) *)
Fixpoint sm_scan (f : string -> string) (s : string) : string * string :=
  match s with
  | EmptyString => (EmptyString, EmptyString)
  | String c r =>
    let '(t, out) := sm_scan f r in
    if is_ws c then (EmptyString, String c (flush f t ++ out)) else (String c t, out)
  end.
Definition map_tokens (f : string -> string) (m : string) : string :=
  let '(t, out) := sm_scan f m in flush f t ++ out.
Definition sign_manifest_k (mk : sigfun) (m tokn : string) (exp ttl_ns : N) (key : string) : string :=
  map_tokens (sign_tok_k mk tokn exp ttl_ns key) m.
Definition sign_manifest := sign_manifest_k make_sig.

(* ---- keepstore GET ----
   routes `/{hash:[0-9a-f]{32}}` and `/{hash:[0-9a-f]{32}}+{hints}` (hints = [^/]+), anything else
   400; GetAPIToken: ^(OAuth2|Bearer)\s+(.* ) on the first Authorization header. *)
Definition route_get (path : string) : option string :=
  match path with
  | String c loc =>
    if negb (Ascii.eqb c "/") then None
    else if has_char "/" loc then None
    else let h := take 32 loc in
         if negb (Nat.eqb (String.length h) 32 && all_chars is_lhex h) then None
         else match drop 32 loc with
              | EmptyString => Some h
              | String p hints => if Ascii.eqb p "+" && negb (String.eqb hints "") then Some h else None
              end
  | EmptyString => None
  end.
Fixpoint skip_ws (s : string) : string :=
  match s with String c r => if is_ws c then skip_ws r else s | EmptyString => EmptyString end.
Definition api_token (auth : option string) : string :=
  match auth with
  | None => ""
  | Some v =>
    if has_prefix "OAuth2" v || has_prefix "Bearer" v then
      match drop 6 v with
      | String c r => if is_ws c then skip_ws r else ""
      | EmptyString => ""
      end
    else ""
  end.
Inductive get_outcome :=
| GBadRequest                (* no route: 400 *)
| GRemote                    (* +R without +A: handed to the remote proxy (not part of C07) *)
| GDeny (code : N)           (* 401 expired / 403 otherwise; no volume is touched *)
| GVolume (hash : string).   (* GetBlock(hash) is called *)
Definition get_gate_k (mk : sigfun) (signing : bool) (path : string) (auth : option string)
           (ttl_ns : N) (key : string) (now_ns : N) : get_outcome :=
  match route_get path with
  | None => GBadRequest
  | Some h =>
    let loc := drop 1 path in
    if contains "+R" loc && negb (contains "+A" loc) then GRemote
    else if signing then
      match verify_k mk loc (api_token auth) ttl_ns key now_ns with
      | VOk => GVolume h
      | VExpired => GDeny 401
      | _ => GDeny 403
      end
    else GVolume h
  end.
Definition get_gate := get_gate_k make_sig.
(* status code seen by the client when the block is / is not stored under its hash *)
Definition get_status (o : get_outcome) (stored : bool) : option N :=
  match o with
  | GBadRequest => Some 400%N
  | GRemote => None
  | GDeny c => Some c
  | GVolume _ => Some (if stored then 200 else 404)%N
  end.

(* ---- Rails reference (blob.rb) ---- *)
(* generate_signature: OpenSSL::HMAC.hexdigest(sha1, key, [hash, token, timestamp, ttl].join(@)) *)
Definition rails_sig (key h tok ts l : string) : string :=
  hmac_sha1_hex key (join "@" [h; tok; ts; l]).
(* Blob.sign_locator with opts[:expire]; blob_locator.split(+).first is "" -> nil for an empty
   locator in Ruby, which the Go side never produces: hash taken as for Go *)
Definition rails_sign_locator (loc tok : string) (exp ttl_s : N) (key : string) : string :=
  let ts := hexn exp in
  loc ++ "+A" ++ rails_sig key (blob_hash loc) tok ts (hexn ttl_s) ++ "@" ++ ts.
