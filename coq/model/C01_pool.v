(* C01 — overlapping requests and the shared buffer pool.
   Transcribes the buffer handling of services/keepstore/handlers.go handleGET / handlePUT and
   bufferpool.go as a small-step system: any number of GET/HEAD/PUT requests in flight on one router,
   interleaved arbitrarily between the points where a handler can be held up
     - waiting for a buffer            (getBufferWithContext -> bufs.Get)
     - before its volume work          (GetBlock / PutBlock; the volume work itself is one step and is
                                        exactly the sequential model of model/C01_model.v)
     - reading the request body        (io.ReadFull(req.Body, buf): a slow upload)
     - writing the response body       (resp.Write(buf[:size]): a client slow to take the bytes)
     - giving the buffer back          (bufs.Put: deferred in handleGET, explicit in handlePUT)
   plus an environment step: any other user of the pool may overwrite a buffer that is IN the pool.
   A buffer is identified by a number; [mem] is what it currently holds (a content, as everywhere in
   C01_model: two byte strings are the same content iff they have the same cid and length).
   A PUT whose body does not arrive completely (op PutShort: io.ReadFull returns an error) leaves in its
   buffer the bytes that did arrive followed by whatever the buffer held before: [splice s d old n] is
   that mixture (abstract, like every content); the handler answers 500 without looking at it and gives
   the buffer back once.
   VARIANTS, used only for the regression witnesses in proofs/C01_pool_proofs.v:
   [early = true]: handleGET gives its buffer back as soon as GetBlock has returned, i.e. before the body
   is written; [lenient = true]: handlePUT goes on to PutBlock after a short read (the checksum test then
   sees the mixture); [twice = true]: the failed-read branch gives the buffer back and the handler gives
   it back again on return, so the pool holds it twice.
   Definitions only. *)
From Coq Require Import NArith List String Bool Arith.
From AV Require Import lib.Str model.C01_model.
Import ListNotations.
Local Open Scope N_scope.

Inductive ppc :=
| W                                  (* waiting for a buffer *)
| GHave (b : nat)                    (* handleGET holds buffer b; next: GetBlock *)
| GFilled (b : nat) (c : content)    (* GetBlock verified a copy c and left its bytes in b; next: Content-Length and resp.Write(buf[:size]) *)
| GLoose (b : nat) (c : content)     (* VARIANT only: as GFilled, but b is already back in the pool *)
| GFailed (b : nat) (e : N)          (* GetBlock returned an error; next: http.Error *)
| PHave (b : nat)                    (* handlePUT holds b; next: io.ReadFull(req.Body, buf) *)
| PRead (b : nat)                    (* the body is in b; next: PutBlock(buf) *)
| Resp (b : nat) (r : resp)          (* the answer is determined, b still held; next: bufs.Put *)
| Fin (r : resp).                    (* request finished with answer r *)

Record pst := {
  ks : state;                        (* volumes + round-robin counter (C01_model) *)
  free : list nat;                   (* buffers in the pool *)
  mem : nat -> content;              (* what each buffer holds *)
  thr : list (op * ppc);             (* the requests in flight *)
  lin : list (nat * op * resp);      (* ghost: (thread, request, answer of the sequential handler) at each volume step, newest first *)
  early : bool;
  lenient : bool;
  twice : bool;
  splice : content -> content -> N -> content
}.

Definition upd_mem (m : nat -> content) (b : nat) (x : content) : nat -> content :=
  fun k => if Nat.eqb k b then x else m k.

(* the pool hands out ONE of its entries *)
Fixpoint remove_nat (b : nat) (l : list nat) : list nat :=
  match l with
  | [] => []
  | x :: r => if Nat.eqb x b then r else x :: remove_nat b r
  end.

Fixpoint set_thr (l : list (op * ppc)) (i : nat) (p : ppc) : list (op * ppc) :=
  match l, i with
  | [], _ => []
  | (o, _) :: r, O => (o, p) :: r
  | x :: r, S i' => x :: set_thr r i' p
  end.

Section POOL.
Variable H : content -> string.

Definition get_resp (c : content) (in_buf : content) : resp :=
  {| code := 200; body := Some in_buf; clength := Some (clen c) |}.
Definition err_resp (e : N) : resp := {| code := e; body := None; clength := None |}.

(* scheduler / environment choices *)
Inductive lbl :=
| Run (i : nat) (b : nat)            (* request i makes its next step; b = the buffer the pool hands out if that step takes one *)
| Scribble (b : nat) (x : content).  (* some other user of the pool overwrites buffer b, which must be in the pool *)

Definition mk (s : pst) (k : state) (f : list nat) (m : nat -> content) (i : nat) (p : ppc) (l : list (nat * op * resp)) : pst :=
  {| ks := k; free := f; mem := m; thr := set_thr (thr s) i p; lin := l; early := early s;
     lenient := lenient s; twice := twice s; splice := splice s |}.

Definition in_pool (s : pst) (b : nat) : bool := existsb (Nat.eqb b) (free s).

Definition step (s : pst) (a : lbl) : option pst :=
  match a with
  | Scribble b x => if in_pool s b then Some {| ks := ks s; free := free s; mem := upd_mem (mem s) b x; thr := thr s; lin := lin s; early := early s;
                                                  lenient := lenient s; twice := twice s; splice := splice s |} else None
  | Run i b0 =>
    match nth_error (thr s) i with
    | None => None
    | Some (o, p) =>
      match p, o with
      | W, (Get _ | Head _) =>
          if in_pool s b0 then Some (mk s (ks s) (remove_nat b0 (free s)) (mem s) i (GHave b0) (lin s)) else None
      | W, (Put _ _ | PutShort _ _ _ | PutCancel _ _) =>
          if in_pool s b0 then Some (mk s (ks s) (remove_nat b0 (free s)) (mem s) i (PHave b0) (lin s)) else None
      | GHave b, (Get h | Head h) =>
          let r := handle_get H (ks s) h in
          match get_block H (vols (ks s)) h 404 with
          | GOk c =>
              if early s
              then Some (mk s (ks s) (b :: free s) (upd_mem (mem s) b c) i (GLoose b c) ((i, o, r) :: lin s))
              else Some (mk s (ks s) (free s) (upd_mem (mem s) b c) i (GFilled b c) ((i, o, r) :: lin s))
          | GErr e => Some (mk s (ks s) (free s) (mem s) i (GFailed b e) ((i, o, r) :: lin s))
          end
      | GFilled b c, _ => Some (mk s (ks s) (free s) (mem s) i (Resp b (get_resp c (mem s b))) (lin s))
      | GLoose b c, _ => Some (mk s (ks s) (free s) (mem s) i (Fin (get_resp c (mem s b))) (lin s))
      | GFailed b e, _ => Some (mk s (ks s) (free s) (mem s) i (Resp b (err_resp e)) (lin s))
      | PHave b, Put _ d => Some (mk s (ks s) (free s) (upd_mem (mem s) b d) i (PRead b) (lin s))
      | PRead b, Put h d =>
          (* PutBlock hashes, compares and writes the bytes that are in the buffer NOW *)
          let '(r, k') := handle_put H (ks s) h (mem s b) in
          Some (mk s k' (free s) (mem s) i (Resp b r) ((i, o, fst (handle_put H (ks s) h d)) :: lin s))
      | PHave b, PutShort h d n =>
          (* io.ReadFull(req.Body, buf) returns an error: http.Error(500), bufs.Put(buf), return *)
          let m' := upd_mem (mem s) b (splice s d (mem s b) n) in
          if lenient s then Some (mk s (ks s) (free s) m' i (PRead b) (lin s))
          else let r := handle_put_short (ks s) n in
               Some (mk s (ks s) (if twice s then b :: free s else free s) m' i (Resp b r) ((i, o, r) :: lin s))
      | PHave b, PutCancel h d =>
          (* the body arrives, the client goes away during PutBlock: the sequential handler's answer (an
             error, volumes unchanged); the volume work of an abandoned request is one step here too *)
          let r := handle_put_short (ks s) (clen d) in
          Some (mk s (ks s) (free s) (upd_mem (mem s) b d) i (Resp b r) ((i, o, r) :: lin s))
      | PRead b, PutShort h d n =>
          (* VARIANT lenient only *)
          if lenient s
          then let '(r, k') := handle_put H (ks s) h (mem s b) in
               Some (mk s k' (free s) (mem s) i (Resp b r) ((i, o, r) :: lin s))
          else None
      | Resp b r, _ => Some (mk s (ks s) (b :: free s) (mem s) i (Fin r) (lin s))
      | _, _ => None
      end
    end
  end.

Fixpoint steps (s : pst) (ls : list lbl) : option pst :=
  match ls with
  | [] => Some s
  | a :: r => match step s a with Some s' => steps s' r | None => None end
  end.

(* initial states: every request is waiting for a buffer; the pool holds distinct buffers; the buffers
   hold anything *)
Definition init_pool_gen (k : state) (bufs : list nat) (m : nat -> content) (reqs : list op) (e le tw : bool)
                         (sp : content -> content -> N -> content) : pst :=
  {| ks := k; free := bufs; mem := m; thr := map (fun o => (o, W)) reqs; lin := []; early := e;
     lenient := le; twice := tw; splice := sp |}.
(* the handlers as they are (e = false) resp. the early-release variant (e = true); the mixture left by a
   short read is represented by the bytes that arrived *)
Definition init_pool (k : state) (bufs : list nat) (m : nat -> content) (reqs : list op) (e : bool) : pst :=
  init_pool_gen k bufs m reqs e false false (fun d _ _ => d).

End POOL.
