(* Collection filesystem, tree level: sdk/go/arvados/fs_base.go (fileSystem.openFile, Mkdir, Stat,
   Rename, remove, rlookup, treenode.Child), fs_filehandle.go (Read, Seek, Write, Truncate, Readdir,
   Stat) and collectionFileSystem.newNode, transcribed once, *generically in the representation of a
   regular file*.  Instantiated twice:
     - with the segment-list file node of CFS_file.v (the model of the implementation), and
     - with a plain byte list per file (the specification: "an ordinary in-memory filesystem").
   Inodes live in an append-only table (id = position) because open handles keep addressing an inode
   after it has been renamed or removed, exactly as the Go pointers do.  Definitions only. *)
From Coq Require Import List Arith Ascii String Bool.
From AV Require Import lib.Str lib.Path model.CFS_file.
Import ListNotations.
Local Open Scope string_scope.
Local Open Scope list_scope.

Notation byte := CFS_file.byte (only parsing).

Inductive err :=
| ENotExist | EExist | ENotDir | EIsDir | ENotEmpty | EInvalidArg | EInvalidOp
| EReadOnly | EWriteOnly | ENegOffset | ESyncFlag | EOther.

Inductive res (A : Type) := Ok (a : A) | Err (e : err).
Arguments Ok {A} a.
Arguments Err {A} e.

(* what a file representation must provide *)
Record FileImpl := {
  F : Type;                                    (* a regular file *)
  P : Type;                                    (* a handle's position *)
  f_empty : F;
  f_size : F -> nat;
  f_read : F -> nat -> P -> list byte * P * bool;      (* read until n bytes or EOF: data, new position, EOF flag *)
  f_write : F -> P -> list byte -> F * P;
  f_trunc : F -> nat -> F;
  p_zero : P;                                  (* filenodePtr{} *)
  p_off : P -> nat;
  p_set : P -> nat -> P;                       (* Seek to a different offset *)
  p_eof : F -> P                               (* O_APPEND: position at end of file *)
}.

Section Tree.
Variable I : FileImpl.

Inductive inode := IFile (f : F I) | IDir (ents : list (string * nat)).
Record ino := { i_node : inode; i_parent : nat }.
Record handle := { h_ino : nat; h_ptr : P I; h_append : bool; h_r : bool; h_w : bool }.
Record fs := { inodes : list ino; handles : list handle }.

Definition root_id : nat := 0.
Definition fs_init : fs :=
  {| inodes := [{| i_node := IDir []; i_parent := root_id |}]; handles := [] |}.

Definition get_ino (s : fs) (id : nat) : ino := nth id (inodes s) {| i_node := IDir []; i_parent := root_id |}.
Definition set_ino (s : fs) (id : nat) (x : ino) : fs :=
  if Nat.ltb id (List.length (inodes s))
  then {| inodes := firstn id (inodes s) ++ x :: skipn (S id) (inodes s); handles := handles s |}
  else s.
Definition add_ino (s : fs) (x : ino) : fs * nat :=
  ({| inodes := inodes s ++ [x]; handles := handles s |}, List.length (inodes s)).
Definition is_dir (s : fs) (id : nat) : bool :=
  match i_node (get_ino s id) with IDir _ => true | IFile _ => false end.
Definition parent_of (s : fs) (id : nat) : nat := i_parent (get_ino s id).

Fixpoint ents_find (l : list (string * nat)) (name : string) : option nat :=
  match l with [] => None | (n, id) :: r => if String.eqb n name then Some id else ents_find r name end.
Fixpoint ents_del (l : list (string * nat)) (name : string) : list (string * nat) :=
  match l with [] => [] | (n, id) :: r => if String.eqb n name then r else (n, id) :: ents_del r name end.
(* entries are kept sorted by name (Go: a map; listings are compared sorted) *)
Fixpoint ents_put (l : list (string * nat)) (name : string) (id : nat) : list (string * nat) :=
  match l with
  | [] => [(name, id)]
  | (n, i) :: r => if String.eqb n name then (name, id) :: r
                   else if str_ltb name n then (name, id) :: l
                   else (n, i) :: ents_put r name id
  end.

Definition special_name (n : string) : bool := String.eqb n "" || String.eqb n "." || String.eqb n "..".

(* inode.Child(name, nil): nullnode (files) -> ErrNotADirectory; treenode -> child or invalid name *)
Definition child (s : fs) (dir : nat) (name : string) : res (option nat) :=
  match i_node (get_ino s dir) with
  | IFile _ => Err ENotDir
  | IDir ents => if special_name name then Err EInvalidArg else Ok (ents_find ents name)
  end.

(* rlookup(start, path) *)
Fixpoint rlookup_comps (s : fs) (node : nat) (comps : list string) : res nat :=
  match comps with
  | [] => Ok node
  | name :: r =>
      if is_dir s node && (String.eqb name "." || String.eqb name "") then rlookup_comps s node r
      else if is_dir s node && String.eqb name ".." then rlookup_comps s (parent_of s node) r
      else match child s node name with
           | Err e => Err e
           | Ok None => Err ENotExist
           | Ok (Some c) => rlookup_comps s c r
           end
  end.
Definition rlookup (s : fs) (path : string) : res nat := rlookup_comps s root_id (split_slash path).

Definition set_ents (s : fs) (dir : nat) (ents : list (string * nat)) : fs :=
  set_ino s dir {| i_node := IDir ents; i_parent := i_parent (get_ino s dir) |}.
Definition dir_ents (s : fs) (dir : nat) : list (string * nat) :=
  match i_node (get_ino s dir) with IDir e => e | IFile _ => [] end.
Definition set_parent (s : fs) (id p : nat) : fs :=
  set_ino s id {| i_node := i_node (get_ino s id); i_parent := p |}.
Definition set_file (s : fs) (id : nat) (f : F I) : fs :=
  set_ino s id {| i_node := IFile f; i_parent := i_parent (get_ino s id) |}.

(* ---- open flags ---- *)
Record oflags := { o_acc : nat (* 0 RDONLY, 1 WRONLY, 2 RDWR, 3 invalid *);
                   o_create : bool; o_excl : bool; o_trunc : bool; o_append : bool; o_sync : bool }.

Definition add_handle (s : fs) (h : handle) : fs * nat :=
  ({| inodes := inodes s; handles := handles s ++ [h] |}, List.length (handles s)).
Definition mk_handle (id : nat) (ap r w : bool) : handle :=
  {| h_ino := id; h_ptr := p_zero I; h_append := ap; h_r := r; h_w := w |}.

(* fileSystem.openFile *)
Definition open_file (s : fs) (name : string) (fl : oflags) : fs * res nat :=
  if o_sync fl then (s, Err ESyncFlag) else
  let '(dirname, base) := path_split name in
  match rlookup s dirname with
  | Err e => (s, Err e)
  | Ok parent =>
    if Nat.eqb (o_acc fl) 3 then (s, Err EOther) else
    let readable := Nat.eqb (o_acc fl) 0 || Nat.eqb (o_acc fl) 2 in
    let writable := Nat.eqb (o_acc fl) 1 || Nat.eqb (o_acc fl) 2 in
    if negb writable && is_dir s parent && (String.eqb base "." || String.eqb base "") then
      let '(s', h) := add_handle s (mk_handle parent false false false) in (s', Ok h)
    else if negb writable && is_dir s parent && String.eqb base ".." then
      let '(s', h) := add_handle s (mk_handle (parent_of s parent) false false false) in (s', Ok h)
    else
    match child s parent base with
    | Err e => (s, Err e)
    | Ok None =>
        if negb (o_create fl) then (s, Err ENotExist) else
        (* newNode: a regular file (perm has no ModeDir); the name is known to be valid here *)
        let '(s1, id) := add_ino s {| i_node := IFile (f_empty I); i_parent := parent |} in
        let s2 := set_ents s1 parent (ents_put (dir_ents s1 parent) base id) in
        let '(s3, h) := add_handle s2 (mk_handle id (o_append fl) readable writable) in (s3, Ok h)
    | Ok (Some n) =>
        if o_excl fl then (s, Err EExist)
        else if o_trunc fl then
          if negb writable then (s, Err EOther)
          else match i_node (get_ino s n) with
               | IDir _ => (s, Err EOther)
               | IFile f =>
                   let s1 := set_file s n (f_trunc I f 0) in
                   let '(s2, h) := add_handle s1 (mk_handle n (o_append fl) readable writable) in (s2, Ok h)
               end
        else let '(s1, h) := add_handle s (mk_handle n (o_append fl) readable writable) in (s1, Ok h)
    end
  end.

(* fileSystem.Mkdir *)
Definition mkdir (s : fs) (name : string) : fs * res unit :=
  let '(dirname, base) := path_split name in
  match rlookup s dirname with
  | Err e => (s, Err e)
  | Ok n =>
    match child s n base with
    | Err e => (s, Err e)
    | Ok (Some _) => (s, Err EExist)
    | Ok None =>
        let '(s1, id) := add_ino s {| i_node := IDir []; i_parent := n |} in
        (set_ents s1 n (ents_put (dir_ents s1 n) base id), Ok tt)
    end
  end.

(* FileInfo: (is directory, size); a directory's size is its number of entries *)
Definition info (s : fs) (id : nat) : bool * nat :=
  match i_node (get_ino s id) with
  | IFile f => (false, f_size I f)
  | IDir e => (true, List.length e)
  end.
Definition stat (s : fs) (name : string) : res (bool * nat) :=
  match rlookup s name with Err e => Err e | Ok id => Ok (info s id) end.

(* the chain node, parent, grand-parent, ... up to the root (fuel = table size) *)
Fixpoint ancestors (s : fs) (fuel : nat) (id : nat) : list nat :=
  match fuel with
  | O => [id]
  | S f => if Nat.eqb (parent_of s id) id then [id] else id :: ancestors s f (parent_of s id)
  end.
Definition mem_nat (x : nat) (l : list nat) : bool := existsb (Nat.eqb x) l.

(* fileSystem.Rename *)
Definition rename (s : fs) (oldp newp : string) : fs * res unit :=
  let '(olddir, oldname) := path_split oldp in
  if special_name oldname then (s, Err EInvalidArg) else
  match rlookup s olddir with        (* openFile(olddir+".", O_RDONLY): a handle on the directory *)
  | Err e => (s, Err e)
  | Ok od =>
    let '(newdir, newname0) := path_split newp in
    if String.eqb newname0 "." || String.eqb newname0 ".." then (s, Err EInvalidArg) else
    let newname := if String.eqb newname0 "" then oldname else newname0 in
    match rlookup s newdir with
    | Err e => (s, Err e)
    | Ok nd =>
      let locked := (ancestors s (List.length (inodes s)) od ++ ancestors s (List.length (inodes s)) nd)%list in
      match ents_find (dir_ents s od) oldname with
      | None => (s, Err ENotExist)
      | Some oi =>
        if mem_nat oi locked then (s, Err EInvalidArg)
        else if Nat.eqb nd od && String.eqb newname oldname then (s, Ok tt)
        else
          match ents_find (dir_ents s nd) newname with
          | Some ex => if is_dir s ex then (s, Err EIsDir) else
              let s1 := set_ents s nd (ents_put (dir_ents s nd) newname oi) in
              let s2 := set_parent s1 oi nd in
              (set_ents s2 od (ents_del (dir_ents s2 od) oldname), Ok tt)
          | None =>
              let s1 := set_ents s nd (ents_put (dir_ents s nd) newname oi) in
              let s2 := set_parent s1 oi nd in
              (set_ents s2 od (ents_del (dir_ents s2 od) oldname), Ok tt)
          end
      end
    end
  end.

(* fileSystem.Remove = remove(TrimRight(name, "/"), recursive=false) *)
Definition remove (s : fs) (name0 : string) : fs * res unit :=
  let name := trim_right_slash name0 in
  let '(dirname, base) := path_split name in
  if special_name base then (s, Err EInvalidArg) else
  match rlookup s dirname with
  | Err e => (s, Err e)
  | Ok d =>
    match i_node (get_ino s d) with
    | IFile _ => (s, Err ENotDir)
    | IDir ents =>
      match ents_find ents base with
      | None => (s, Err ENotExist)
      | Some n =>
          if is_dir s n && negb (Nat.eqb (List.length (dir_ents s n)) 0) then (s, Err ENotEmpty)
          else (set_ents s d (ents_del ents base), Ok tt)
      end
    end
  end.

(* ---- handle operations ---- *)
Definition get_handle (s : fs) (h : nat) : option handle := nth_error (handles s) h.
Definition set_handle (s : fs) (h : nat) (x : handle) : fs :=
  if Nat.ltb h (List.length (handles s))
  then {| inodes := inodes s; handles := firstn h (handles s) ++ x :: skipn (S h) (handles s) |}
  else s.
Definition with_ptr (x : handle) (p : P I) : handle :=
  {| h_ino := h_ino x; h_ptr := p; h_append := h_append x; h_r := h_r x; h_w := h_w x |}.

(* filehandle.Read.  f_read is a *full* read ("until n bytes, EOF or error", the loop every caller and
   the harness runs around File.Read): how much a single Read call returns depends on segment
   boundaries, which are not observable behaviour. *)
Definition h_read (s : fs) (h : nat) (n : nat) : fs * res (list byte * bool) :=
  match get_handle s h with
  | None => (s, Err EOther)
  | Some x =>
    if negb (h_r x) then (s, Err EWriteOnly) else
    match i_node (get_ino s (h_ino x)) with
    | IDir _ => (set_handle s h (with_ptr x (p_zero I)), Err EInvalidOp)
    | IFile f => let '(d, p', eof) := f_read I f n (h_ptr x) in
                 (set_handle s h (with_ptr x p'), Ok (d, eof))
    end
  end.

(* filehandle.Seek; whence 0 = start, 1 = current, 2 = end; offsets are integers in Go *)
Definition h_seek (s : fs) (h : nat) (off : nat) (neg : bool) (whence : nat) : fs * res nat :=
  match get_handle s h with
  | None => (s, Err EOther)
  | Some x =>
    let size := snd (info s (h_ino x)) in
    let base := match whence with 0 => 0 | 1 => p_off I (h_ptr x) | _ => size end in
    if neg && Nat.ltb base off then (s, Err ENegOffset)
    else
      let target := if neg then base - off else base + off in
      if Nat.eqb target (p_off I (h_ptr x)) then (s, Ok target)
      else (set_handle s h (with_ptr x (p_set I (h_ptr x) target)), Ok target)
  end.

(* filehandle.Write *)
Definition h_write (s : fs) (h : nat) (data : list byte) : fs * res nat :=
  match get_handle s h with
  | None => (s, Err EOther)
  | Some x =>
    if negb (h_w x) then (s, Err EReadOnly) else
    match i_node (get_ino s (h_ino x)) with
    | IDir _ => (set_handle s h (with_ptr x (p_zero I)), Err EInvalidOp)
    | IFile f =>
        let p := if h_append x then p_eof I f else h_ptr x in
        let '(f', p') := f_write I f p data in
        (set_handle (set_file s (h_ino x) f') h (with_ptr x p'), Ok (List.length data))
    end
  end.

(* filehandle.Truncate (no writable check in the code) *)
Definition h_trunc (s : fs) (h : nat) (size : nat) : fs * res unit :=
  match get_handle s h with
  | None => (s, Err EOther)
  | Some x =>
    match i_node (get_ino s (h_ino x)) with
    | IDir _ => (s, Err EInvalidOp)
    | IFile f => (set_file s (h_ino x) (f_trunc I f size), Ok tt)
    end
  end.

Definition h_stat (s : fs) (h : nat) : res (bool * nat) :=
  match get_handle s h with None => Err EOther | Some x => Ok (info s (h_ino x)) end.

(* filehandle.Readdir(0): names with (isdir, size), sorted by name *)
Definition h_readdir (s : fs) (h : nat) : res (list (string * (bool * nat))) :=
  match get_handle s h with
  | None => Err EOther
  | Some x =>
    match i_node (get_ino s (h_ino x)) with
    | IFile _ => Err EInvalidOp
    | IDir ents => Ok (map (fun e => (fst e, info s (snd e))) ents)
    end
  end.

(* ---- operations and observations ---- *)
Inductive op :=
| OOpen (name : string) (fl : oflags)
| ORead (h n : nat)
| OWrite (h : nat) (data : list byte)
| OSeek (h off : nat) (neg : bool) (whence : nat)
| OTrunc (h size : nat)
| OHStat (h : nat)
| OReaddir (h : nat)
| OMkdir (name : string)
| ORename (a b : string)
| ORemove (name : string)
| OStat (name : string).

Inductive obs :=
| VErr (e : err)
| VUnit
| VNat (n : nat)
| VData (d : list byte) (eof : bool)
| VInfo (isdir : bool) (size : nat)
| VList (l : list (string * (bool * nat))).

Definition step (s : fs) (o : op) : fs * obs :=
  match o with
  | OOpen name fl => match open_file s name fl with (s', Ok h) => (s', VNat h) | (s', Err e) => (s', VErr e) end
  | ORead h n => match h_read s h n with (s', Ok (d, eof)) => (s', VData d eof) | (s', Err e) => (s', VErr e) end
  | OWrite h d => match h_write s h d with (s', Ok n) => (s', VNat n) | (s', Err e) => (s', VErr e) end
  | OSeek h off neg wh => match h_seek s h off neg wh with (s', Ok n) => (s', VNat n) | (s', Err e) => (s', VErr e) end
  | OTrunc h n => match h_trunc s h n with (s', Ok _) => (s', VUnit) | (s', Err e) => (s', VErr e) end
  | OHStat h => match h_stat s h with Ok (d, n) => (s, VInfo d n) | Err e => (s, VErr e) end
  | OReaddir h => match h_readdir s h with Ok l => (s, VList l) | Err e => (s, VErr e) end
  | OMkdir name => match mkdir s name with (s', Ok _) => (s', VUnit) | (s', Err e) => (s', VErr e) end
  | ORename a b => match rename s a b with (s', Ok _) => (s', VUnit) | (s', Err e) => (s', VErr e) end
  | ORemove name => match remove s name with (s', Ok _) => (s', VUnit) | (s', Err e) => (s', VErr e) end
  | OStat name => match stat s name with Ok (d, n) => (s, VInfo d n) | Err e => (s, VErr e) end
  end.

Fixpoint run (s : fs) (ops : list op) : list obs :=
  match ops with
  | [] => []
  | o :: r => let '(s', v) := step s o in v :: run s' r
  end.

End Tree.
