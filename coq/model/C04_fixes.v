(* C04 — models of the proposed repairs (fixes/F20.diff, fixes/F7.diff), used only to show that the
   repairs close the findings; the checked models of the code as it is are C04_model.v / C04_race.v. *)
From Coq Require Import ZArith NArith List String Bool.
From AV Require Import lib.Str model.C04_model.
Import ListNotations.
Local Open Scope Z_scope.

(* fixes/F20.diff: Untrash keeps an existing block file instead of renaming the trashed copy over it *)
Definition vol_untrash_fixed (v : vol) (h : string) : ures * vol :=
  if v_ro v then (UErr, v)
  else match first_trash (v_trash v) h None with
       | None => (UNotExist, v)
       | Some t => if has_block v h then (UOk, v) else vol_untrash v h
       end.
Fixpoint untrash_all_fixed (vs : list vol) (h : string) : nat * list vol :=
  match vs with
  | [] => (O, [])
  | v :: r =>
    let '(n, r') := untrash_all_fixed r h in
    if v_ro v then (n, v :: r')
    else match vol_untrash_fixed v h with
         | (UNotExist, v') => (n, v' :: r')
         | (_, v') => (S n, v' :: r')
         end
  end.
Definition h_untrash_fixed (s : state) (h : string) : N * state :=
  match writable (vols s) with
  | [] => (404%N, s)
  | _ => let '(n, vs') := untrash_all_fixed (vols s) h in
         ((match n with O => 404 | _ => 200 end)%N, {| vols := vs'; counter := counter s |})
  end.
Definition step_fixed (c : cfg) (s : state) (now : Z) (o : op) : N * state :=
  match o with
  | Untrash h => h_untrash_fixed s h
  | _ => step c s now o
  end.
Fixpoint final_fixed (c : cfg) (s : state) (hs : list (Z * op)) : state :=
  match hs with
  | [] => s
  | (now, o) :: r => final_fixed c (snd (step_fixed c s now o)) r
  end.
