(* C14 / C15 — the dispatcher as a transition system: the worker-pool state machine of model/C14_pool.v
   (the same functions the worker stage compares with the Go code), the scheduler pass of
   model/C16_runq.v instantiated with that pool, and an explicit environment: the VMs that exist in the
   cloud with their live crunch-run processes, start commands and probes in flight.  The queue cache is
   NOT part of the state: a scheduler pass may be run on ANY queue content, so the safety theorems do
   not depend on what the API server or the cache say.
   The guards of [step] are the environment assumptions of C14 (each is named where it is used). *)
From Coq Require Import List ZArith Bool NArith.
From AV Require Import model.C16_runq model.C14_pool.
Import ListNotations.
Local Open Scope Z_scope.

(* a VM in the cloud: instance id, instance type, uuids of its live crunch-run processes *)
Record vm := mkvm { v_id : N; v_it : N; v_procs : list N }.

Record sys := mksys {
  s_env : penv;                        (* the pool and the cloud's answers to Create *)
  s_vms : list vm;
  s_probes : list (probe0 * presp)     (* probes whose crunch-run --list has answered but which are not applied yet *)
}.
(* Start commands in flight are not a separate component: uuid u is in `starting` of worker id exactly
   from StartContainer until the command returns ([LLands]); the creation of the crunch-run process and
   the return of the command are one atomic step of this model. *)

Inductive label :=
| LSched (sorted : list ent)                            (* a runQueue pass over an arbitrary sorted queue *)
| LLands (id u : N) (ok : bool)                         (* a start command returns; ok = crunch-run is now running *)
| LProbeBegin (id : N) (boot list_ok broken stale : bool)
| LProbeEnd (id : N)
| LProcExit (id u : N)                                  (* a crunch-run process ends by itself *)
| LKill (u : N)                                         (* Pool.KillContainer (from sync or the management API) *)
| LKillDelivered (id u : N)                             (* SIGTERM worked: process gone, onKilled *)
| LGiveUp (id u : N)
| LForget (u : N)
| LSetIB (id : N) (b : ibeh)
| LShutdownType (it chosen : N)
| LSweep
| LPoolSync (tags : list ibeh)                          (* Pool.sync with the complete cloud listing *)
| LVMGone (id : N)                                      (* the cloud has destroyed the instance *)
| LRestart.                                             (* the dispatcher process is replaced *)

Fixpoint find_vm (id : N) (l : list vm) : option vm :=
  match l with [] => None | v :: r => if N.eqb (v_id v) id then Some v else find_vm id r end.
Fixpoint put_vm (v : vm) (l : list vm) : list vm :=
  match l with [] => [] | x :: r => if N.eqb (v_id x) (v_id v) then v :: r else x :: put_vm v r end.
Definition set_procs (id : N) (f : list N -> list N) (l : list vm) : list vm :=
  match find_vm id l with Some v => put_vm (mkvm (v_id v) (v_it v) (f (v_procs v))) l | None => l end.
Fixpoint remove_one (u : N) (l : list N) : list N :=
  match l with [] => [] | x :: r => if N.eqb x u then r else x :: remove_one u r end.

Definition wbook (w : wkr) : list N := map ru (w_starting w) ++ map ru (w_running w).
(* all bookkeeping entries (instance, uuid) of the pool *)
Definition allbook (p : wpool) : list (N * N) :=
  flat_map (fun w => map (fun u => (w_id w, u)) (wbook w)) (p_workers p).
Definition memNN (x : N * N) (l : list (N * N)) : bool :=
  existsb (fun y => N.eqb (fst x) (fst y) && N.eqb (snd x) (snd y)) l.

Definition set_pool (s : sys) (p : wpool) : sys :=
  mksys (mkpe p (pe_next (s_env s)) (pe_create (s_env s))) (s_vms s) (s_probes s).
Definition spool (s : sys) : wpool := pe_pool (s_env s).

(* is there a process of u on a VM the pool knows nothing about (no worker, or worker still Unknown)? *)
Definition undiscovered (s : sys) (u : N) : bool :=
  existsb (fun v => memN u (v_procs v) &&
                    match find_w (v_id v) (p_workers (spool s)) with
                    | None => true
                    | Some w => wstate_eqb (w_st w) WUnknown
                    end) (s_vms s).

Definition started_uuids (log : list ev) : list N :=
  flat_map (fun e => match e with EStart _ u true => [u] | _ => [] end) log.

Definition step (c : cfg) (l : label) (s : sys) : option sys :=
  let p := spool s in
  match l with
  | LSched sorted =>
      let res := sched_pass sorted (s_env s) in
      let e' := r_pool res in
      (* A2 (stale locks): the pass starts nothing that still has a process on an instance the pool has not
         discovered yet.  In the code this is fixStaleLocks waiting for StateUnknown workers; it is an
         assumption that its timeout does not expire first. *)
      if existsb (undiscovered s) (started_uuids (r_log res)) then None
      else
        (* A6: an instance created by this pass is a fresh VM without processes *)
        let newvms := map (fun w => mkvm (w_id w) (w_it w) [])
                          (filter (fun w => match find_w (w_id w) (p_workers p) with None => true | Some _ => false end)
                                  (p_workers (pe_pool e'))) in
        Some (mksys e' (s_vms s ++ newvms) (s_probes s))
  | LLands id u ok =>
      match find_w id (p_workers p) with
      | None => None
      | Some w =>
          if negb (memN u (map ru (w_starting w))) then None     (* no start command for u in flight on id *)
          else
            let vms := if ok then set_procs id (fun l => u :: l) (s_vms s) else s_vms s in
            Some (mksys (mkpe (start_lands id u p) (pe_next (s_env s)) (pe_create (s_env s))) vms (s_probes s))
      end
  | LProbeBegin id boot lok broken stale =>
      match find_vm id (s_vms s) with
      | None => None
      | Some v =>
          (* the listing is the truth about the VM at this moment *)
          let r := mkpr boot lok (v_procs v) broken stale in
          if existsb (fun x => N.eqb (pb_id (fst x)) id) (s_probes s) then None   (* wkr.probing: one at a time *)
          else match probe_begin id p with
               | (None, p') => Some (set_pool s p')
               | (Some pb, p') =>
                   Some (mksys (mkpe p' (pe_next (s_env s)) (pe_create (s_env s))) (s_vms s) ((pb, r) :: s_probes s))
               end
      end
  | LProbeEnd id =>
      match filter (fun x => N.eqb (pb_id (fst x)) id) (s_probes s) with
      | [] => None
      | (pb, r) :: _ =>
          let p' := probe_end c pb r p in
          let rest := filter (fun x => negb (N.eqb (pb_id (fst x)) id)) (s_probes s) in
          (* A3: an instance that is given up (boot timeout) without ever having been discovered runs no
             crunch-run process the pool does not know *)
          let bad :=
            match find_w id (p_workers p), find_w id (p_workers p'), find_vm id (s_vms s) with
            | Some w, Some w', Some v =>
                wstate_eqb (w_st w) WUnknown && wstate_eqb (w_st w') WShutdown &&
                negb (forallb (fun u => memN u (wbook w')) (v_procs v))
            | _, _, _ => false
            end in
          if bad then None
          else Some (mksys (mkpe p' (pe_next (s_env s)) (pe_create (s_env s))) (s_vms s) rest)
      end
  | LProcExit id u => Some (mksys (s_env s) (set_procs id (remove_one u) (s_vms s)) (s_probes s))
  | LKill u => Some (set_pool s (snd (pool_kill u p)))
  | LKillDelivered id u =>
      (* a successful kill means the process is gone *)
      Some (mksys (mkpe (kill_delivered id u p) (pe_next (s_env s)) (pe_create (s_env s)))
                  (set_procs id (fun l => filter (fun x => negb (N.eqb x u)) l) (s_vms s)) (s_probes s))
  | LGiveUp id u => Some (set_pool s (give_up c id u p))
  | LForget u => Some (set_pool s (pool_forget u p))
  | LSetIB id b => Some (set_pool s (pool_set_ib c id b p))
  | LShutdownType it ch => Some (set_pool s (snd (pool_shutdown it ch p)))
  | LSweep => Some (set_pool s (pool_sweep c p))
  | LPoolSync tags =>
      (* A4: the cloud listing is complete: every existing VM is listed *)
      let listed := map (fun vt => (v_id (fst vt), v_it (fst vt), snd vt)) (combine (s_vms s) (tags ++ repeat IRun (List.length (s_vms s)))) in
      Some (set_pool s (pool_sync c listed p))
  | LVMGone id =>
      (* A1: when an instance is gone its processes are gone (and commands to it fail) *)
      Some (mksys (s_env s) (filter (fun v => negb (N.eqb (v_id v) id)) (s_vms s)) (s_probes s))
  | LRestart =>
      (* A5: probes and start commands of the old dispatcher die with it *)
      Some (mksys (mkpe (empty_pool (p_clock p)) (pe_next (s_env s)) (pe_create (s_env s))) (s_vms s) [])
  end.

Fixpoint run (c : cfg) (ls : list label) (s : sys) : option sys :=
  match ls with
  | [] => Some s
  | l :: r => match step c l s with Some s' => run c r s' | None => None end
  end.

Definition init_sys (create : list N) : sys := mksys (mkpe (empty_pool 0) 1 create) [] [].

(* all live processes and all start commands in flight, as a list of uuids *)
Definition all_procs (s : sys) : list N :=
  flat_map v_procs (s_vms s) ++ flat_map (fun w => map ru (w_starting w)) (p_workers (spool s)).
