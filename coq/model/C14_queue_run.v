(* C14 — evaluator for the queue stage: container.Queue.Update with a local Lock/Unlock/Cancel (or a change
   by somebody else) arriving before, during or after the poll, against a fake API server. *)
From Coq Require Import List ZArith Bool NArith.
From AV Require Import model.C16_runq model.C14_queue.
Import ListNotations.
Local Open Scope Z_scope.

Record case := mkqc {
  c_db : list dbent;        (* the API server's records when Update starts *)
  c_cur : cache;            (* Queue.current before (as shown by Entries()) *)
  c_k : nat;                (* where the operation arrives: 0 before, 1-3 during query k, 4 after *)
  c_op : lop;
  o_cur : cache             (* Entries() afterwards *)
}.

Fixpoint ins_kv (x : N * (cstate * Z)) (l : cache) : cache :=
  match l with [] => [x] | y :: r => if (fst x <=? fst y)%N then x :: l else y :: ins_kv x r end.
Definition sort_c (l : cache) : cache := fold_right ins_kv [] l.
Definition kv_eqb (a b : N * (cstate * Z)) : bool :=
  N.eqb (fst a) (fst b) && cstate_eqb (fst (snd a)) (fst (snd b)) && Z.eqb (snd (snd a)) (snd (snd b)).
Fixpoint list_eqb {A} (f : A -> A -> bool) (a b : list A) : bool :=
  match a, b with [], [] => true | x :: r, y :: s => f x y && list_eqb f r s | _, _ => false end.

Definition model_b (c : case) : bool :=
  list_eqb kv_eqb (sort_c (o_cur c)) (sort_c (snd (update_with (c_k c) (c_op c) (c_db c) (c_cur c)))).

(* don't clobber: a successful local Lock/Unlock/Cancel of a cached container that arrives while the first or
   second query of the poll is outstanding determines the cache entry after Update, whatever the poll returned *)
Definition spec_b (c : case) : bool :=
  match c_k c, snd (api (c_op c) (c_db c)) with
  | 1%nat, Some (u, v) | 2%nat, Some (u, v) =>
      match clook u (c_cur c) with
      | Some _ => match clook u (o_cur c) with Some v' => kv_eqb (u, v) (u, v') | None => false end
      | None => true
      end
  | _, _ => true
  end.

Definition check_case (c : case) : N :=
  ((if model_b c then 0 else 1) + (if spec_b c then 0 else 2))%N.
Fixpoint failing_from (i : N) (cs : list case) : list (N * N) :=
  match cs with
  | [] => []
  | c :: r => let k := check_case c in
              if N.eqb k 0 then failing_from (N.succ i) r else (i, k) :: failing_from (N.succ i) r
  end.
Definition failing (cs : list case) : list (N * N) := failing_from 0%N cs.

Definition St (n : N) : cstate := match n with 0 => Queued | 1 => Locked | 2 => Running | 3 => Complete | 4 => Cancelled | _ => OtherState end%N.
Definition D (u st : N) (p : Z) (mine : bool) : dbent := mkdb u (St st) p mine.
Definition C (u st : N) (p : Z) : N * (cstate * Z) := (u, (St st, p)).
