(* C06 (c'') - what an Azure blob volume contributes to an index response.
   Executable model of services/keepstore/azure_blob_volume.go AzureBlobVolume.IndexTo and its retry helper listBlobs:
   the container is listed page by page; each page is requested up to ListBlobsMaxAttempts times - an answer
   "503 ServerBusy" (VolumeBusyError) is retried, any other error is returned at once, and when every attempt was
   answered "busy" the last error is returned; IndexTo writes the lines of the pages it got and returns the first
   error, so handleIndex (model/C06_model.v handle_index) leaves out the terminating blank line.
   Definitions only; proofs are in proofs/C06_azure_proofs.v. *)
From Coq Require Import List Arith Bool String.
From AV Require Import lib.Str model.C06_model.
Import ListNotations.

Inductive att := ABusy | AFail | AOk.   (* how the service answers one list request *)
(* a page of the listing: the answers to the successive requests for it, and the index entries of its blobs
   (`name+size`, mtime) that count (32 hex digits, not trashed) *)
Record apage := { p_atts : list att; p_entries : list (string * string) }.
Definition AP (atts : list att) (es : list (string * string)) : apage := {| p_atts := atts; p_entries := es |}.

(* listBlobs: does the page arrive within n attempts? *)
Fixpoint page_arrives (n : nat) (atts : list att) : bool :=
  match n, atts with
  | S k, ABusy :: r => page_arrives k r
  | S _, AOk :: _ => true
  | _, _ => false
  end.

(* IndexTo: (entries written, returned nil?) *)
Fixpoint az_index (maxatt : nat) (pages : list apage) : list (string * string) * bool :=
  match pages with
  | [] => ([], true)
  | p :: r => if page_arrives maxatt (p_atts p)
              then let '(es, ok) := az_index maxatt r in (p_entries p ++ es, ok)%list
              else ([], false)
  end.

Definition az_vol (maxatt : nat) (pages : list apage) : vol_out :=
  {| v_text := render_lines (fst (az_index maxatt pages)); v_ok := snd (az_index maxatt pages) |}.
Definition az_response (maxatt : nat) (pages : list apage) : string := handle_index [az_vol maxatt pages].
