(* C18: federated collection fetch.  Executable model of
     sdk/go/arvados/collection.go, PortableDataHash           -> pdh_scan, pdh_text, pdh
     lib/controller/federation/conn.go, rewriteManifest       -> rw, rewrite_manifest
     lib/controller/federation/conn.go, CollectionGet and tryLocalThenRemotes -> collection_get_pdh, collection_get_uuid
     lib/controller/fed_collections.go, rewriteSignatures     -> legacy_rewrite, with
     sdk/go/arvados/blob_signature.go, SignedLocatorRe        -> signed_parse
   Definitions only.

   The two regular-expression passes of the new code work on the space-separated tokens of the whole
   text (a newline is an ordinary character for them).  They are transcribed as left-to-right scanners
   whose state is reset at every space.  PortableDataHash: a space-led token that begins with 32
   lowercase hex digits, a plus sign and at least one decimal digit is cut down to that prefix
   (hash+size), every other token is hashed as it is.  rewriteManifest: inside a space-led token that
   begins with 32 lowercase hex digits and a plus sign, every occurrence of plus-A is replaced by
   plus-R-clusterid-dash (strings.Replace, non-overlapping, left to right). *)
From Coq Require Import NArith List Ascii String Bool.
From AV Require Import lib.Str lib.Md5 lib.TokSplit lib.ManifestTok.
Import ListNotations.
Local Open Scope string_scope.

(* n characters of [0-9a-f] followed by "+" *)
Fixpoint lhex_plus (n : nat) (s : string) : bool :=
  match s with
  | EmptyString => false
  | String c r => match n with O => Ascii.eqb c plus | S n' => is_lhex c && lhex_plus n' r end
  end.
Definition loc_prefix (s : string) : bool := lhex_plus 32 s.
Definition blk_prefix (s : string) : bool :=
  loc_prefix s && match drop 33 s with String c _ => is_digit c | EmptyString => false end.

(* ---------- PortableDataHash ---------- *)
Inductive pst := PNorm | PHead (n : nat) | PDigits | PSkip.
Fixpoint pdh_scan (st : pst) (s : string) : string :=
  match s with
  | EmptyString => EmptyString
  | String c r =>
    if Ascii.eqb c sp then String c (pdh_scan (if blk_prefix r then PHead 32 else PNorm) r)
    else match st with
         | PNorm => String c (pdh_scan PNorm r)
         | PHead (S n) => String c (pdh_scan (PHead n) r)       (* the 32 hash characters *)
         | PHead O => String c (pdh_scan PDigits r)             (* the "+" *)
         | PDigits => if is_digit c then String c (pdh_scan PDigits r) else pdh_scan PSkip r
         | PSkip => pdh_scan PSkip r
         end
  end.
Definition pdh_text (m : string) : string := pdh_scan PNorm m.
Definition pdh (m : string) : string := let t := pdh_text m in md5hex t ++ "+" ++ dec (N.of_nat (String.length t)).

(* ---------- rewriteManifest ---------- *)
Inductive rst := ROut | RLoc | RPlus.
Fixpoint rw (r : string) (st : rst) (s : string) : string :=
  match s with
  | EmptyString => EmptyString
  | String c s' =>
    if Ascii.eqb c sp then String c (rw r (if loc_prefix s' then RLoc else ROut) s')
    else match st with
         | ROut => String c (rw r ROut s')
         | RLoc => String c (rw r (if Ascii.eqb c plus then RPlus else RLoc) s')
         | RPlus => if Ascii.eqb c "A" then "R" ++ r ++ "-" ++ rw r RLoc s'
                    else String c (rw r (if Ascii.eqb c plus then RPlus else RLoc) s')
         end
  end.
Definition rewrite_manifest (m r : string) : string := rw r ROut m.

(* the same change on a parsed manifest: only hints beginning with "A" are touched *)
Definition rw_hint (r h : string) : string :=
  match h with String c t => if Ascii.eqb c "A" then "R" ++ r ++ "-" ++ t else h | EmptyString => h end.
Definition rw_loc (r : string) (l : mloc) : mloc :=
  {| l_hash := l_hash l; l_size := l_size l; l_hints := map (rw_hint r) (l_hints l) |}.
Definition rw_stream (r : string) (s : mstream) : mstream :=
  {| s_name := s_name s; s_locs := map (rw_loc r) (s_locs s); s_files := s_files s |}.
(* what PortableDataHash hashes, on a parsed manifest: all hints dropped *)
Definition strip_loc (l : mloc) : mloc := {| l_hash := l_hash l; l_size := l_size l; l_hints := [] |}.
Definition strip_stream (s : mstream) : mstream :=
  {| s_name := s_name s; s_locs := map strip_loc (s_locs s); s_files := s_files s |}.

(* ---------- CollectionGet ---------- *)
Inductive answer := ACol (m : string) | AErr (code : N) | AHang.
Inductive result := ROk (m : string) | RErr (code : N).

(* options.UUID is hash+size or hash+size+hints: pdh == UUID || HasPrefix(UUID, pdh+"+") *)
Definition accept (req m : string) : bool := let p := pdh m in (p =? req) || has_prefix (p ++ "+") req.

(* an answer together with the verdict of the hash check *)
Inductive janswer := JCol (m : string) (ok : bool) | JErr (code : N) | JHang.
Definition judge (req : string) (a : answer) : janswer :=
  match a with ACol m => JCol m (accept req m) | AErr c => JErr c | AHang => JHang end.

(* the closure passed to tryLocalThenRemotes, for one backend ("" = local) *)
Definition try1 (remote : string) (a : janswer) : result :=
  match a with
  | JCol m true => ROk (if remote =? "" then m else rewrite_manifest m remote)
  | JCol m false => RErr 502
  | JErr c => RErr c
  | JHang => RErr 500          (* returns only once the context is cancelled: an error without HTTP status *)
  end.
(* answers of the remotes in the order in which they complete *)
Fixpoint first_ok (arr : list (string * janswer)) (all404 : bool) : result :=
  match arr with
  | [] => if all404 then RErr 404 else RErr 502
  | (r, a) :: rest =>
    match try1 r a with
    | ROk m => ROk m
    | RErr c => first_ok rest (all404 && N.eqb c 404)
    end
  end.
Definition collection_get_j (fwd : string) (local : janswer) (arrivals : list (string * janswer)) : result :=
  match try1 "" local with
  | ROk m => ROk m
  | RErr c => if negb (N.eqb c 404) || negb (fwd =? "") then RErr c else first_ok arrivals true
  end.
Definition collection_get_pdh (req fwd : string) (local : answer) (arrivals : list (string * answer)) : result :=
  collection_get_j fwd (judge req local) (map (fun ra => (fst ra, judge req (snd ra))) arrivals).
(* does the request reach the remotes at all *)
Definition remotes_asked (fwd : string) (local : janswer) : bool :=
  match try1 "" local with ROk _ => false | RErr c => N.eqb c 404 && (fwd =? "") end.

(* fetch by UUID: chooseBackend(uuid) answers; the manifest is rewritten whenever the prefix is not the
   local cluster id (also when the prefix is unknown and the local backend answered) *)
Definition collection_get_uuid (local_id uuid : string) (a : answer) : result :=
  match a with
  | ACol m => ROk (if take 5 uuid =? local_id then m else rewrite_manifest m (take 5 uuid))
  | AErr c => RErr c
  | AHang => RErr 500
  end.
Definition uuid_backend (local_id : string) (remotes : list string) (uuid : string) : string :=
  let p := take 5 uuid in
  if p =? local_id then "" else if existsb (String.eqb p) remotes then p else "".

(* ---------- legacy path: rewriteSignatures ---------- *)
(* bufio.ScanLines: pieces between newlines, one trailing CR dropped, no empty final piece *)
Definition cr : ascii := "013"%char.
Fixpoint drop_cr (s : string) : string :=
  match s with
  | EmptyString => EmptyString
  | String c EmptyString => if Ascii.eqb c cr then EmptyString else s
  | String c r => String c (drop_cr r)
  end.
Fixpoint drop_last_empty (l : list string) : list string :=
  match l with
  | [] => []
  | [x] => match x with EmptyString => [] | _ => [x] end
  | x :: r => x :: drop_last_empty r
  end.
Definition scan_lines (m : string) : list string := map drop_cr (drop_last_empty (split_on nl m)).

(* SignedLocatorRe on a token: Some (m1, m2, m3, m5[2:], m8) *)
Definition is_bz_hint (h : string) : bool :=
  match h with String c r => is_upper c && negb (Ascii.eqb c "A") && all_chars is_hintchar r | EmptyString => false end.
Definition is_sig_hint (h : string) : bool :=
  match h with
  | String c r =>
    Ascii.eqb c "A" && Nat.eqb (String.length r) 49 && all_chars is_xdigit (take 40 r) &&
    String.eqb (take 1 (drop 40 r)) "@" && all_chars is_xdigit (drop 41 r)
  | EmptyString => false
  end.
Definition is_digits (s : string) : bool := nonempty s && all_chars is_digit s.
Fixpoint concat_plus (l : list string) : string :=
  match l with [] => EmptyString | h :: r => String plus h ++ concat_plus r end.
(* hints = before ++ [sig] ++ after with before/after made of B-Z hints *)
Fixpoint split_sig (hs : list string) : option (list string * string * list string) :=
  match hs with
  | [] => None
  | h :: r =>
    if is_sig_hint h then (if forallb is_bz_hint r then Some ([], h, r) else None)
    else if is_bz_hint h then
      match split_sig r with Some (b, s, a) => Some (h :: b, s, a) | None => None end
    else None
  end.
Definition signed_parse (t : string) : option (string * string * string * string * string) :=
  match split_on plus t with
  | h :: rest =>
    if Nat.eqb (String.length h) 32 && all_chars is_xdigit h then
      let (m2, hints) := match rest with
                         | z :: hs => if is_digits z then (String plus z, hs) else (EmptyString, rest)
                         | [] => (EmptyString, rest)
                         end in
      match split_sig hints with
      | Some (b, s, a) => Some (h, m2, concat_plus b, drop 1 s, concat_plus a)
      | None => None
      end
    else None
  | [] => None
  end.

(* one token after the first of a line: (text written to the new manifest, text written to the hasher) *)
Definition legacy_token (cluster t : string) : string * string :=
  match signed_parse t with
  | Some (m1, m2, m3, sig, m8) => (m1 ++ m2 ++ m3 ++ "+R" ++ cluster ++ "-" ++ sig ++ m8, m1 ++ m2)
  | None => (t, t)
  end.
Fixpoint legacy_tokens (cluster : string) (ts : list string) : string * string :=
  match ts with
  | [] => (EmptyString, EmptyString)
  | t :: r => let (o, h) := legacy_token cluster t in let (o', h') := legacy_tokens cluster r in
              (String sp o ++ o', String sp h ++ h')
  end.
(* None = "Invalid stream (<3 tokens)" *)
Fixpoint legacy_lines (cluster : string) (ls : list string) : option (string * string) :=
  match ls with
  | [] => Some (EmptyString, EmptyString)
  | l :: r =>
    match split_on sp l with
    | t0 :: ((_ :: _ :: _) as ts) =>
      let (o, h) := legacy_tokens cluster ts in
      match legacy_lines cluster r with
      | Some (o', h') => Some (t0 ++ o ++ String nl o', t0 ++ h ++ String nl h')
      | None => None
      end
    | _ => None
    end
  end.
Inductive lresult := LOk (m : string) | LErr.
(* expect = hash from the request path ("" for a fetch by uuid); col_pdh = portable_data_hash of the record *)
Definition legacy_rewrite (cluster expect col_pdh manifest : string) : lresult :=
  match legacy_lines cluster (scan_lines manifest) with
  | None => LErr
  | Some (out, hashed) =>
    let expect' := if expect =? "" then col_pdh else expect in
    if negb (expect' =? col_pdh) then LErr
    else if (md5hex hashed ++ "+" ++ dec (N.of_nat (String.length hashed))) =? expect' then LOk out
    else LErr
  end.

(* locators the legacy path can verify: no hints at all, or the shape SignedLocatorRe accepts; and no CR,
   which its line scanner would strip *)
Definition legacy_hints (hs : list string) : bool :=
  match hs with [] => true | _ => match split_sig hs with Some _ => true | None => false end end.
Definition no_cr (s : string) : bool := negb (has_char cr s).
Definition legacy_stream (s : mstream) : bool :=
  forallb (fun l => legacy_hints (l_hints l)) (s_locs s) && no_cr (s_name s) && forallb no_cr (s_files s).

