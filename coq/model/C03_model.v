(* C03 — Keep client reads.  Executable model of
     sdk/go/keepclient/hashcheck.go     HashCheckingReader.Read / WriteTo / Close
     sdk/go/keepclient/keepclient.go    getOrHead (GET), Get, ReadAt
     sdk/go/keepclient/block_cache.go   BlockCache.Get / ReadAt
     sdk/go/arvados/fs_collection.go    storedSegment.ReadAt (+ a sequential file reader over segments)
   and of the net/http transport rule (trusted base): a response that declares Content-Length n gives the
   client exactly the first n bytes of what the server sends, or an unexpected-EOF error when the server
   sends fewer; a response without a declared length gives everything the server sent, followed by EOF, or
   by unexpected EOF when the connection was cut.
   The digest is a parameter [H] (hex md5 in the implementation).  Definitions only.
   This is the model of the code AFTER fix F25 (the reader returned by Get counts the bytes it delivers); the
   reader before the fix survives in model/C03_old_model.v as a regression witness. *)
From Coq Require Import Arith NArith List Ascii String Bool.
From AV Require Import lib.Str.
Import ListNotations.
Local Open Scope string_scope.
Local Open Scope list_scope.
Local Open Scope nat_scope.

Definition slen (s : string) : nat := String.length s.

(* ------------------------------------------------------------------ transport *)
Inductive term := TEOF | TUEOF | TSIZE.               (* how the body stream ends: EOF, unexpected EOF, or the
                                                         size check of the reader returned by Get (finding F25) *)
Record stream := { s_bytes : string; s_term : term }.

(* what a Keep service does with one request *)
Inductive response :=
| Resp (status : N) (declared : option nat) (body : string) (cut : bool)
| ConnErr.

Definition transport (declared : option nat) (body : string) (cut : bool) : stream :=
  match declared with
  | Some n => if n <=? slen body then {| s_bytes := take n body; s_term := TEOF |}
              else {| s_bytes := body; s_term := TUEOF |}
  | None => {| s_bytes := body; s_term := if cut then TUEOF else TEOF |}
  end.

(* keepclient.go/hashcheck.go sizeCheckingReader (fix F25): the body handed to the HashCheckingReader passes through
   at most [n] bytes; it ends in ErrBlockSizeMismatch instead of io.EOF when the body ends early, and as soon as
   the body turns out to be longer than [n].  (With a declared Content-Length = n this changes nothing: net/http
   already delivers exactly n bytes or an unexpected EOF.) *)
Definition sized (n : nat) (st : stream) : stream :=
  if n <? slen (s_bytes st) then {| s_bytes := take n (s_bytes st); s_term := TSIZE |}
  else if slen (s_bytes st) <? n then
    {| s_bytes := s_bytes st; s_term := match s_term st with TEOF => TSIZE | t => t end |}
  else st.

Inductive err :=
| ENil | EEOF | EBadChecksum | EUEOF                  (* nil, io.EOF, BadChecksum, io.ErrUnexpectedEOF *)
| ENotFound | ETemp | EPerm                           (* BlockNotFound, ErrNotFound{temporary}, ErrNotFound{permanent} *)
| ESizeMismatch | ENoSize                             (* the two fmt.Errorf results of getOrHead *)
| EBadSize                                            (* ErrBlockSizeMismatch: the body did not have the expected size *)
| EOther.

Definition err_eqb (a b : err) : bool :=
  match a, b with
  | ENil, ENil | EEOF, EEOF | EBadChecksum, EBadChecksum | EUEOF, EUEOF | ENotFound, ENotFound | ETemp, ETemp
  | EPerm, EPerm | ESizeMismatch, ESizeMismatch | ENoSize, ENoSize | EBadSize, EBadSize | EOther, EOther => true
  | _, _ => false
  end.

(* ------------------------------------------------------------------ locators *)
Definition is_digit (c : ascii) : bool := let n := N_of_ascii c in ((48 <=? n) && (n <=? 57))%N.
Fixpoint all_digits (s : string) : bool :=
  match s with EmptyString => true | String c r => is_digit c && all_digits r end.
Fixpoint dec_val (s : string) (acc : nat) : nat :=
  match s with EmptyString => acc | String c r => dec_val r (10 * acc + (N.to_nat (N_of_ascii c) - 48)) end.
(* up to the first "+" / after it *)
Fixpoint before_plus (s : string) : string :=
  match s with EmptyString => EmptyString | String c r => if Ascii.eqb c "+"%char then EmptyString else String c (before_plus r) end.
Fixpoint after_plus (s : string) : option string :=
  match s with EmptyString => None | String c r => if Ascii.eqb c "+"%char then Some r else after_plus r end.
(* strings.SplitN(locator, "+", 3)[1] parsed with strconv.ParseInt: a non-negative decimal numeral
   (signs, empty fields and other hints give "no size hint") *)
Definition size_hint (loc : string) : option nat :=
  match after_plus loc with
  | None => None
  | Some r => let f := before_plus r in
              if (0 <? slen f) && all_digits f then Some (dec_val f 0) else None
  end.
Definition loc_hash (loc : string) : string := take 32 loc.     (* locator[0:32] *)
Fixpoint prefixb (p s : string) : bool :=
  match p, s with
  | EmptyString, _ => true
  | String a p', String b s' => Ascii.eqb a b && prefixb p' s'
  | _, _ => false
  end.
Definition empty_block_loc (loc : string) : bool := prefixb "d41d8cd98f00b204e9800998ecf8427e+0" loc.

Section C03.
Variable H : string -> string.               (* fmt.Sprintf("%x", md5.Sum(b)) *)

Definition hash_ok (check b : string) : bool := String.eqb (H b) check.

(* ------------------------------------------------------------------ hashcheck.go *)
(* A HashCheckingReader over a body stream; h_pos bytes have been read (and hashed) so far.  The
   underlying body reader hands out data with a nil error until it is exhausted and then reports how the
   stream ended. *)
Record hcr := { h_st : stream; h_pos : nat; h_check : string }.

(* Read(p) with len(p) = n *)
Definition hcr_read (r : hcr) (n : nat) : string * err * hcr :=
  let b := s_bytes (h_st r) in
  if h_pos r <? slen b then
    let k := Nat.min n (slen b - h_pos r) in
    (take k (drop (h_pos r) b), ENil, {| h_st := h_st r; h_pos := h_pos r + k; h_check := h_check r |})
  else
    (EmptyString,
     match s_term (h_st r) with
     | TUEOF => EUEOF
     | TSIZE => EBadSize
     | TEOF => if hash_ok (h_check r) b then EEOF else EBadChecksum
     end, r).

(* read until an error: everything that was left, and the error that ended it (io.ReadAll turns EEOF into nil) *)
Definition hcr_read_all (r : hcr) : string * err :=
  let b := s_bytes (h_st r) in
  (drop (h_pos r) b,
   match s_term (h_st r) with TUEOF => EUEOF | TSIZE => EBadSize | TEOF => if hash_ok (h_check r) b then EEOF else EBadChecksum end).

(* io.ReadFull(rdr, buf) with len(buf) = n, on a fresh reader *)
Definition hcr_read_full (r : hcr) (n : nat) : string * err * hcr :=
  let b := drop (h_pos r) (s_bytes (h_st r)) in
  if n <=? slen b then (take n b, ENil, {| h_st := h_st r; h_pos := h_pos r + n; h_check := h_check r |})
  else (b,
        match s_term (h_st r) with
        | TUEOF => EUEOF
        | TSIZE => EBadSize
        | TEOF => if hash_ok (h_check r) (s_bytes (h_st r)) then (if slen b =? 0 then EEOF else EUEOF) else EBadChecksum
        end,
        {| h_st := h_st r; h_pos := slen (s_bytes (h_st r)); h_check := h_check r |}).

(* WriteTo(dest): bytes written to dest, error *)
Definition hcr_write_to (r : hcr) : string * err :=
  let b := s_bytes (h_st r) in
  (drop (h_pos r) b,
   match s_term (h_st r) with TUEOF => EUEOF | TSIZE => EBadSize | TEOF => if hash_ok (h_check r) b then ENil else EBadChecksum end).

(* Close(): drains the rest into the hash, then compares *)
Definition hcr_close (r : hcr) : err :=
  match s_term (h_st r) with
  | TUEOF => EUEOF | TSIZE => EBadSize
  | TEOF => if hash_ok (h_check r) (s_bytes (h_st r)) then ENil else EBadChecksum
  end.

(* ------------------------------------------------------------------ keepclient.go: getOrHead("GET") *)
Definition retry_status (c : N) : bool := ((c =? 408) || (c =? 429) || (500 <=? c))%N.

Inductive gres :=
| GOk (srv round : nat) (size : nat) (st : stream)     (* reader over st, expected size, answering service *)
| GEmpty                                               (* the empty-block short cut: no request at all *)
| GErr (e : err).

Record gout := { g_res : gres; g_log : list (nat * nat) (* requests: service, round *) }.

Section Get.
Variable oracle : nat -> nat -> response.     (* service -> attempt of this call -> behaviour *)

(* for _, host := range serversToTry { ... } : Some = return from getOrHead, None = loop finished *)
Fixpoint try_servers (servers : list nat) (round : nat) (expect : option nat) (c404 : nat) (retry : list nat)
         (log : list (nat * nat)) : option gres * nat * list nat * list (nat * nat) :=
  match servers with
  | [] => (None, c404, retry, log)
  | x :: rest =>
    let log' := log ++ [(x, round)] in
    match oracle x round with
    | ConnErr => try_servers rest round expect c404 (retry ++ [x]) log'
    | Resp st declared body cut =>
      if negb (st =? 200)%N then
        if retry_status st then try_servers rest round expect c404 (retry ++ [x]) log'
        else if (st =? 404)%N then try_servers rest round expect (S c404) retry log'
        else try_servers rest round expect c404 retry log'
      else
        match expect, declared with
        | None, None => (Some (GErr ENoSize), c404, retry, log')
        | None, Some n => (Some (GOk x round n (sized n (transport declared body cut))), c404, retry, log')
        | Some e, Some n => if e =? n then (Some (GOk x round e (sized e (transport declared body cut))), c404, retry, log')
                            else (Some (GErr ESizeMismatch), c404, retry, log')
        | Some e, None => (Some (GOk x round e (sized e (transport declared body cut))), c404, retry, log')
        end
    end
  end.

(* for triesRemaining > 0 { ...; serversToTry = retryList } *)
Fixpoint get_rounds (tries round : nat) (servers : list nat) (nservers : nat) (expect : option nat) (c404 : nat)
         (log : list (nat * nat)) : gout :=
  match tries with
  | 0 => {| g_res := GErr (if c404 =? nservers then ENotFound else match servers with [] => EPerm | _ => ETemp end);
            g_log := log |}
  | S t =>
    match try_servers servers round expect c404 [] log with
    | (Some r, _, _, log') => {| g_res := r; g_log := log' |}
    | (None, c404', retry, log') => get_rounds t (S round) retry nservers expect c404' log'
    end
  end.

Definition get_or_head (retries : nat) (order : list nat) (loc : string) : gout :=
  if empty_block_loc loc then {| g_res := GEmpty; g_log := [] |}
  else get_rounds (S retries) 0 order (List.length order) (size_hint loc) 0 [].
End Get.

(* ------------------------------------------------------------------ block_cache.go *)
Inductive entry := EData (d : string) | EErr (e : err).

(* the body of the fetch goroutine: Get, ReadFull of exactly the expected size, Close *)
Definition fetch_entry (loc : string) (g : gres) : entry :=
  match g with
  | GErr e => EErr e
  | GEmpty => EData EmptyString
  | GOk _ _ size st =>
    let r := {| h_st := st; h_pos := 0; h_check := loc_hash loc |} in
    let '(d, e, r') := hcr_read_full r size in
    let e2 := hcr_close r' in
    match e, e2 with
    | ENil, ENil => EData d
    | ENil, _ => EErr e2
    | _, _ => EErr e
    end
  end.

Definition cache := list (string * entry).    (* c.cache: key = locator[:32] *)
Fixpoint lookup (c : cache) (k : string) : option entry :=
  match c with [] => None | (k', e) :: r => if String.eqb k' k then Some e else lookup r k end.
Definition store (c : cache) (k : string) (e : entry) : cache :=
  (k, e) :: filter (fun p => negb (String.eqb (fst p) k)) c.

(* BlockCache.ReadAt on an entry *)
Definition entry_read_at (e : entry) (n off : nat) : string * err :=
  match e with
  | EErr x => (EmptyString, x)
  | EData d => if slen d <? off then (EmptyString, EUEOF) else (take n (drop off d), ENil)
  end.

(* ------------------------------------------------------------------ fs_collection.go: storedSegment.ReadAt *)
Record segment := { sg_loc : string; sg_offset : nat; sg_length : nat }.

(* [rd n off] = se.kc.ReadAt(se.locator, p[:n], off) *)
Definition seg_read_at (rd : nat -> nat -> string * err) (se : segment) (n off : nat) : string * err :=
  if sg_length se <? off then (EmptyString, EEOF)
  else let maxlen := sg_length se - off in
       if maxlen <? n then
         let '(b, e) := rd maxlen (off + sg_offset se) in
         (b, match e with ENil => EEOF | _ => e end)
       else rd n (off + sg_offset se).
End C03.
