(* Collection filesystem, background writes and saving: sdk/go/arvados/fs_collection.go
   pruneMemSegments (called from filenode.Write), commitBlock (async and sync), dirnode.flush,
   collectionFileSystem.Flush, marshalManifest, loadManifest/createFileAndParents, manifestEscape.

   Keep writes are explicit: a PutB call becomes a pending record when it *starts* (its data and
   outcome are fixed then); it *completes* at a later event chosen by the schedule, and only then
   is its result installed after the re-validation the Go code performs (index in range, same
   segment object, same flushing token, same length).  Object identity of *memSegment values is
   modelled by unique tokens.  Definitions only. *)
From Coq Require Import List Arith Ascii String Bool NArith.
From AV Require Import lib.Str lib.Path model.CFS_file model.CFS_tree model.CFS_inst.
Import ListNotations.
Local Open Scope string_scope.
Local Open Scope list_scope.
Local Open Scope nat_scope.

Arguments IFile {I} f.
Arguments IDir {I} ents.

(* outcome of a Keep write, as the fake Keep of the harness decides it: by failure mode and data *)
Definition put_fails (mode : nat) (data : list byte) : bool :=
  match mode with
  | 0 => false
  | 1 => true
  | 2 => Nat.even (list_sum data)
  | _ => Nat.odd (List.length data)
  end.

Record pref := { r_file : nat; r_idx : nat; r_tok : nat; r_boff : nat }.
Record pend := { q_id : nat; q_refs : list pref; q_data : list byte; q_ok : bool; q_prune : bool }.

Section BG.
Variable mb : nat.
Notation C := (Conc mb).

Record bst := {
  fsys : fs C;
  pends : list pend;                (* Keep writes in flight *)
  ntok : nat;                       (* next fresh token *)
  nput : nat;                       (* number of PutB calls started *)
  blocks : list (list byte);        (* data of every block successfully written (block id = position) *)
  mode : nat                        (* current failure mode of the fake Keep *)
}.

Definition with_fs (st : bst) (s : fs C) : bst :=
  {| fsys := s; pends := pends st; ntok := ntok st; nput := nput st; blocks := blocks st; mode := mode st |}.

Definition tok_pending (ps : list pend) (t : nat) : bool :=
  existsb (fun q => existsb (fun r => Nat.eqb (r_tok r) t) (q_refs q)) ps.

(* ---- pruneMemSegments: start a background write for every full memSegment that has no token ---- *)
Fixpoint prune_segs (fid idx : nat) (l : list seg) (st : bst) : list seg * bst :=
  match l with
  | [] => ([], st)
  | Mem b None :: r =>
      if mb <=? List.length b then
        let t := ntok st in
        let q := {| q_id := nput st; q_refs := [{| r_file := fid; r_idx := idx; r_tok := t; r_boff := 0 |}];
                    q_data := b; q_ok := negb (put_fails (mode st) b); q_prune := true |} in
        let st1 := {| fsys := fsys st; pends := pends st ++ [q]; ntok := S t; nput := S (nput st);
                      blocks := blocks st; mode := mode st |} in
        let '(r', st2) := prune_segs fid (S idx) r st1 in (Mem b (Some t) :: r', st2)
      else let '(r', st2) := prune_segs fid (S idx) r st in (Mem b None :: r', st2)
  | s :: r => let '(r', st2) := prune_segs fid (S idx) r st in (s :: r', st2)
  end.
Definition prune (fid : nat) (fn : fnode) (st : bst) : fnode * bst :=
  let '(l, st') := prune_segs fid 0 (segs fn) st in
  ({| segs := l; size := size fn; repacked := repacked fn |}, st').

(* ---- filenode.Write with the pruneMemSegments call inside the loop ---- *)
Definition prune_due (fn : fnode) (p : ptr) : bool :=
  Nat.eqb (soff p) 0 && Nat.ltb 0 (idx p) && (mb <=? slen (nthseg (segs fn) (idx p - 1))).

Fixpoint bwrite_loop (fuel : nat) (fid : nat) (fn : fnode) (p : ptr) (data : list byte) (st : bst) : fnode * ptr * bst :=
  match fuel, data with
  | _, [] => (fn, p, st)
  | O, _ => (fn, p, st)
  | S fuel', _ =>
      let '(fn1, p1, n) := write_step mb fn p data in
      let '(fn2, st2) := if prune_due fn1 p1 then prune fid fn1 st else (fn1, st) in
      bwrite_loop fuel' fid fn2 p1 (skipn n data) st2
  end.
Definition bfn_write (fid : nat) (fn : fnode) (p0 : ptr) (data : list byte) (st : bst) : fnode * ptr * bst :=
  let fn1 := if size fn <? off p0 then fn_truncate mb fn (off p0) else fn in
  let p := seek fn1 p0 in
  bwrite_loop (List.length data + List.length (segs fn1) + 1) fid fn1 p data st.

(* filehandle.Write *)
Definition b_write (st : bst) (h : nat) (data : list byte) : bst * res nat :=
  let s := fsys st in
  match get_handle C s h with
  | None => (st, Err EOther)
  | Some x =>
    if negb (h_w C x) then (st, Err EReadOnly) else
    match i_node C (get_ino C s (h_ino C x)) with
    | IDir _ => (with_fs st (set_handle C s h (with_ptr C x c_pzero)), Err EInvalidOp)
    | IFile f =>
        let p := if h_append C x then c_peof f else h_ptr C x in
        let '(f', p', st') := bfn_write (h_ino C x) f p data st in
        (with_fs st' (set_handle C (set_file C s (h_ino C x) f') h (with_ptr C x p')), Ok (List.length data))
    end
  end.

(* ---- completion of a background write ---- *)
Definition set_seg (fn : fnode) (i : nat) (s : seg) : fnode :=
  {| segs := set_nth (segs fn) i s; size := size fn; repacked := repacked fn |}.

(* install one reference of a finished block, after re-validation *)
Definition install_ref (q : pend) (loc : nat) (s : fs C) (r : pref) : fs C :=
  match i_node C (get_ino C s (r_file r)) with
  | IDir _ => s
  | IFile fn =>
      if List.length (segs fn) <=? r_idx r then s else
      match nthseg (segs fn) (r_idx r) with
      | Mem b (Some t) =>
          if Nat.eqb t (r_tok r) && (negb (q_prune q) || Nat.eqb (List.length b) (List.length (q_data q)))
          then set_file C s (r_file r) (set_seg fn (r_idx r) (Sto b loc (List.length (q_data q)) (r_boff r)))
          else s
      | _ => s
      end
  end.

Fixpoint take_pend (ps : list pend) (id : nat) : option (pend * list pend) :=
  match ps with
  | [] => None
  | q :: r => if Nat.eqb (q_id q) id then Some (q, r)
              else match take_pend r id with Some (x, r') => Some (x, q :: r') | None => None end
  end.

Definition complete (st : bst) (id : nat) : bst :=
  match take_pend (pends st) id with
  | None => st
  | Some (q, rest) =>
      if q_ok q then
        let loc := List.length (blocks st) in
        {| fsys := fold_left (install_ref q loc) (q_refs q) (fsys st); pends := rest; ntok := ntok st; nput := nput st;
           blocks := blocks st ++ [q_data q]; mode := mode st |}
      else {| fsys := fsys st; pends := rest; ntok := ntok st; nput := nput st; blocks := blocks st; mode := mode st |}
  end.

(* ---- commitBlock ---- *)
Definition file_segs (s : fs C) (fid : nat) : list seg :=
  match i_node C (get_ino C s fid) with IFile fn => segs fn | IDir _ => [] end.
Definition seg_at (s : fs C) (fid i : nat) : seg :=
  match i_node C (get_ino C s fid) with IFile fn => nthseg (segs fn) i | IDir _ => Mem [] None end.
Definition set_seg_at (s : fs C) (fid i : nat) (x : seg) : fs C :=
  match i_node C (get_ino C s fid) with IFile fn => set_file C s fid (set_seg fn i x) | IDir _ => s end.

(* async: give every referenced memSegment a fresh token, unless one of them is still being flushed
   (then the whole commit is abandoned; tokens handed out so far stay behind as finished ones).
   Returns the updated state and the list of (ref, data) pairs, or None if abandoned. *)
Fixpoint assign_tokens (sync : bool) (refs : list (nat * nat)) (st : bst) (boff : nat) (acc : list pref)
  : bst * option (list pref * nat) :=
  match refs with
  | [] => (st, Some (rev acc, boff))
  | (fid, i) :: r =>
      if negb (i <? List.length (file_segs (fsys st) fid)) then (st, None) else   (* refs always name existing segments *)
      match seg_at (fsys st) fid i with
      | Mem b tok =>
          let busy := match tok with Some t => tok_pending (pends st) t | None => false end in
          if negb sync && busy then (st, None)
          else
            let t := ntok st in
            let st1 := {| fsys := set_seg_at (fsys st) fid i (Mem b (Some t)); pends := pends st; ntok := S t;
                          nput := nput st; blocks := blocks st; mode := mode st |} in
            assign_tokens sync r st1 (boff + List.length b)
                          ({| r_file := fid; r_idx := i; r_tok := t; r_boff := boff |} :: acc)
      | Sto _ _ _ _ => (st, None)   (* not reachable: refs only name memSegments *)
      end
  end.

Definition refs_data (s : fs C) (refs : list (nat * nat)) : list byte :=
  flat_map (fun r => sbytes (seg_at s (fst r) (snd r))) refs.

(* commitBlock(refs, sync=false): start one Keep write for the concatenated data *)
Definition commit_async (st : bst) (refs : list (nat * nat)) : bst :=
  match refs with
  | [] => st
  | _ =>
    let data := refs_data (fsys st) refs in
    match assign_tokens false refs st 0 [] with
    | (st1, None) => st1
    | (st1, Some (prs, _)) =>
        let q := {| q_id := nput st1; q_refs := prs; q_data := data; q_ok := negb (put_fails (mode st1) data); q_prune := false |} in
        {| fsys := fsys st1; pends := pends st1 ++ [q]; ntok := ntok st1; nput := S (nput st1); blocks := blocks st1; mode := mode st1 |}
    end
  end.

(* commitBlock(refs, sync=true): write now; on success every referenced segment becomes stored *)
Definition install_sync (loc bsz : nat) (s : fs C) (r : pref) : fs C :=
  match seg_at s (r_file r) (r_idx r) with
  | Mem b _ => set_seg_at s (r_file r) (r_idx r) (Sto b loc bsz (r_boff r))
  | Sto _ _ _ _ => s
  end.
Definition commit_sync (st : bst) (refs : list (nat * nat)) : bst * bool :=
  match refs with
  | [] => (st, true)
  | _ =>
    let data := refs_data (fsys st) refs in
    match assign_tokens true refs st 0 [] with
    | (st1, None) => (st1, false)
    | (st1, Some (prs, _)) =>
        if put_fails (mode st1) data
        then ({| fsys := fsys st1; pends := pends st1; ntok := ntok st1; nput := S (nput st1); blocks := blocks st1; mode := mode st1 |}, false)
        else let loc := List.length (blocks st1) in
             ({| fsys := fold_left (install_sync loc (List.length data)) prs (fsys st1); pends := pends st1; ntok := ntok st1;
                 nput := S (nput st1); blocks := blocks st1 ++ [data]; mode := mode st1 |}, true)
    end
  end.

(* ---- dirnode.flush ---- *)
(* the segments of one file: commit big memSegments alone, pack small ones (also across files of the
   same directory) into blocks of at most maxBlockSize.  State threaded: pending refs and their length. *)
Fixpoint flush_segs (sync : bool) (fid i : nat) (l : list seg) (st : bst) (ok : bool) (pending : list (nat * nat)) (plen : nat)
  : bst * bool * list (nat * nat) * nat :=
  match l with
  | [] => (st, ok, pending, plen)
  | Sto _ _ _ _ :: r => flush_segs sync fid (S i) r st ok pending plen
  | Mem b _ :: r =>
      let n := List.length b in
      if mb / 2 <? n then
        let '(st1, ok1) := if sync then commit_sync st [(fid, i)] else (commit_async st [(fid, i)], true) in
        flush_segs sync fid (S i) r st1 (ok && ok1) pending plen
      else if mb <? plen + n then
        let '(st1, ok1) := if sync then commit_sync st pending else (commit_async st pending, true) in
        flush_segs sync fid (S i) r st1 (ok && ok1) [(fid, i)] n
      else flush_segs sync fid (S i) r st ok (pending ++ [(fid, i)]) (plen + n)
  end.


(* flush(names) of directory d; recursive=true descends into sub-directories (fuel: table size) *)
Fixpoint flush_dir (fuel : nat) (sync short recursive : bool) (st : bst) (d : nat) : bst * bool :=
  match fuel with
  | O => (st, true)
  | S fuel' =>
    let ents := dir_ents C (fsys st) d in
    let step (acc : bst * bool * list (nat * nat) * nat) (e : string * nat) :=
        let '(st0, ok0, pending, plen) := acc in
        if is_dir C (fsys st0) (snd e) then
          if recursive then
            let '(st1, ok1) := flush_dir fuel' sync short true st0 (snd e) in (st1, ok0 && ok1, pending, plen)
          else acc
        else flush_segs sync (snd e) 0 (file_segs (fsys st0) (snd e)) st0 ok0 pending plen in
    let '(st1, ok1, pending, plen) := fold_left step ents (st, true, [], 0) in
    if short then
      let '(st2, ok2) := if sync then commit_sync st1 pending else (commit_async st1 pending, true) in (st2, ok1 && ok2)
    else (st1, ok1)
  end.

(* collectionFileSystem.Flush(path, shortBlocks) *)
Definition b_flush (st : bst) (path : string) (short : bool) : bst * res unit :=
  match rlookup C (fsys st) path with
  | Err e => (st, Err e)
  | Ok d =>
      if negb (is_dir C (fsys st) d) then (st, Err ENotDir) else
      let '(st1, _) := flush_dir (List.length (inodes C (fsys st))) false short (String.eqb path "") st d in
      (st1, Ok tt)
  end.

(* ---- manifest text ---- *)
Definition oct3 (n : N) : string :=
  String (ascii_of_N (48 + (n / 64) mod 8)) (String (ascii_of_N (48 + (n / 8) mod 8)) (String (ascii_of_N (48 + n mod 8)) "")).
(* manifestEscape: bytes <= 040, ':' and '\' become \ooo *)
Fixpoint manifest_escape (s : string) : string :=
  match s with
  | EmptyString => ""
  | String c r =>
      let n := N_of_ascii c in
      if ((n <=? 32) || (n =? 58) || (n =? 92))%N then String "\"%char (oct3 n ++ manifest_escape r)%string
      else String c (manifest_escape r)
  end.

Definition nat_dec (n : nat) : string := dec (N.of_nat n).

(* locator text of a block: looked up by content in the table of digests the harness observed *)
Fixpoint loc_text (tab : list (list byte * string)) (data : list byte) : string :=
  match tab with
  | [] => "UNKNOWN-BLOCK"
  | (d, l) :: r => if (Nat.eqb (List.length d) (List.length data) && forallb (fun p => Nat.eqb (fst p) (snd p)) (combine d data)) then l else loc_text r data
  end.

Record fpart := { fp_name : string; fp_off : nat; fp_len : nat }.

(* the per-directory stream: block list (coalescing a repeated last locator) and file parts
   (merging contiguous parts of one file) *)
Fixpoint stream_segs (tab : list (list byte * string)) (blks : list (list byte)) (name : string) (l : list seg)
   (blocks_acc : list string) (parts : list fpart) (slen_acc : nat) : list string * list fpart * nat :=
  match l with
  | [] => (blocks_acc, parts, slen_acc)
  | Mem _ _ :: r => stream_segs tab blks name r blocks_acc parts slen_acc      (* cannot happen after a sync flush *)
  | Sto b loc bsz boff :: r =>
      let lt := loc_text tab (nth loc blks []) in
      let '(blocks1, slen1) :=
          match rev blocks_acc with
          | last :: _ => if String.eqb last lt then (blocks_acc, slen_acc - bsz) else (blocks_acc ++ [lt], slen_acc)
          | [] => ([lt], slen_acc)
          end in
      let next := {| fp_name := name; fp_off := slen1 + boff; fp_len := List.length b |} in
      let parts1 :=
          match rev parts with
          | prev :: before => if String.eqb (fp_name prev) name && Nat.eqb (fp_off prev + fp_len prev) (fp_off next)
                              then rev before ++ [{| fp_name := name; fp_off := fp_off prev; fp_len := fp_len prev + fp_len next |}]
                              else parts ++ [next]
          | [] => [next]
          end in
      stream_segs tab blks name r blocks1 parts1 (slen1 + bsz)
  end.

Definition part_text (p : fpart) : string :=
  (nat_dec (fp_off p) ++ ":" ++ nat_dec (fp_len p) ++ ":" ++ manifest_escape (fp_name p))%string.

Definition empty_block_loc : string := "d41d8cd98f00b204e9800998ecf8427e+0".

(* marshalManifest(prefix) of directory d, after its files were flushed synchronously *)
Fixpoint marshal_dir (fuel : nat) (tab : list (list byte * string)) (st : bst) (d : nat) (prefix : string) : string :=
  match fuel with
  | O => ""
  | S fuel' =>
    let s := fsys st in
    let ents := dir_ents C s d in
    match ents with
    | [] => if String.eqb prefix "." then ""
            else (manifest_escape prefix ++ " " ++ empty_block_loc ++ " 0:0:\056" ++ String (ascii_of_N 10) "")%string
    | _ =>
      let files := filter (fun e => negb (is_dir C s (snd e))) ents in
      let dirs := filter (fun e => is_dir C s (snd e)) ents in
      let '(blks, parts, _) :=
          fold_left (fun acc e =>
                       let '(bl, ps, sl) := acc in
                       match file_segs s (snd e) with
                       | [] => (bl, ps ++ [{| fp_name := fst e; fp_off := 0; fp_len := 0 |}], sl)
                       | l => stream_segs tab (blocks st) (fst e) l bl ps sl
                       end) files ([], [], 0) in
      let own :=
          match parts with
          | [] => ""
          | _ => (manifest_escape prefix ++ " " ++ join_with " " (match blks with [] => [empty_block_loc] | _ => blks end)
                  ++ " " ++ join_with " " (map part_text parts) ++ String (ascii_of_N 10) "")%string
          end in
      (own ++ String.concat "" (map (fun e => marshal_dir fuel' tab st (snd e) (prefix ++ "/" ++ fst e)%string) dirs))%string
    end
  end.

(* MarshalManifest("."): synchronous flush of every directory's files (shortBlocks), then the text *)
Definition b_marshal (tab : list (list byte * string)) (st : bst) : bst * res string :=
  let fuel := List.length (inodes C (fsys st)) in
  let '(st1, ok) := flush_dir fuel true true true st root_id in
  if ok then (st1, Ok (marshal_dir fuel tab st1 root_id "."))
  else (st1, Err EOther).

(* ---- loadManifest ---- *)
Definition is_octal (c : ascii) : bool := let n := N_of_ascii c in ((48 <=? n) && (n <=? 55))%N.
Definition octv (c : ascii) : N := (N_of_ascii c - 48)%N.
(* manifestUnescape: \\ -> \ ; \ooo -> that byte when it fits in 8 bits; anything else is kept *)
Fixpoint manifest_unescape (s : string) : string :=
  match s with
  | EmptyString => ""
  | String c r =>
      if Ascii.eqb c "\"%char then
        match r with
        | String a (String b (String d r')) =>
            if is_octal a && is_octal b && is_octal d then
              let v := (octv a * 64 + octv b * 8 + octv d)%N in
              if (v <? 256)%N then String (ascii_of_N v) (manifest_unescape r')
              else String c (String a (String b (String d (manifest_unescape r'))))
            else match r with
                 | String e r2 => if Ascii.eqb e "\"%char then String "\"%char (manifest_unescape r2) else String c (manifest_unescape r)
                 | EmptyString => String c ""
                 end
        | String e r2 => if Ascii.eqb e "\"%char then String "\"%char (manifest_unescape r2) else String c (manifest_unescape r)
        | EmptyString => String c ""
        end
      else String c (manifest_unescape r)
  end.

Fixpoint parse_dec_aux (s : string) (acc : nat) : option nat :=
  match s with
  | EmptyString => Some acc
  | String c r => let n := N_of_ascii c in
                  if ((48 <=? n) && (n <=? 57))%N then parse_dec_aux r (acc * 10 + N.to_nat (n - 48)) else None
  end.
Definition parse_dec (s : string) : option nat :=
  match s with EmptyString => None | _ => parse_dec_aux s 0 end.

Fixpoint str_contains (c : ascii) (s : string) : bool :=
  match s with EmptyString => false | String x r => Ascii.eqb x c || str_contains c r end.

(* strings.SplitN(s, sep, 3) for a one-character separator *)
Definition splitn3 (sep : ascii) (s : string) : list string :=
  match split_char sep s with
  | a :: b :: rest => [a; b; join_with (String sep "") rest]
  | l => l
  end.
Definition splitn3_exact (sep : ascii) (s : string) : list string :=
  match split_char sep s with
  | a :: b :: (_ :: _) as rest => [a; b; join_with (String sep "") rest]
  | l => l
  end.

(* a block of the stream as loaded: (block id, data) found by locator text *)
Fixpoint find_block (tab : list (list byte * string)) (i : nat) (loc : string) : option (nat * list byte) :=
  match tab with
  | [] => None
  | (d, l) :: r => if String.eqb l loc then Some (i, d) else find_block r (S i) loc
  end.

Record lseg := { ls_loc : nat; ls_size : nat; ls_data : list byte }.

(* createFileAndParents: walks/creates directories from the root; returns the file inode id,
   or None for a "directory exists" marker (basename ".") *)
Fixpoint mkdirs (s : fs C) (node : nat) (names : list string) : res (fs C * nat) :=
  match names with
  | [] => Ok (s, node)
  | name :: r =>
      if String.eqb name "" || String.eqb name "." then mkdirs s node r
      else if String.eqb name ".." then
        if Nat.eqb node root_id then Err EInvalidArg else mkdirs s (parent_of C s node) r
      else match i_node C (get_ino C s node) with
           | IFile _ => Err ENotDir
           | IDir ents =>
               match ents_find ents name with
               | Some c => if is_dir C s c then mkdirs s c r else Err EExist
               | None =>
                   let '(s1, id) := add_ino C s {| i_node := IDir []; i_parent := node |} in
                   mkdirs (set_ents C s1 node (ents_put (dir_ents C s1 node) name id)) id r
               end
           end
  end.

Definition create_file_and_parents (s : fs C) (path : string) : res (fs C * option nat) :=
  let names := split_slash path in
  let base := last names "" in
  match mkdirs s root_id (removelast names) with
  | Err e => Err e
  | Ok (s1, node) =>
      if String.eqb base "." then Ok (s1, None)
      else if special_name base then Err EInvalidArg
      else match i_node C (get_ino C s1 node) with
           | IFile _ => Err ENotDir
           | IDir ents =>
               match ents_find ents base with
               | Some c => if is_dir C s1 c then Err EIsDir else Ok (s1, Some c)
               | None =>
                   let '(s2, id) := add_ino C s1 {| i_node := IFile (I := C) f_new; i_parent := node |} in
                   Ok (set_ents C s2 node (ents_put (dir_ents C s2 node) base id), Some id)
               end
           end
  end.

Definition append_seg (fn : fnode) (x : seg) : fnode :=
  {| segs := segs fn ++ [x]; size := size fn + slen x; repacked := repacked fn |}.

(* map the range [offset, offset+length) of the stream onto blocks, continuing from the cursor
   (segIdx, pos) left by the previous token when possible.  Returns the new cursor and the
   segments to append, or None if the range extends past the stream. *)
Fixpoint map_range (fuel : nat) (blks : list lseg) (segIdx pos offset length : nat) (acc : list seg)
  : option (nat * nat * list seg) :=
  match fuel with
  | O => Some (segIdx, pos, acc)
  | S fuel' =>
    match nth_error blks segIdx with
    | None => if pos <? offset + length then None else Some (segIdx, pos, acc)
    | Some b =>
        let next := pos + ls_size b in
        if (next <=? offset) || Nat.eqb (ls_size b) 0 then map_range fuel' blks (S segIdx) next offset length acc
        else if Nat.eqb length 0 || (offset + length <=? pos) then Some (segIdx, pos, acc)
        else
          let blkOff := if pos <? offset then offset - pos else 0 in
          let blkLen0 := ls_size b - blkOff in
          let blkLen := if offset + length <? pos + blkOff + blkLen0 then offset + length - pos - blkOff else blkLen0 in
          let sg := Sto (firstn blkLen (skipn blkOff (ls_data b))) (ls_loc b) (ls_size b) blkOff in
          if offset + length <? next then Some (segIdx, pos, acc ++ [sg])
          else map_range fuel' blks (S segIdx) next offset length (acc ++ [sg])
    end
  end.

Inductive ltok := TBlock (b : lseg) | TFile (off len : nat) (name : string) | TBad.

Definition classify (tab : list (list byte * string)) (token : string) : ltok :=
  if negb (str_contains ":"%char token) then
    match splitn3 "+"%char token with
    | _ :: sz :: _ =>
        match parse_dec sz, find_block tab 0 token with
        | Some n, Some (i, d) => TBlock {| ls_loc := i; ls_size := n; ls_data := d |}
        | Some 0, None => TBlock {| ls_loc := 0; ls_size := 0; ls_data := [] |}   (* an empty block needs no data *)
        | _, _ => TBad
        end
    | _ => TBad
    end
  else
    match splitn3_exact ":"%char token with
    | [a; b; nm] => match parse_dec a, parse_dec b with
                    | Some o, Some l => TFile o l nm
                    | _, _ => TBad
                    end
    | _ => TBad
    end.

(* one stream (manifest line) *)
Fixpoint load_tokens (tab : list (list byte * string)) (dirname : string) (toks : list string) (s : fs C)
   (blks : list lseg) (anyfile : bool) (segIdx pos : nat) : res (fs C * bool * nat) :=
  match toks with
  | [] => Ok (s, anyfile, List.length blks)
  | t :: r =>
      match classify tab t with
      | TBad => Err EOther
      | TBlock b => if anyfile then Err EOther else load_tokens tab dirname r s (blks ++ [b]) anyfile segIdx pos
      | TFile offset length nm =>
          match blks with
          | [] => Err EOther
          | _ =>
            let name := (dirname ++ "/" ++ manifest_unescape nm)%string in
            match create_file_and_parents s name with
            | Err e => Err EOther
            | Ok (s1, None) => if Nat.eqb length 0 then load_tokens tab dirname r s1 blks true segIdx pos else Err EOther
            | Ok (s1, Some fid) =>
                let '(si, p0) := if offset <? pos then (0, 0) else (segIdx, pos) in
                match map_range (S (List.length blks)) blks si p0 offset length [] with
                | None => Err EOther
                | Some (si', p', sgs) =>
                    match i_node C (get_ino C s1 fid) with
                    | IFile fn => load_tokens tab dirname r (set_file C s1 fid (fold_left append_seg sgs fn)) blks true si' p'
                    | IDir _ => Err EOther
                    end
                end
            end
          end
      end
  end.

Fixpoint load_streams (tab : list (list byte * string)) (streams : list string) (s : fs C) : res (fs C) :=
  match streams with
  | [] => Ok s
  | st :: r =>
      match split_char " "%char st with
      | [] => Err EOther
      | d :: toks =>
          let dirname := manifest_unescape d in
          match load_tokens tab dirname toks s [] false 0 0 with
          | Err e => Err e
          | Ok (s1, anyfile, nblk) =>
              if negb anyfile || Nat.eqb nblk 0 || String.eqb dirname "" then Err EOther else load_streams tab r s1
          end
      end
  end.

Definition b_load (tab : list (list byte * string)) (txt : string) : res (fs C) :=
  let streams := split_char (ascii_of_N 10) txt in
  if negb (String.eqb (last streams "x") "") then Err EOther
  else load_streams tab (removelast streams) (fs_init C).

End BG.
