(* C08 — evaluator for generated histories.  A case is an operation sequence run against a real
   collection filesystem (empty collection, given maxBlockSize) with the observations it made.
   model_b: the implementation model (tree layer over segment lists) predicts exactly these
   observations; spec_b: the plain byte-array filesystem predicts exactly these observations. *)
From Coq Require Import NArith List Arith String Bool.
From AV Require Import lib.Str lib.Path model.CFS_file model.CFS_tree model.CFS_inst.
Import ListNotations.

Record case := { c_mb : nat; c_ops : list op; c_obs : list obs }.

Definition B (hexs : string) : list byte := map N.to_nat (unhex hexs).

Definition err_eqb (a b : err) : bool :=
  match a, b with
  | ENotExist, ENotExist | EExist, EExist | ENotDir, ENotDir | EIsDir, EIsDir | ENotEmpty, ENotEmpty
  | EInvalidArg, EInvalidArg | EInvalidOp, EInvalidOp | EReadOnly, EReadOnly | EWriteOnly, EWriteOnly
  | ENegOffset, ENegOffset | ESyncFlag, ESyncFlag | EOther, EOther => true
  | _, _ => false
  end.
Fixpoint list_eqb {A} (eq : A -> A -> bool) (a b : list A) : bool :=
  match a, b with
  | [], [] => true
  | x :: a', y :: b' => eq x y && list_eqb eq a' b'
  | _, _ => false
  end.
Definition ent_eqb (a b : string * (bool * nat)) : bool :=
  String.eqb (fst a) (fst b) && Bool.eqb (fst (snd a)) (fst (snd b)) && Nat.eqb (snd (snd a)) (snd (snd b)).
Definition obs_eqb (a b : obs) : bool :=
  match a, b with
  | VErr x, VErr y => err_eqb x y
  | VUnit, VUnit => true
  | VNat x, VNat y => Nat.eqb x y
  | VData d e, VData d' e' => list_eqb Nat.eqb d d' && Bool.eqb e e'
  | VInfo d n, VInfo d' n' => Bool.eqb d d' && Nat.eqb n n'
  | VList l, VList l' => list_eqb ent_eqb l l'
  | _, _ => false
  end.

Definition model_b (c : case) : bool :=
  list_eqb obs_eqb (run (Conc (c_mb c)) (fs_init (Conc (c_mb c))) (c_ops c)) (c_obs c).
Definition spec_b (c : case) : bool :=
  list_eqb obs_eqb (run Spec (fs_init Spec) (c_ops c)) (c_obs c).

Definition check_case (c : case) : N :=
  ((if model_b c then 0 else 1) + (if spec_b c then 0 else 2))%N.
Fixpoint failing_from (i : N) (cs : list case) : list (N * N) :=
  match cs with
  | [] => []
  | c :: r => let k := check_case c in
              if N.eqb k 0 then failing_from (N.succ i) r else (i, k) :: failing_from (N.succ i) r
  end.
Definition failing (cs : list case) : list (N * N) := failing_from 0%N cs.

(* first index at which a run disagrees with the observations (debugging aid for replay files) *)
Fixpoint first_diff (i : nat) (a b : list obs) : option (nat * option obs * option obs) :=
  match a, b with
  | [], [] => None
  | x :: a', y :: b' => if obs_eqb x y then first_diff (S i) a' b' else Some (i, Some x, Some y)
  | x :: _, [] => Some (i, Some x, None)
  | [], y :: _ => Some (i, None, Some y)
  end.
Definition FL (acc : nat) (cr ex tr ap sy : bool) : oflags :=
  {| o_acc := acc; o_create := cr; o_excl := ex; o_trunc := tr; o_append := ap; o_sync := sy |}.
