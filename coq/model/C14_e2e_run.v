(* C14 / C15 — evaluator for the end-to-end stage: the event log recorded around the real dispatcher
   (scheduler + worker pool over loopback SSH against test.StubDriver, queue = test.Queue) is judged by a
   boolean specification; proofs/C14_e2e.v shows it equivalent to the Prop-level statement.  There is no
   model of the run itself (this stage is exploration, labelled so in the evidence): model_b = true. *)
From Coq Require Import List ZArith Bool NArith.
Import ListNotations.
Local Open Scope Z_scope.

Inductive xev :=
| XStartBegin (t : Z) (vm u : N) (vm_booting : bool)  (* "crunch-run --detach" arrived at a VM (before it is executed) *)
| XStartEnd (t : Z) (vm u : N) (ok : bool)            (* ... and returned *)
| XList (t : Z) (vm : N) (live : list N)              (* a successful "crunch-run --list": uuids not marked stale *)
| XKilled (t : Z) (vm u : N)                          (* "crunch-run --kill" returned 0: no such process (any more) *)
| XCloud (t : Z) (vms : list N)                       (* a cloud listing returned to the dispatcher *)
| XLock (t : Z) (u : N)                               (* queue.Lock / Unlock / Cancel by the dispatcher succeeded *)
| XUnlock (t : Z) (u : N)
| XCancel (t : Z) (u : N)
| XExtCancel (t : Z) (u : N)                          (* cancelled by somebody else (the harness) *)
| XInst (t : Z) (vm st ib : N)                        (* pool.Instances() sample: state 0-4, idle behavior 0 run/1 hold/2 drain *)
| XRestart (t : Z)                                    (* dispatcher stopped and a new one started *)
| XDestroy (t : Z) (vm : N).                          (* the dispatcher asked the cloud to destroy the instance *)

Record jst := mkj {
  j_live : list (N * N);      (* (vm, uuid): crunch-run processes that may be alive *)
  j_infl : list (N * N);      (* start commands in progress *)
  j_locked : list N;          (* containers locked by the dispatcher *)
  j_cancelled : list (N * Z); (* cancelled from outside, when *)
  j_bad : list (N * Z);       (* vm first seen held / draining / shut down, when *)
  j_seen : list N             (* VMs that answered a command of the present dispatcher *)
}.
Definition j0 : jst := mkj [] [] [] [] [] [].

Definition memNN (x : N * N) (l : list (N * N)) : bool := existsb (fun y => N.eqb (fst x) (fst y) && N.eqb (snd x) (snd y)) l.
Definition memN (x : N) (l : list N) : bool := existsb (N.eqb x) l.
Definition delNN (x : N * N) (l : list (N * N)) : list (N * N) :=
  filter (fun y => negb (N.eqb (fst x) (fst y) && N.eqb (snd x) (snd y))) l.
Fixpoint lookZ (x : N) (l : list (N * Z)) : option Z :=
  match l with [] => None | (k, v) :: r => if N.eqb k x then Some v else lookZ x r end.

Definition grace : Z := 1500.   (* ms between a decision of the dispatcher and the arrival of its SSH command *)

Definition step_j (e : xev) (s : jst) : jst :=
  match e with
  | XStartBegin _ vm u _ => mkj (j_live s) ((vm, u) :: j_infl s) (j_locked s) (j_cancelled s) (j_bad s) (vm :: j_seen s)
  | XStartEnd _ vm u ok =>
      mkj (if ok then (vm, u) :: j_live s else j_live s) (delNN (vm, u) (j_infl s)) (j_locked s) (j_cancelled s) (j_bad s) (j_seen s)
  | XList _ vm l =>
      mkj (filter (fun p => negb (N.eqb (fst p) vm) || memN (snd p) l) (j_live s)) (j_infl s) (j_locked s) (j_cancelled s) (j_bad s) (vm :: j_seen s)
  | XKilled _ vm u => mkj (delNN (vm, u) (j_live s)) (j_infl s) (j_locked s) (j_cancelled s) (j_bad s) (j_seen s)
  | XCloud _ vms =>
      mkj (filter (fun p => memN (fst p) vms) (j_live s)) (filter (fun p => memN (fst p) vms) (j_infl s))
          (j_locked s) (j_cancelled s) (j_bad s) (j_seen s)
  | XLock _ u => mkj (j_live s) (j_infl s) (u :: j_locked s) (j_cancelled s) (j_bad s) (j_seen s)
  | XUnlock _ u | XCancel _ u =>
      mkj (j_live s) (j_infl s) (filter (fun x => negb (N.eqb x u)) (j_locked s)) (j_cancelled s) (j_bad s) (j_seen s)
  | XExtCancel t u =>
      mkj (j_live s) (j_infl s) (j_locked s) (match lookZ u (j_cancelled s) with Some _ => j_cancelled s | None => (u, t) :: j_cancelled s end) (j_bad s) (j_seen s)
  | XInst t vm st ib =>
      if (N.eqb st 4 || negb (N.eqb ib 0)) && match lookZ vm (j_bad s) with Some _ => false | None => true end
      then mkj (j_live s) (j_infl s) (j_locked s) (j_cancelled s) ((vm, t) :: j_bad s) (j_seen s)
      else s
  | XRestart _ => mkj (j_live s) (j_infl s) (j_locked s) (j_cancelled s) (j_bad s) []
  | XDestroy _ vm =>
      (* environment assumption of C14: an instance that the present dispatcher gives up without ever having
         got an answer from it runs no crunch-run process *)
      if memN vm (j_seen s) then s
      else mkj (filter (fun p => negb (N.eqb (fst p) vm)) (j_live s)) (j_infl s) (j_locked s) (j_cancelled s) (j_bad s) (j_seen s)
  end.

(* what the property demands when a start command arrives *)
Definition start_ok (s : jst) (t : Z) (vm u : N) (vm_booting : bool) : bool :=
  (* no crunch-run process for this container may be alive anywhere, none is being started *)
  negb (memN u (map snd (j_live s))) && negb (memN u (map snd (j_infl s))) &&
  (* the container is locked by this dispatcher at the moment the start command arrives (priority is fixed
     > 0 in this stage; no tolerance: finding F21 is fixed by /repo dbd540e + c30ecc5) and was not cancelled from outside more than
     [grace] ago *)
  memN u (j_locked s) &&
  match lookZ u (j_cancelled s) with Some tc => t <=? tc + grace | None => true end &&
  (* not on a VM that is still booting, nor on one seen held/draining/shut down more than [grace] ago *)
  negb vm_booting &&
  match lookZ vm (j_bad s) with Some tb => t <=? tb + grace | None => true end.

Fixpoint judge (s : jst) (log : list xev) : bool :=
  match log with
  | [] => true
  | e :: r =>
      match e with XStartBegin t vm u b => start_ok s t vm u b | _ => true end && judge (step_j e s) r
  end.

Definition state_after (pre : list xev) : jst := fold_left (fun s e => step_j e s) pre j0.

(* Prop-level statement: at every start command the conditions hold in the state reached by the events
   before it *)
Definition E2ESpec (log : list xev) : Prop :=
  forall pre t vm u b post, log = pre ++ XStartBegin t vm u b :: post -> start_ok (state_after pre) t vm u b = true.

(* C15: final observation *)
Record case := mke2e {
  x_log : list xev;
  x_final : list (N * N);        (* container, final state code (0 Queued 1 Locked 2 Running 3 Complete 4 Cancelled) *)
  x_instances_left : nat;        (* instances still in the cloud at the deadline *)
  x_live : bool                  (* judge liveness (C15) as well *)
}.

Definition final_ok (c : case) : bool :=
  forallb (fun p => N.eqb (snd p) 3 || N.eqb (snd p) 4) (x_final c) && Nat.eqb (x_instances_left c) 0.

Definition spec_b (c : case) : bool := judge j0 (x_log c) && (negb (x_live c) || final_ok c).
Definition model_b (c : case) : bool := true.

Definition check_case (c : case) : N :=
  ((if model_b c then 0 else 1) + (if spec_b c then 0 else 2))%N.
Fixpoint failing_from (i : N) (cs : list case) : list (N * N) :=
  match cs with
  | [] => []
  | c :: r => let k := check_case c in
              if N.eqb k 0 then failing_from (N.succ i) r else (i, k) :: failing_from (N.succ i) r
  end.
Definition failing (cs : list case) : list (N * N) := failing_from 0%N cs.
