(* C11 — Keep client writes.  Executable model of
     sdk/go/keepclient/discover.go   loadKeepServers  (which services are written to, replicasPerService)
     sdk/go/keepclient/support.go    uploadToKeepServer, putReplicas
     sdk/go/keepclient/keepclient.go PutHR / PutHB / PutB
   Nondeterminism is explicit: [answer srv round] is what service [srv] answers to its attempt in
   round [round] (response oracle), [pick k] decides which outstanding upload completes k-th
   (completion schedule: the goroutine scheduler and the network).  Definitions only. *)
From Coq Require Import Arith NArith List Ascii String Bool.
From AV Require Import lib.Str.
Import ListNotations.
Local Open Scope string_scope.
Local Open Scope nat_scope.

(* ------------------------------------------------------------------ discover.go *)
(* one item of the keep_services/accessible list *)
(* (the uuid is only a map key: items are identified by their index in the list; uuids are assumed distinct) *)
Record ksvc := { k_host : string; k_port : N; k_ssl : bool; k_type : string; k_ro : bool }.

(* fmt.Sprintf("%s://%s:%d", scheme, service.Hostname, service.Port) *)
Definition svc_url (s : ksvc) : string :=
  ((if k_ssl s then "https" else "http") ++ "://" ++ k_host s ++ ":" ++ dec (k_port s))%string.

(* the loop of loadKeepServers: items whose url was already listed are skipped.  Result: the
   surviving items with their index in list.Items. *)
Fixpoint load_from (i : nat) (listed : list string) (l : list ksvc) : list (nat * ksvc) :=
  match l with
  | [] => []
  | s :: r => if existsb (String.eqb (svc_url s)) listed then load_from (S i) listed r
              else (i, s) :: load_from (S i) (svc_url s :: listed) r
  end.
Definition loaded (l : list ksvc) : list (nat * ksvc) := load_from 0 [] l.
(* localRoots / writableLocalRoots as index sets (uuids are assumed distinct: they are map keys) *)
Definition local_ids (l : list ksvc) : list nat := map fst (loaded l).
Definition writable_ids (l : list ksvc) : list nat := map fst (filter (fun p => negb (k_ro (snd p))) (loaded l)).
(* kc.replicasPerService: 1 iff every writable service is of type "disk", else 0 (= unknown) *)
Definition replicas_per_service (l : list ksvc) : nat :=
  if forallb (fun p => k_ro (snd p) || String.eqb (k_type (snd p)) "disk") (loaded l) then 1 else 0.

Definition mem (x : nat) (l : list nat) : bool := existsb (Nat.eqb x) l.

(* sv := NewRootSorter(kc.WritableLocalRoots(), hash).GetSortedRoots().  The rendezvous order of
   *all* local services is an input ([order], property C12); restricting the service set does not
   reorder the rest (C12_remove_stable), so the writer's list is the filtered order. *)
Definition put_order (l : list ksvc) (order : list nat) : list nat := filter (fun i => mem i (writable_ids l)) order.

(* ------------------------------------------------------------------ support.go: uploadToKeepServer *)
(* What the HTTP client returns for one PUT: a response (status, X-Keep-Replicas-Stored if present,
   body) or an error (no response: connection refused, timeout ...). *)
Inductive outcome := Resp (code : N) (hdr : option nat) (body : string) | ConnErr.

Definition is_space (c : ascii) : bool :=
  let n := N_of_ascii c in ((9 <=? n) && (n <=? 13))%N || (n =? 32)%N.
Fixpoint trim_left (s : string) : string :=
  match s with String c r => if is_space c then trim_left r else s | EmptyString => EmptyString end.
Fixpoint trim_right (s : string) : string :=
  match s with
  | EmptyString => EmptyString
  | String c r => match trim_right r with
                  | EmptyString => if is_space c then EmptyString else String c EmptyString
                  | r' => String c r'
                  end
  end.
(* strings.TrimSpace on ASCII bodies *)
Definition trim_space (s : string) : string := trim_right (trim_left s).

(* uploadStatus{statusCode, replicasStored, response} *)
Definition o_code (o : outcome) : N := match o with Resp c _ _ => c | ConnErr => 0%N end.
Definition o_rep (o : outcome) : nat := match o with Resp _ (Some n) _ => n | Resp _ None _ => 1 | ConnErr => 0 end.
Definition o_body (o : outcome) : string := match o with Resp _ _ b => trim_space b | ConnErr => "" end.

Definition is200 (o : outcome) : bool := (o_code o =? 200)%N.
(* replicas credited for an answer: only a 200 counts *)
Definition stored_of (o : outcome) : nat := if is200 o then o_rep o else 0.
(* status.statusCode == 0 || == 408 || == 429 || (>= 500 && != 503) *)
Definition retryable (c : N) : bool :=
  ((c =? 0) || (c =? 408) || (c =? 429) || ((500 <=? c) && negb (c =? 503)))%N.

(* ------------------------------------------------------------------ support.go: putReplicas *)
(* one observable step: the uploads started since the previous completion, then one upload
   (service st_done) returns with answer st_out *)
Record step := { st_round : nat; st_started : list nat; st_done : nat; st_out : outcome }.

Record st := {
  sv : list nat;            (* servers of this round, in order *)
  next : nat;               (* nextServer *)
  active : list nat;        (* uploads in flight (Go keeps only the count) *)
  completed : list nat;     (* ghost: uploads of this round that have returned *)
  done : nat;               (* replicasDone *)
  todo : nat;               (* replicasTodo (Go: int, only ever tested for > 0) *)
  retry : list nat;         (* retryServers *)
  loc : string;             (* locator *)
  pend : list nat;          (* ghost: started since the last completion *)
  steps : list step         (* ghost: the log *)
}.

Inductive result := Ok (l : string) (n : nat) | Insufficient (l : string) (n : nat) | Oversize.

Record run := { r_res : result; r_steps : list step; r_abandoned : list nat }.

Definition remove_nth {A} (i : nat) (l : list A) : list A := firstn i l ++ skipn (S i) l.

Section PR.
Variable rpt : nat.                         (* replicasPerThread *)
Variable answer : nat -> nat -> outcome.    (* service -> round -> answer *)
Variable pick : nat -> nat.                 (* k-th completion: index into the active list *)

(* status := <-uploadStatusChan and the bookkeeping that follows *)
Definition complete (round : nat) (s : st) (i : nat) : st :=
  let srv := nth i (active s) 0 in
  let o := answer srv round in
  {| sv := sv s; next := next s; active := remove_nth i (active s); completed := srv :: completed s;
     done := done s + stored_of o; todo := todo s - stored_of o;
     retry := if retryable (o_code o) then retry s ++ [srv] else retry s;
     loc := if is200 o then o_body o else loc s;
     pend := [];
     steps := steps s ++ [{| st_round := round; st_started := pend s; st_done := srv; st_out := o |}] |}.

(* go kc.uploadToKeepServer(sv[nextServer], ...); nextServer++; active++ *)
Definition start (s : st) : st :=
  let srv := nth (next s) (sv s) 0 in
  {| sv := sv s; next := S (next s); active := active s ++ [srv]; completed := completed s;
     done := done s; todo := todo s; retry := retry s; loc := loc s; pend := pend s ++ [srv]; steps := steps s |}.

(* `for replicasTodo > 0 { for active*replicasPerThread < replicasTodo { start or break }; wait or break }`
   as one step function iterated with fuel (C11_terminates: the fuel given below always suffices) *)
Fixpoint inner (fuel round : nat) (s : st) (k : nat) : st * nat :=
  match fuel with
  | 0 => (s, k)
  | S f =>
    if todo s =? 0 then (s, k)
    else if (List.length (active s) * rpt <? todo s) && (next s <? List.length (sv s)) then inner f round (start s) k
    else match active s with
         | [] => (s, k)
         | _ => inner f round (complete round s (pick k mod List.length (active s))) (S k)
         end
  end.

Definition round_fuel (servers : list nat) : nat := 2 * List.length servers + 1.

(* `for retriesRemaining > 0 { retriesRemaining--; ...; sv = retryServers }` *)
Fixpoint outer (rounds round : nat) (servers : list nat) (dn td : nat) (lc : string) (k : nat) (tr : list step) : run :=
  match rounds with
  | 0 => {| r_res := if td =? 0 then Ok lc dn else Insufficient lc dn; r_steps := tr; r_abandoned := [] |}
  | S r =>
    let s0 := {| sv := servers; next := 0; active := []; completed := []; done := dn; todo := td; retry := [];
                 loc := lc; pend := []; steps := tr |} in
    let '(s, k') := inner (round_fuel servers) round s0 k in
    if todo s =? 0 then {| r_res := Ok (loc s) (done s); r_steps := steps s; r_abandoned := active s |}
    else if r =? 0 then {| r_res := Insufficient (loc s) (done s); r_steps := steps s; r_abandoned := active s |}
    else outer r (S round) (retry s) (done s) (todo s) (loc s) k' (steps s)
  end.

Definition put_replicas_with (want retries : nat) (servers : list nat) : run :=
  outer (S retries) 0 servers 0 want "" 0 [].
End PR.

(* replicasPerThread := kc.replicasPerService; if < 1 then replicasTodo *)
Definition rpt_of (rps want : nat) : nat := if rps <? 1 then want else rps.

Definition put_replicas (rps want retries : nat) (servers : list nat)
           (answer : nat -> nat -> outcome) (pick : nat -> nat) : run :=
  put_replicas_with (rpt_of rps want) answer pick want retries servers.

(* ------------------------------------------------------------------ keepclient.go: PutHR / PutHB / PutB *)
Definition BLOCKSIZE : N := 67108864.

Inductive entry := EPutB | EPutHB | EPutHR.

(* the fake Keep service: a 200 answer carries the locator "<hash of the URL>+<bytes received><suffix>";
   [Resp _ _ sfx] in the oracle holds only the suffix (signature hint, trailing newline ...) *)
Definition issue (hash : string) (size : N) (o : outcome) : outcome :=
  match o with
  | Resp c h sfx => Resp c h (hash ++ "+" ++ dec size ++ sfx)%string
  | ConnErr => ConnErr
  end.

Section Put.
Variable H : string -> string.              (* fmt.Sprintf("%x", md5.Sum(buf)) *)
Variable svcs : list ksvc.
Variable order : list nat.                  (* rendezvous order of the service indices for this hash *)
Variable want retries : nat.
Variable oracle : nat -> nat -> outcome.
Variable pick : nat -> nat.

(* net/http: a request whose body ends early/late w.r.t. ContentLength, or whose body reader fails
   (PutHR wraps the caller's reader in a HashCheckingReader: BadChecksum at EOF), yields an error
   from Do() and no response.  With ContentLength 0 no body is sent at all. *)
Definition body_ok (e : entry) (hash data : string) (nbytes : N) : bool :=
  match e with
  | EPutHR => (nbytes =? N.of_nat (String.length data))%N && ((nbytes =? 0)%N || String.eqb (H data) hash)
  | _ => true
  end.

Definition eff_answer (e : entry) (hash data : string) (nbytes : N) (srv round : nat) : outcome :=
  if body_ok e hash data nbytes then issue hash nbytes (oracle srv round) else ConnErr.

(* hash in the URL and expectedLength, per entry point *)
Definition put_hash (e : entry) (hash data : string) : string := match e with EPutB => H data | _ => hash end.
Definition put_len (e : entry) (data : string) (nbytes : N) : N :=
  match e with EPutHR => nbytes | _ => N.of_nat (String.length data) end.

Definition put (e : entry) (hash data : string) (nbytes : N) : run :=
  let h := put_hash e hash data in
  let n := put_len e data nbytes in
  match e with
  | EPutHR => if (BLOCKSIZE <? nbytes)%N then {| r_res := Oversize; r_steps := []; r_abandoned := [] |}
              else put_replicas (replicas_per_service svcs) want retries (put_order svcs order)
                                (eff_answer e h data n) pick
  | _ => put_replicas (replicas_per_service svcs) want retries (put_order svcs order) (eff_answer e h data n) pick
  end.
End Put.
