(* C17 — model of /repo/lib/crunchrun/copier.go and the specification "the saved output is what the container left in
   its output directory".

   Two name spaces are explicit.
   * HOST: what os.Lstat/Readlink/Open see.  The harness places the output directory at <tmp>/h1/h2/out; the model's
     host tree [c_host] is rooted at <tmp> (whose own parent is not modelled: KUnknown).  The kernel resolves
     intermediate symlinks in THIS name space: relative targets physically, absolute targets against the host root,
     where "/ctr/...", "/mnt/..." do not exist (finding F11).
   * CONTAINER: what link targets mean.  The copier computes in it LEXICALLY (filepath.Join/Clean); the container's
     kernel resolves PHYSICALLY (finding F16 is the difference).  The container view ([clook]) is: the output tree at
     [c_ctr], read-only collections and secrets at their mount points, implicit directories above mount points, nothing
     else.

   walk_mount / walk_mounts_below / walk_host_fs transcribe walkMount / walkMountsBelow / walkHostFS; the symlink
   budget (maxSymlinks+1) is the structural argument of the outer fixpoint, the directory depth that of the inner one.
   [copy_model] = Copy(): walk, load cp.manifest (C10 fs_load), Mkdir, write files, read back as a listing.
   [resolve] = the specification: a walk of the CONTAINER view with kernel semantics.
   Not modelled: writable collection mounts (need the FUSE ".arvados#collection" file) -> Unmodelled; block packing and
   Flush (the listing is compared after reading the saved manifest back). *)
From Coq Require Import NArith List Ascii String Bool.
From AV Require Import lib.Str model.C10_manifest model.C10_ranges model.C10_fs model.C10_gomanifest.
Import ListNotations.
Local Open Scope string_scope.

(* ---------- host tree ---------- *)
Inductive node := File (data : string) | Dir (ents : list (string * node)) | Link (target : string) | Special.
Fixpoint get (ents : list (string * node)) (name : string) : option node :=
  match ents with [] => None | (k, v) :: r => if String.eqb k name then Some v else get r name end.
Fixpoint node_at (n : node) (p : list string) : option node :=
  match p with
  | [] => Some n
  | c :: r => match n with
              | Dir ents => match get ents c with Some m => node_at m r | None => None end
              | _ => None
              end
  end.

Record mount := { m_kind : string; m_text : string; m_path : string; m_writable : bool; m_exclude : bool }.
Record config := {
  c_host : node;                         (* <tmp> *)
  c_hout : list string;                  (* path of hostOutputDir below <tmp>: ["h1"; "h2"; "out"] *)
  c_ctr : string;                        (* ctrOutputDir, e.g. "/ctr/outdir" *)
  c_mounts : list (string * mount);      (* container path -> mount (a Go map: any order) *)
  c_secrets : list string                (* container paths of secret mounts *)
}.

(* ---------- a kernel-style path walk, generic in the name space ---------- *)
Inductive ent := EDir | ELeaf | ELink (t : string).
Inductive kres := KAt (pos : list string) | KErrAt (pos : list string) | KAbs | KUnknown.
(* KAt pos: the path names the entry at pos (last component not followed); KErrAt pos: the lookup failed in the
   directory at pos (ENOENT, ENOTDIR, ELOOP); KAbs: an absolute link target was met in
   a name space that cannot resolve it; KUnknown: the walk left the modelled tree *)
Inductive kstep := KDone (r : kres) | KFollow (pos : list string) (comps : list string).

Definition comps_of (s : string) : list string := split_on c_slash s.
Definition is_abs (s : string) : bool := has_prefix "/" s.
Definition skipc (c : string) : bool := String.eqb c "" || String.eqb c ".".

Section Walk.
  Variable look : list string -> string -> option ent.   (* entry [name] of the directory at [pos] *)
  Variable top_parent : bool.                            (* ".." at the root stays at the root (container) or leaves (host) *)
  Variable abs_ok : bool.                                (* absolute link targets restart at this root *)

  (* structural in comps; a symlink that must be followed is handed back to the caller *)
  Fixpoint kwalk1 (pos : list string) (comps : list string) : kstep :=
    match comps with
    | [] => KDone (KAt pos)
    | c :: rest =>
        if skipc c then kwalk1 pos rest
        else if String.eqb c ".." then
          match pos with
          | [] => if top_parent then kwalk1 [] rest else KDone KUnknown
          | _ => kwalk1 (removelast pos) rest
          end
        else
          match look pos c with
          | None => KDone (KErrAt pos)
          | Some e =>
              match rest with
              | [] => KDone (KAt (pos ++ [c])%list)                            (* last component: not followed *)
              | _ =>
                   (* also "name/" and "name/.": the kernel then wants a directory and follows a link *)
                   match e with
                   | EDir => kwalk1 (pos ++ [c])%list rest
                   | ELeaf => KDone (KErrAt pos)                               (* ENOTDIR *)
                   | ELink t =>
                       if is_abs t then (if abs_ok then KFollow [] (comps_of t ++ rest)%list else KDone KAbs)
                       else KFollow pos (comps_of t ++ rest)%list
                   end
              end
          end
    end.
  (* at most [budget] symlinks are followed (the kernel's limit is 40) *)
  Fixpoint kwalk (budget : nat) (pos : list string) (comps : list string) : kres :=
    match kwalk1 pos comps with
    | KDone r => r
    | KFollow p cs => match budget with O => KErrAt p | S b => kwalk b p cs end
    end.
End Walk.

(* ---------- HOST name space ---------- *)
Definition ent_of (n : node) : ent := match n with Dir _ => EDir | Link t => ELink t | _ => ELeaf end.
Definition hlook (cf : config) (pos : list string) (name : string) : option ent :=
  match node_at (c_host cf) pos with
  | Some (Dir ents) => match get ents name with Some n => Some (ent_of n) | None => None end
  | _ => None
  end.
(* os.Lstat(hostOutputDir + suffix) *)
Inductive lres := LNode (pos : list string) (n : node) | LErr | LAbs | LUnknown.
Definition host_lstat (cf : config) (suffix : string) : lres :=
  match kwalk (hlook cf) false false 40 (c_hout cf) (comps_of suffix) with
  | KAt pos => match node_at (c_host cf) pos with Some n => LNode pos n | None => LErr end
  | KErrAt _ => LErr | KAbs => LAbs | KUnknown => LUnknown
  end.

(* mounts that were copied into the parent mount as regular files at container start (copyRegularFiles) *)
Definition copy_regular (m : mount) : bool :=
  String.eqb (m_kind m) "text" || String.eqb (m_kind m) "json" || (String.eqb (m_kind m) "collection" && m_writable m).
(* in the container view they are ordinary files of the surrounding mount *)
Definition view_mounts (cf : config) : list (string * mount) := filter (fun rm => negb (copy_regular (snd rm))) (c_mounts cf).

(* ---------- CONTAINER name space ---------- *)
Definition abs_comps (s : string) : list string := filter (fun c => negb (String.eqb c "")) (comps_of s).
Fixpoint is_prefix (a b : list string) : bool :=
  match a, b with
  | [], _ => true
  | x :: r, y :: s => String.eqb x y && is_prefix r s
  | _, [] => false
  end.
(* innermost mount or secret at or above [full] *)
Inductive where_ := WSecret | WMount (root : list string) (m : mount) | WNone.
Definition locate (cf : config) (full : list string) : where_ :=
  let best :=
    fold_left (fun acc rm =>
      let r := abs_comps (fst rm) in
      if is_prefix r full then
        match acc with
        | Some (r', _) => if Nat.ltb (List.length r') (List.length r) then Some (r, Some (snd rm)) else acc
        | None => Some (r, Some (snd rm))
        end
      else acc) (view_mounts cf) None in
  let best2 :=
    fold_left (fun acc s =>
      let r := abs_comps s in
      if is_prefix r full then
        match acc with
        | Some (r', _) => if Nat.ltb (List.length r') (List.length r) then Some (r, None) else acc
        | None => Some (r, None)
        end
      else acc) (c_secrets cf) best in
  match best2 with
  | Some (_, None) => WSecret
  | Some (r, Some m) => WMount r m
  | None => WNone
  end.
(* is [full] strictly above some mount point / secret *)
Definition above_mount (cf : config) (full : list string) : bool :=
  existsb (fun r => is_prefix full r && Nat.ltb (List.length full) (List.length r))
          (map (fun rm => abs_comps (fst rm)) (view_mounts cf) ++ map abs_comps (c_secrets cf))%list.

Definition coll_manifest (m : mount) : manifest := match parse_manifest (m_text m) with Some x => x | None => [] end.
(* path of [rel] inside the collection mounted with Path = m_path: "./a/b" *)
Definition coll_path (m : mount) (rel : list string) : string :=
  join "/" ("." :: (abs_comps (m_path m) ++ rel)%list).
Definition coll_is_file (m : mount) (p : string) : bool := mem_str p (file_paths (coll_manifest m)).
Definition coll_is_dir (m : mount) (p : string) : bool := mem_str p (dir_paths (coll_manifest m)).

Definition clook (cf : config) (pos : list string) (name : string) : option ent :=
  let full := (pos ++ [name])%list in
  if above_mount cf full then Some EDir else
  match locate cf full with
  | WSecret => Some ELeaf
  | WNone => None
  | WMount r m =>
      let rel := skipn (List.length r) full in
      if String.eqb (m_kind m) "collection" then
        match rel with
        | [] => Some EDir
        | _ => let p := coll_path m rel in
               if coll_is_dir m p then Some EDir else if coll_is_file m p then Some ELeaf else None
        end
      else if String.eqb (m_kind m) "tmp" && is_prefix (abs_comps (c_ctr cf)) full
              && Nat.eqb (List.length r) (List.length (abs_comps (c_ctr cf))) then
        match rel with
        | [] => Some EDir
        | _ => match node_at (c_host cf) (c_hout cf ++ removelast rel)%list with
               | Some (Dir ents) => match get ents (last rel "") with Some n => Some (ent_of n) | None => None end
               | _ => None
               end
        end
      else match rel with [] => Some EDir | _ => None end     (* other mounts: content unknown to the copier *)
  end.
(* the entry named by an absolute container path, last component not followed *)
Definition cwalk (cf : config) (pos : list string) (target : string) : kres :=
  if is_abs target then kwalk (clook cf) true true 40 [] (comps_of target)
  else kwalk (clook cf) true true 40 pos (comps_of target).

(* ---------- the copier ---------- *)
Record wstate := {
  w_dirs : list string;
  w_files : list (string * string);      (* dst, data *)
  w_manifest : string;
  w_f11 : bool; w_f16 : bool; w_f18 : bool   (* trigger flags of the known findings *)
}.
Inductive status := SOk | SErr | SPanic | SUnmodelled.
Definition wres := (wstate * status)%type.
Definition ok (st : wstate) : wres := (st, SOk).
Definition bind (r : wres) (f : wstate -> wres) : wres := match r with (st, SOk) => f st | _ => r end.

Definition has_prefix_dir (root src : string) : bool := has_prefix (root ++ "/") (src ++ "/").
Definition find_mount (cf : config) (src : string) : option (string * mount) :=
  fold_left (fun acc rm =>
    if has_prefix_dir (fst rm) src then
      match acc with
      | Some (r', _) => if Nat.ltb (String.length r') (String.length (fst rm)) then Some rm else acc
      | None => Some rm
      end
    else acc) (c_mounts cf) None.
Definition under_secret (cf : config) (src : string) (rootlen : nat) : bool :=
  existsb (fun s => Nat.ltb rootlen (String.length s) && has_prefix_dir s src) (c_secrets cf).
(* filepath.Join (non-empty elements joined by "/", then Clean) and filepath.Dir *)
Definition fp_join (elems : list string) : string :=
  match filter (fun e => negb (String.eqb e "")) elems with [] => "" | es => path_clean (join "/" es) end.
Definition fp_dir (p : string) : string :=
  match rev (comps_of p) with
  | [] => "."
  | [_] => "."
  | _ :: r => path_clean (join "/" (rev r) ++ "/")
  end.

Fixpoint insert_name (x : string) (l : list string) : list string :=
  match l with [] => [x] | y :: r => if str_ltb x y then x :: l else y :: insert_name x r end.
Definition sorted_names (ents : list (string * node)) : list string := fold_right insert_name [] (map fst ents).

Definition add_manifest (st : wstate) (t : string) : wstate :=
  {| w_dirs := w_dirs st; w_files := w_files st; w_manifest := w_manifest st ++ t;
     w_f11 := w_f11 st; w_f16 := w_f16 st; w_f18 := w_f18 st |}.
Definition add_dirp (st : wstate) (d : string) : wstate :=
  {| w_dirs := (w_dirs st ++ [d])%list; w_files := w_files st; w_manifest := w_manifest st;
     w_f11 := w_f11 st; w_f16 := w_f16 st; w_f18 := w_f18 st |}.
Definition add_filep (st : wstate) (dst data : string) : wstate :=
  {| w_dirs := w_dirs st; w_files := (w_files st ++ [(dst, data)])%list; w_manifest := w_manifest st;
     w_f11 := w_f11 st; w_f16 := w_f16 st; w_f18 := w_f18 st |}.
Definition set_flags (st : wstate) (a b : bool) : wstate :=
  {| w_dirs := w_dirs st; w_files := w_files st; w_manifest := w_manifest st;
     w_f11 := w_f11 st || a; w_f16 := w_f16 st || b; w_f18 := w_f18 st |}.
Definition set_f18 (st : wstate) : wstate :=
  {| w_dirs := w_dirs st; w_files := w_files st; w_manifest := w_manifest st;
     w_f11 := w_f11 st; w_f16 := w_f16 st; w_f18 := true |}.

(* the part of walkMount that does not recurse into the host walk: mounts other than "tmp" *)
Definition walk_mount_static (cf : config) (st : wstate) (dest src : string) (rm : string * mount) : wres :=
  let '(root, m) := rm in
  let rel := fp_join ["."; m_path m; drop (String.length root) src] in
  if m_exclude m then ok st
  else if negb (String.eqb (m_kind m) "collection") then ((if copy_regular m then set_f18 st else st), SErr)
  else if negb (m_writable m) then
    match gm_extract (m_text m) rel dest with
    | Ok t => ok (add_manifest st t)
    | Err => ok st                               (* Extract's Err is ignored *)
    | Panic => (st, SPanic)
    | Unmodelled => (st, SUnmodelled)
    end
  else (st, SUnmodelled).

(* physical position (container components) of the host position [pos] *)
Definition cpos_of_host (cf : config) (pos : list string) : option (list string) :=
  if is_prefix (c_hout cf) pos then Some (abs_comps (c_ctr cf) ++ skipn (List.length (c_hout cf)) pos)%list else None.
(* finding F16: the copier reasons about the STRING it computed for a link target.  Trigger: that string and the
   physical reading of the target name different entries, or the string passes through a symlink (so that string tests
   such as "is it under a secret mount" look at another path than the one the kernel reaches). *)
Definition kres_eqb (a b : kres) : bool :=
  match a, b with
  | KAt x, KAt y => path_eqb x y
  | KErrAt x, KErrAt y => path_eqb x y
  | KAbs, KAbs => true
  | KUnknown, KUnknown => true
  | _, _ => false
  end.
Definition through_link (cf : config) (lexical : string) : bool :=
  negb (kres_eqb (kwalk (clook cf) true true 0 [] (comps_of lexical)) (kwalk (clook cf) true true 40 [] (comps_of lexical))).
Definition lexical_differs (cf : config) (linkpos : list string) (target lexical : string) : bool :=
  through_link cf lexical ||
  match cpos_of_host cf linkpos with
  | None => true
  | Some cp => negb (kres_eqb (cwalk cf (removelast cp) target) (cwalk cf [] lexical))
  end.

(* nesting depth of the host tree: fuel for directory recursion *)
Fixpoint height (fuel : nat) (n : node) : nat :=
  match fuel with
  | O => O
  | S f => match n with
           | Dir ents => S (fold_left (fun acc e => Nat.max acc (height f (snd e))) ents O)
           | _ => 1
           end
  end.
Definition depth_fuel (cf : config) : nat := height 64 (c_host cf) + 4.

Section Copier.
  Variable cf : config.

  (* walkMountsBelow; [wm] = walkMount(dest', mnt, 0, false) for a mount below src *)
  Definition walk_mounts_below (wm : wstate -> string -> string -> wres) (st : wstate) (dest src : string) : wres :=
    fold_left (fun r rm =>
      bind r (fun st =>
        if has_prefix (src ++ "/") (fst rm) then
          if copy_regular (snd rm) then ok st
          else wm st (dest ++ drop (String.length src) (fst rm)) (fst rm)
        else ok st)) (c_mounts cf) (ok st).

  (* depth = directory nesting fuel; b = maxSymlinks + 1 *)
  Fixpoint walk (b : nat) : nat -> wstate -> string -> string -> bool -> bool -> wres :=
    (* walk b depth st dest src viaMount below:
         viaMount = true  -> walkMount(dest, src, b-1, below)
         viaMount = false -> walkHostFS(dest, src, b-1, below) *)
    fix walkd (depth : nat) (st : wstate) (dest src : string) (via below : bool) {struct depth} : wres :=
      match depth with
      | O => (st, SUnmodelled)
      | S d =>
          let wm_static := fun st dest' mnt =>
            (* walkMount(dest', mnt, 0, false) for a mount below src; a "tmp" mount below another path would walk
               the host with budget 0: not modelled *)
            match find_mount cf mnt with
            | None => (st, SErr)
            | Some rm =>
                if under_secret cf mnt (String.length (fst rm)) then ok st
                else if negb (m_exclude (snd rm)) && String.eqb (m_kind (snd rm)) "tmp"
                     then (st, SUnmodelled)
                     else walk_mount_static cf st dest' mnt rm
            end in
          if via then
            (* ---- walkMount ---- *)
            match find_mount cf src with
            | None => if under_secret cf src O then ok st else (st, SErr)
            | Some rm =>
                if under_secret cf src (String.length (fst rm)) then ok st
                else
                  if negb (m_exclude (snd rm)) && String.eqb (m_kind (snd rm)) "tmp"
                  then walkd d st dest src false below
                  else bind (walk_mount_static cf st dest src rm)
                            (fun st => if below then walk_mounts_below wm_static st dest src else ok st)
            end
          else
            (* ---- walkHostFS ---- *)
            bind (if below then walk_mounts_below wm_static st dest src else ok st) (fun st =>
              (* commit d81649d: only the output directory's own tmp mount is read from the host *)
              if negb (has_prefix_dir (c_ctr cf) src) then (st, SErr)
              else
                let suffix := drop (String.length (c_ctr cf)) src in
                match host_lstat cf suffix with
                | LErr => (st, SErr)
                | LAbs => (set_flags st true false, SErr)
                | LUnknown => (st, SUnmodelled)
                | LNode pos (Link target) =>
                    match b with
                    | O => (st, SErr)                                   (* errTooManySymlinks *)
                    | S b' =>
                        let lexical := if is_abs target then path_clean target else fp_join [fp_dir src; target] in
                        let st := set_flags st false (lexical_differs cf pos target lexical) in
                        walk b' (depth_fuel cf) st dest lexical true true
                    end
                | LNode pos (Dir ents) =>
                    let st := if String.eqb dest "" then st else add_dirp st dest in
                    match sorted_names ents with
                    | [] => ok (if String.eqb dest "" then st else add_filep st (dest ++ "/.keep") "")
                    | names =>
                        fold_left (fun r name =>
                          bind r (fun st =>
                            let dest' := dest ++ "/" ++ name in
                            let src' := src ++ "/" ++ name in
                            if existsb (String.eqb src') (c_secrets cf) then ok st
                            else match assoc_get src' (c_mounts cf) with
                                 | Some m => if copy_regular m then walkd d st dest' src' false false else ok st
                                 | None => walkd d st dest' src' false false
                                 end)) names (ok st)
                    end
                | LNode pos (File data) => ok (add_filep st dest data)
                | LNode pos Special => (st, SErr)
                end)
      end.
End Copier.

Definition empty_state : wstate :=
  {| w_dirs := []; w_files := []; w_manifest := ""; w_f11 := false; w_f16 := false; w_f18 := false |}.
(* cp.walkMount("", cp.ctrOutputDir, limitFollowSymlinks = 10, true) *)
Definition walk_all (cf : config) : wres := walk cf 11 (depth_fuel cf) empty_state "" (c_ctr cf) true true.

(* ---------- Copy(): apply the plan to a collection filesystem, read back ---------- *)
Definition listing := list (string * bool * string).          (* path "./a/b", is directory, bytes *)
Definition dest_comps (d : string) : fpath := abs_comps d.
(* fs.Mkdir: parent must exist as a directory; an existing entry is os.ErrExist (tolerated) *)
Definition parent_ok (t : fstree) (p : fpath) : bool := match removelast p with [] => true | q => is_dir t q end.
Definition do_mkdir (t : fstree) (d : string) : option fstree :=
  let p := dest_comps d in
  if negb (parent_ok t p) then None
  else if is_dir t p || is_file t p then Some t else Some (add_dir t p).
(* contents: manifest files by their segments, written files by their data *)
Record ctree := { ct_tree : fstree; ct_data : list (fpath * string) }.
Fixpoint data_get (p : fpath) (l : list (fpath * string)) : option string :=
  match l with [] => None | (k, v) :: r => if path_eqb k p then Some v else data_get p r end.
Definition do_write (st : store) (c : ctree) (f : string * string) : option ctree :=
  let p := dest_comps (fst f) in
  let t := ct_tree c in
  if negb (parent_ok t p) || is_dir t p then None
  else
    let old := match data_get p (ct_data c) with
               | Some d => d
               | None => segs_bytes st (find_file t p)
               end in
    let new := snd f ++ drop (String.length (snd f)) old in       (* O_WRONLY without O_TRUNC *)
    Some {| ct_tree := add_file t p; ct_data := (p, new) :: ct_data c |}.
Fixpoint fold_opt {A B} (f : A -> B -> option A) (a : A) (l : list B) : option A :=
  match l with [] => Some a | x :: r => match f a x with Some a' => fold_opt f a' r | None => None end end.

Definition sort_listing (l : listing) : listing :=
  let keyed := map (fun e => (fst (fst e), e)) l in
  flat_map (fun k => match assoc_get k keyed with Some e => [e] | None => [] end) (sort_strs (map fst keyed)).
Definition listing_of (st : store) (c : ctree) : listing :=
  let t := ct_tree c in
  sort_listing
    (map (fun d => (path_string d, true, "")) (t_dirs t) ++
     map (fun e => (path_string (fst e), false,
                    match data_get (fst e) (ct_data c) with Some d => d | None => segs_bytes st (snd e) end))
         (t_files t))%list.

Inductive result := ROk (l : listing) | RErr | RPanic | RUnmodelled.
Definition copy_model (cf : config) (st : store) : result * wstate :=
  match walk_all cf with
  | (w, SErr) => (RErr, w)
  | (w, SPanic) => (RPanic, w)
  | (w, SUnmodelled) => (RUnmodelled, w)
  | (w, SOk) =>
      (match fs_load (w_manifest w) with
       | None => RErr
       | Some t =>
           match fold_opt do_mkdir t (w_dirs w) with
           | None => RErr
           | Some t1 =>
               match fold_opt (do_write st) {| ct_tree := t1; ct_data := [] |} (w_files w) with
               | None => RErr
               | Some c => ROk (listing_of st c)
               end
           end
       end, w)
  end.

(* ================================ specification ================================ *)
(* [resolve]: walk the CONTAINER view from the output directory with kernel semantics.
     regular file -> its bytes; directory -> itself and its children (an empty directory of the output tree is kept
     as dir/.keep); symlink -> whatever its target is, resolved physically, at most 11 links deep in one descent
     (the copier's documented limit); content of a mounted collection -> by reference (here: its bytes for the
     store); secret -> omitted; special file, dangling link inside the output tree, link to anything that is not in
     the output tree, a collection or a secret -> failure.  A link to a path that does not exist inside a mounted
     collection is omitted (observed behaviour of Extract, not classified as a defect). *)
Inductive sres := SpecOk (l : listing) | SpecFail | SpecUnknown.
Definition sbind (r : sres) (f : listing -> sres) : sres := match r with SpecOk l => f l | _ => r end.

(* files and directories of the collection subtree at [p] (a path "./x/y" inside the collection), relocated to [dest] *)
Definition coll_subtree (st : store) (m : mount) (p : string) (dest : string) : listing :=
  let mf := coll_manifest m in
  let under := fun q => String.eqb q p || has_prefix (p ++ "/") q in
  let reloc := fun q => "." ++ dest ++ drop (String.length p) q in
  (map (fun q => (reloc q, false, file_bytes st mf q)) (filter under (nodup_str (file_paths mf))) ++
   map (fun q => (reloc q, true, "")) (filter (fun q => under q && negb (String.eqb (reloc q) ".")) (nodup_str (dir_paths mf))))%list.

Definition child_names_at (cf : config) (pos : list string) : list string :=
  let host :=
    match locate cf pos with
    | WMount r m =>
        if String.eqb (m_kind m) "tmp" && Nat.eqb (List.length r) (List.length (abs_comps (c_ctr cf)))
        then match node_at (c_host cf) (c_hout cf ++ skipn (List.length r) pos)%list with
             | Some (Dir ents) => map fst ents
             | _ => []
             end
        else []
    | _ => []
    end in
  let mountpoints :=
    flat_map (fun r => if is_prefix pos r && Nat.ltb (List.length pos) (List.length r)
                       then [nth (List.length pos) r ""] else [])
             (map (fun rm => abs_comps (fst rm)) (view_mounts cf) ++ map abs_comps (c_secrets cf))%list in
  sort_strs (host ++ mountpoints)%list.

Definition self_entry (dest : string) : listing := if String.eqb dest "" then [] else [("." ++ dest, true, "")].
Definition keep_entry (dest : string) : listing :=
  if String.eqb dest "" then [] else [("." ++ dest ++ "/.keep", false, "")].
Definition file_entry (dest data : string) : listing := [("." ++ dest, false, data)].

Section Spec.
  Variable cf : config.
  Variable st : store.
  (* entry at container position pos (components), to be saved at dest ("" = output root) *)
  Fixpoint rwalk (b : nat) : nat -> list string -> string -> sres :=
    fix rwalkd (depth : nat) (pos : list string) (dest : string) {struct depth} : sres :=
      match depth with
      | O => SpecUnknown
      | S d =>
          match locate cf pos with
          | WSecret => SpecOk []
          | WNone => SpecFail
          | WMount r m =>
              let rel := skipn (List.length r) pos in
              if m_exclude m then SpecOk []
              else if String.eqb (m_kind m) "collection" then
                if m_writable m then SpecUnknown
                else SpecOk (coll_subtree st m (coll_path m rel) dest)
              else if String.eqb (m_kind m) "tmp" && Nat.eqb (List.length r) (List.length (abs_comps (c_ctr cf))) then
                match node_at (c_host cf) (c_hout cf ++ rel)%list with
                | None => SpecFail
                | Some (File data) => SpecOk (file_entry dest data)
                | Some Special => SpecFail
                | Some (Link target) =>
                    match b with
                    | O => SpecFail
                    | S b' =>
                        match cwalk cf (removelast pos) target with
                        | KAt pos' => rwalk b' (depth_fuel cf) pos' dest
                        | KErrAt p =>
                            (* dangling: omitted if the missing entry would be inside a collection or a secret *)
                            match locate cf p with
                            | WSecret => SpecOk []
                            | WMount _ m' => if String.eqb (m_kind m') "collection" then SpecOk [] else SpecFail
                            | WNone => SpecFail
                            end
                        | _ => SpecUnknown
                        end
                    end
                | Some (Dir _) =>
                    let self := self_entry dest in
                    match child_names_at cf pos with
                    | [] => SpecOk (self ++ keep_entry dest)%list
                    | names =>
                        fold_left (fun r name => sbind r (fun l =>
                                     match rwalkd d (pos ++ [name])%list (dest ++ "/" ++ name) with
                                     | SpecOk l' => SpecOk (l ++ l')%list
                                     | e => e
                                     end)) names (SpecOk self)
                    end
                end
              else SpecFail                                         (* another mount: nothing the copier can save *)
          end
      end.
End Spec.
(* every ancestor directory of a listed entry is listed too *)
Definition with_parents (l : listing) : listing :=
  let dirs := flat_map (fun e => match dir_prefixes (fst (fst e)) with [] => [] | _ :: ps => ps end) l in
  let have := map (fun e => fst (fst e)) l in
  (l ++ map (fun d => (d, true, "")) (filter (fun d => negb (mem_str d have)) (nodup_str dirs)))%list.
Definition resolve (cf : config) (st : store) : sres :=
  match rwalk cf st 11 (depth_fuel cf) (abs_comps (c_ctr cf)) "" with
  | SpecOk l => SpecOk (sort_listing (with_parents l))
  | e => e
  end.
