(* C16 — evaluator for the container-queue stage: one Queue.Update of the real container.Queue, built with
   the dispatcher's own typeChooser (ChooseInstanceType on a generated instance-type table), against the
   API stub.  [CqSpec] is what the property demands of the queue the scheduler reads ("the instance type
   chosen for a container satisfies every constraint and none cheaper does; an unsatisfiable container gets
   an error, never an arbitrary type"); boolean form [spec_b]; equivalence and "the model meets it for every
   table, database, cache and iteration order" are proved in proofs/C16_cq.v. *)
From Coq Require Import List ZArith Bool NArith String.
From AV Require Import model.C16_model model.C16_run model.C16_runq model.C16_cq.
Import ListNotations.
Local Open Scope Z_scope.

Record case := mkcq {
  ck_types : list itype;          (* cc.InstanceTypes as listed by the harness *)
  ck_reserve : Z;                 (* cc.Containers.ReserveExtraRAM *)
  ck_cons : list (N * ctr);       (* constraints of every container record *)
  ck_db : list dbrec;             (* the API server's records when Update starts *)
  ck_cur : list qent;             (* Entries() before (empty: a dispatcher that has just started) *)
  ck_faults : list (N * N);       (* uuid -> request of the cancel goroutine that the stub fails *)
  co_cur : list qent;             (* Entries() after Update and after the goroutines it started have finished *)
  co_calls : list (N * list acall);  (* lock / runtime_status / cancel / get requests received, per container, in order *)
  co_db : list dbrec;             (* the API server's records afterwards *)
  co_ok : bool                    (* Update returned nil, the goroutines finished, entries carry the records' constraints *)
}.

(* ---------------- specification ---------------- *)
(* the type is a configured one, and (where int64 arithmetic is exact) it satisfies every constraint of the
   container and no configured type satisfying them is cheaper *)
Definition type_ok (reserve : Z) (ts : list itype) (c : ctr) (id : N) : Prop :=
  exists t, find_it id ts = Some t /\
    (in_range reserve ts c ->
     satisfies reserve c t /\ forall x, In x ts -> satisfies reserve c x -> price t <= price x).
Definition type_ok_b (reserve : Z) (ts : list itype) (c : ctr) (id : N) : bool :=
  match find_it id ts with
  | Some t => negb (in_range_b reserve ts c) ||
              (satisfies_b reserve c t && forallb (fun x => negb (satisfies_b reserve c x) || (price t <=? price x)) ts)
  | None => false
  end.

Definition err_class (ts : list itype) : N := match ts with [] => 2%N | _ => 1%N end.

Record CqSpec (c : case) : Prop := {
  (* what the scheduler is handed: an entry carries a type chosen for its container, and an entry it may
     lock or start (Queued / Locked) never carries the zero InstanceType *)
  cs_type : forall e, In e (co_cur c) ->
      (forall id, ce_type e = Some id ->
         type_ok (ck_reserve c) (ck_types c) (cons_of (ck_cons c) (ce_uuid e)) id) /\
      (ce_type e = None -> ce_state e <> Queued /\ ce_state e <> Locked);
  (* an unsatisfiable container that reaches this dispatcher Queued or Locked gets the error: unless the
     stub refused a request, its record ends Cancelled with ChooseInstanceType's error in runtime_status *)
  cs_error : forall d, In d (ck_db c) -> offered d = true -> find_e (cd_uuid d) (ck_cur c) = None ->
      waiting_st (cd_state d) = true -> fault_of (ck_faults c) (cd_uuid d) = 0%N ->
      in_range (ck_reserve c) (ck_types c) (cons_of (ck_cons c) (cd_uuid d)) ->
      (forall x, In x (ck_types c) -> ~ satisfies (ck_reserve c) (cons_of (ck_cons c) (cd_uuid d)) x) ->
      exists d', In d' (co_db c) /\ cd_uuid d' = cd_uuid d /\ cd_state d' = Cancelled /\
                 cd_err d' = err_class (ck_types c);
  (* ... and only such a container does: the queue sends lock / runtime_status / cancel requests of its own
     only for containers that no configured type satisfies *)
  cs_only_unsat : forall u calls, In (u, calls) (co_calls c) ->
      in_range (ck_reserve c) (ck_types c) (cons_of (ck_cons c) u) ->
      forall x, In x (ck_types c) -> ~ satisfies (ck_reserve c) (cons_of (ck_cons c) u) x
}.

Definition spec_b (c : case) : bool :=
  let ts := ck_types c in let rs := ck_reserve c in
  forallb (fun e => match ce_type e with
                    | Some id => type_ok_b rs ts (cons_of (ck_cons c) (ce_uuid e)) id
                    | None => negb (waiting_st (ce_state e))
                    end) (co_cur c) &&
  forallb (fun d =>
      negb (offered d && match find_e (cd_uuid d) (ck_cur c) with Some _ => false | None => true end &&
            waiting_st (cd_state d) && N.eqb (fault_of (ck_faults c) (cd_uuid d)) 0 &&
            in_range_b rs ts (cons_of (ck_cons c) (cd_uuid d)) &&
            forallb (fun x => negb (satisfies_b rs (cons_of (ck_cons c) (cd_uuid d)) x)) ts) ||
      existsb (fun d' => N.eqb (cd_uuid d') (cd_uuid d) && cstate_eqb (cd_state d') Cancelled &&
                         N.eqb (cd_err d') (err_class ts)) (co_db c)) (ck_db c) &&
  forallb (fun uc : N * list acall =>
      negb (in_range_b rs ts (cons_of (ck_cons c) (fst uc))) ||
      forallb (fun x => negb (satisfies_b rs (cons_of (ck_cons c) (fst uc)) x)) ts) (co_calls c).

(* ---------------- model vs implementation ---------------- *)
Fixpoint ins_e (x : qent) (l : list qent) : list qent :=
  match l with [] => [x] | y :: r => if (ce_uuid x <=? ce_uuid y)%N then x :: l else y :: ins_e x r end.
Definition sort_e (l : list qent) : list qent := fold_right ins_e [] l.
Fixpoint ins_d (x : dbrec) (l : list dbrec) : list dbrec :=
  match l with [] => [x] | y :: r => if (cd_uuid x <=? cd_uuid y)%N then x :: l else y :: ins_d x r end.
Definition sort_d (l : list dbrec) : list dbrec := fold_right ins_d [] l.
Fixpoint ins_c (x : N * list acall) (l : list (N * list acall)) : list (N * list acall) :=
  match l with [] => [x] | y :: r => if (fst x <=? fst y)%N then x :: l else y :: ins_c x r end.
Definition sort_c (l : list (N * list acall)) : list (N * list acall) := fold_right ins_c [] l.

Fixpoint list_eqb {A} (f : A -> A -> bool) (a b : list A) : bool :=
  match a, b with [], [] => true | x :: r, y :: s => f x y && list_eqb f r s | _, _ => false end.
Definition acall_eqb (a b : acall) : bool :=
  match a, b with
  | ALock x, ALock y => Bool.eqb x y
  | ASetErr k x, ASetErr l y => N.eqb k l && Bool.eqb x y
  | ACancel x, ACancel y => Bool.eqb x y
  | AUnlock x, AUnlock y => Bool.eqb x y
  | AGet, AGet => true
  | _, _ => false
  end.
Definition dbrec_eqb (a b : dbrec) : bool :=
  N.eqb (cd_uuid a) (cd_uuid b) && cstate_eqb (cd_state a) (cd_state b) && Z.eqb (cd_prio a) (cd_prio b) &&
  Bool.eqb (cd_mine a) (cd_mine b) && N.eqb (cd_err a) (cd_err b).
Definition optN_eqb (a b : option N) : bool :=
  match a, b with Some x, Some y => N.eqb x y | None, None => true | _, _ => false end.

(* ids ChooseInstanceType can return for some iteration order of the table (tables of this stage have <= 4 types) *)
Definition possible_ids (reserve : Z) (ts : list itype) (c : ctr) : list N :=
  flat_map (fun p => match choose reserve p c with Chosen t => [it_id t] | _ => [] end) (perms ts).

(* observed entry against the model's (computed with the table in the listed order): same uuid, state and
   priority; same type, or - for an entry added by this Update - another answer of the tie among cheapest types *)
Definition ent_match (c : case) (o m : qent) : bool :=
  N.eqb (ce_uuid o) (ce_uuid m) && cstate_eqb (ce_state o) (ce_state m) && Z.eqb (ce_prio o) (ce_prio m) &&
  (optN_eqb (ce_type o) (ce_type m) ||
   match ce_type o, ce_type m, find_e (ce_uuid o) (ck_cur c) with
   | Some id, Some _, None => existsb (N.eqb id) (possible_ids (ck_reserve c) (ck_types c) (cons_of (ck_cons c) (ce_uuid o)))
   | _, _, _ => false
   end).

Definition model_b (c : case) : bool :=
  let ord := fun _ : N => ck_types c in
  co_ok c &&
  list_eqb (ent_match c) (sort_e (co_cur c))
           (sort_e (cache_after (ck_reserve c) ord (ck_cons c) (ck_db c) (ck_cur c))) &&
  list_eqb (fun a b => N.eqb (fst a) (fst b) && list_eqb acall_eqb (snd a) (snd b)) (sort_c (co_calls c))
           (sort_c (calls_after (ck_reserve c) ord (ck_cons c) (ck_faults c) (ck_db c) (ck_cur c))) &&
  list_eqb dbrec_eqb (sort_d (co_db c))
           (sort_d (db_after (ck_reserve c) ord (ck_cons c) (ck_faults c) (ck_db c) (ck_cur c))).

Definition check_case (c : case) : N :=
  ((if model_b c then 0 else 1) + (if spec_b c then 0 else 2))%N.
Fixpoint failing_from (i : N) (cs : list case) : list (N * N) :=
  match cs with
  | [] => []
  | c :: r => let k := check_case c in
              if N.eqb k 0 then failing_from (N.succ i) r else (i, k) :: failing_from (N.succ i) r
  end.
Definition failing (cs : list case) : list (N * N) := failing_from 0%N cs.

(* short constructors for generated case files *)
Definition St (n : N) : cstate :=
  match n with 0 => Queued | 1 => Locked | 2 => Running | 3 => Complete | 4 => Cancelled | _ => OtherState end%N.
Definition DB (u st : N) (p : Z) (mine : bool) (err : N) : dbrec := mkdbr u (St st) p mine err.
Definition CE (u st : N) (p : Z) (t : option N) : qent := mkqe u (St st) p t.
