(* C04 (I) — interleaving-level model: one block path on one Directory volume, two request threads
     A = a TOUCH request or a PUT request      (handleTOUCH -> Touch;  handlePUT -> PutBlock ->
         CompareAndTouch -> Compare [stat; getFunc: open, read, close] -> Touch, else
         NextWritable().Put -> WriteBlock)
     B = a DELETE request                      (handleDELETE -> Trash)
   as small-step programs whose steps are exactly the yield points that tools/instrument inserts into
   unix_volume.go (one step = from one yield point to the next).  The file system is modelled with
   inode identity: flock is taken on the inode a thread opened, while utimes/stat/rename/unlink go by
   path — that difference is what the race is about.  mtimes are abstracted to {Old, Fresh} (older than
   the TTL / set during this run; a run is far shorter than the TTL).
   Transcribes unix_volume.go Touch, Trash, WriteBlock, Compare/getFunc/stat and the control flow of
   handlers.go PutBlock/CompareAndTouch/handleTOUCH/handleDELETE for a single writable volume.
   Definitions only; proofs are in proofs/C04_race_proofs.v. *)
From Coq Require Import List Bool Arith String.
Import ListNotations.

Inductive age := Old | Fresh.
Inductive cont := Good | Corrupt.            (* Good = the bytes whose MD5 is the block name *)
Record inode := { i_age : age; i_cont : cont }.

Inductive ares := AOk | AErr.                              (* request A acknowledged (2xx) or not *)
Inductive bres := BTrashed | BNoop | BNotExist | BErr.     (* Trash: moved/removed, too new, ENOENT, other error *)

(* thread A *)
Inductive pcA :=
| Ac_stat                      (* Compare: v.stat(path) *)
| Ac_open                      (* getFunc: v.os.Open(path) *)
| Ac_close (same : bool)       (* getFunc: deferred f.Close(); same = the bytes read equal the body *)
| At_open                      (* Touch: v.os.OpenFile(path) *)
| At_flock (fd : nat)          (* Touch: v.lockfile(f) *)
| At_wait (fd : nat)           (* blocked inside flock(2) *)
| At_utimes (fd : nat)         (* Touch: os.Chtimes(path) *)
| At_unflock (fd : nat) (ok : bool)
| At_close (fd : nat) (ok : bool)
| Aw_mkdir                     (* WriteBlock: os.MkdirAll *)
| Aw_create                    (* v.os.TempFile *)
| Aw_write (t : nat)           (* one write of the copy loop (blocks here are one chunk) *)
| Aw_closetmp (t : nat)
| Aw_utimes (t : nat)          (* os.Chtimes(tmp) *)
| Aw_rename (t : nat)          (* v.os.Rename(tmp, path) *)
(* WriteBlock takes the flock on the file it is about to replace (since /repo a9eb270, repair of F7);
   the legacy variant [old_noflock] goes from Aw_utimes straight to Aw_rename *)
| Aw_fopen (t : nat)           (* v.os.OpenFile(path) *)
| Aw_fflock (t fd : nat)       (* v.lockfile(old) *)
| Aw_fwait (t fd : nat)        (* blocked inside flock(2) *)
| Aw_renameL (t fd : nat)      (* v.os.Rename(tmp, path), holding the flock *)
| Aw_funlock (fd : nat)        (* deferred v.unlockfile(old) *)
| Aw_fclose (fd : nat)         (* deferred old.Close() *)
| A_done (r : ares).

(* thread B = Trash *)
Inductive pcB :=
| B_open
| B_flock (fd : nat)
| B_wait (fd : nat)
| B_stat (fd : nat)
| B_move (fd : nat)            (* v.os.Rename(path, path.trash.<deadline>)  or  v.os.Remove(path) *)
| B_unflock (fd : nat) (r : bres)
| B_close (fd : nat) (r : bres)
| B_done (r : bres).

Record st := {
  inodes : list inode;         (* index = inode number *)
  path : option nat;           (* inode linked at the block path *)
  trash : list nat;            (* inodes linked as <hash>.trash.<deadline> *)
  gone : list nat;             (* unlinked inodes *)
  lockA : option nat;          (* inode on which A holds a flock *)
  lockB : option nat;
  is_put : bool;               (* A is a PUT (falls through to WriteBlock) or a TOUCH request *)
  remove : bool;               (* BlobTrashLifetime = 0: Trash unlinks instead of renaming *)
  old_noflock : bool;          (* true = the code BEFORE a9eb270 (WriteBlock without flock): regression witness only *)
  pa : pcA; pb : pcB }.

Definition upd (s : st) (ino : list inode) (p : option nat) (tr gn : list nat) (la lb : option nat) (a : pcA) (b : pcB) : st :=
  {| inodes := ino; path := p; trash := tr; gone := gn; lockA := la; lockB := lb;
     is_put := is_put s; remove := remove s; old_noflock := old_noflock s; pa := a; pb := b |}.
Definition setA (s : st) (a : pcA) : st := upd s (inodes s) (path s) (trash s) (gone s) (lockA s) (lockB s) a (pb s).
Definition setB (s : st) (b : pcB) : st := upd s (inodes s) (path s) (trash s) (gone s) (lockA s) (lockB s) (pa s) b.

Fixpoint set_nth (l : list inode) (n : nat) (x : inode) : list inode :=
  match l, n with
  | [], _ => []
  | _ :: r, O => x :: r
  | y :: r, S n' => y :: set_nth r n' x
  end.
Definition get_inode (s : st) (n : nat) : inode := nth n (inodes s) {| i_age := Old; i_cont := Corrupt |}.
Definition freshen (s : st) (n : nat) : list inode :=
  set_nth (inodes s) n {| i_age := Fresh; i_cont := i_cont (get_inode s n) |}.
Definition opt_eqb (a : option nat) (n : nat) : bool := match a with Some m => Nat.eqb m n | None => false end.

(* after a failed CompareAndTouch: a PUT goes on to WriteBlock, a TOUCH request fails *)
Definition a_fail (s : st) : pcA := if is_put s then Aw_mkdir else A_done AErr.

(* one step of A; None = not schedulable (finished, or blocked in flock) *)
Definition stepA (s : st) : option st :=
  match pa s with
  | Ac_stat => Some (setA s (match path s with Some _ => Ac_open | None => Aw_mkdir end))
  | Ac_open => Some (setA s (match path s with
                             | Some i => Ac_close (match i_cont (get_inode s i) with Good => true | Corrupt => false end)
                             | None => Aw_mkdir
                             end))
  | Ac_close same => Some (setA s (if same then At_open else Aw_mkdir))
  | At_open => Some (setA s (match path s with Some i => At_flock i | None => a_fail s end))
  | At_flock fd =>
      if opt_eqb (lockB s) fd then Some (setA s (At_wait fd))
      else Some (upd s (inodes s) (path s) (trash s) (gone s) (Some fd) (lockB s) (At_utimes fd) (pb s))
  | At_wait _ => None
  | At_utimes fd =>                                   (* os.Chtimes BY PATH *)
      match path s with
      | Some j => Some (upd s (freshen s j) (path s) (trash s) (gone s) (lockA s) (lockB s) (At_unflock fd true) (pb s))
      | None => Some (setA s (At_unflock fd false))
      end
  | At_unflock fd ok =>                               (* releases; a B blocked on the same inode acquires *)
      match pb s with
      | B_wait fd' => if Nat.eqb fd fd'
                      then Some (upd s (inodes s) (path s) (trash s) (gone s) None (Some fd') (At_close fd ok) (B_stat fd'))
                      else Some (upd s (inodes s) (path s) (trash s) (gone s) None (lockB s) (At_close fd ok) (pb s))
      | _ => Some (upd s (inodes s) (path s) (trash s) (gone s) None (lockB s) (At_close fd ok) (pb s))
      end
  | At_close fd ok => Some (setA s (if ok then A_done AOk else a_fail s))
  | Aw_mkdir => Some (setA s Aw_create)
  | Aw_create =>                                      (* new inode: fresh mtime, no data yet *)
      Some (upd s (inodes s ++ [{| i_age := Fresh; i_cont := Corrupt |}]) (path s) (trash s) (gone s)
                (lockA s) (lockB s) (Aw_write (List.length (inodes s))) (pb s))
  | Aw_write t =>
      Some (upd s (set_nth (inodes s) t {| i_age := Fresh; i_cont := Good |}) (path s) (trash s) (gone s)
                (lockA s) (lockB s) (Aw_closetmp t) (pb s))
  | Aw_closetmp t => Some (setA s (Aw_utimes t))
  | Aw_utimes t => Some (upd s (freshen s t) (path s) (trash s) (gone s) (lockA s) (lockB s)
                             (if old_noflock s then Aw_rename t else Aw_fopen t) (pb s))
  | Aw_rename t =>                                    (* rename(2) replaces whatever is at the path, NO flock *)
      Some (upd s (inodes s) (Some t) (trash s)
                (match path s with Some old => old :: gone s | None => gone s end)
                (lockA s) (lockB s) (A_done AOk) (pb s))
  | Aw_fopen t => Some (setA s (match path s with Some i => Aw_fflock t i | None => Aw_rename t end))
  | Aw_fflock t fd =>
      if opt_eqb (lockB s) fd then Some (setA s (Aw_fwait t fd))
      else Some (upd s (inodes s) (path s) (trash s) (gone s) (Some fd) (lockB s) (Aw_renameL t fd) (pb s))
  | Aw_fwait _ _ => None
  | Aw_renameL t fd =>
      Some (upd s (inodes s) (Some t) (trash s)
                (match path s with Some old => old :: gone s | None => gone s end)
                (lockA s) (lockB s) (Aw_funlock fd) (pb s))
  | Aw_funlock fd =>
      match pb s with
      | B_wait fd' => if Nat.eqb fd fd'
                      then Some (upd s (inodes s) (path s) (trash s) (gone s) None (Some fd') (Aw_fclose fd) (B_stat fd'))
                      else Some (upd s (inodes s) (path s) (trash s) (gone s) None (lockB s) (Aw_fclose fd) (pb s))
      | _ => Some (upd s (inodes s) (path s) (trash s) (gone s) None (lockB s) (Aw_fclose fd) (pb s))
      end
  | Aw_fclose _ => Some (setA s (A_done AOk))
  | A_done _ => None
  end.

Definition stepB (s : st) : option st :=
  match pb s with
  | B_open => Some (setB s (match path s with Some i => B_flock i | None => B_done BNotExist end))
  | B_flock fd =>
      if opt_eqb (lockA s) fd then Some (setB s (B_wait fd))
      else Some (upd s (inodes s) (path s) (trash s) (gone s) (lockA s) (Some fd) (pa s) (B_stat fd))
  | B_wait _ => None
  | B_stat fd =>                                      (* v.os.Stat BY PATH, under the flock on fd *)
      match path s with
      | Some j => match i_age (get_inode s j) with
                  | Fresh => Some (setB s (B_unflock fd BNoop))
                  | Old => Some (setB s (B_move fd))
                  end
      | None => Some (setB s (B_unflock fd BErr))
      end
  | B_move fd =>                                      (* rename/unlink BY PATH: whatever is there now *)
      match path s with
      | Some j => if remove s
                  then Some (upd s (inodes s) None (trash s) (j :: gone s) (lockA s) (lockB s) (pa s) (B_unflock fd BTrashed))
                  else Some (upd s (inodes s) None (j :: trash s) (gone s) (lockA s) (lockB s) (pa s) (B_unflock fd BTrashed))
      | None => Some (setB s (B_unflock fd BErr))
      end
  | B_unflock fd r =>
      match pa s with
      | At_wait fd' => if Nat.eqb fd fd'
                       then Some (upd s (inodes s) (path s) (trash s) (gone s) (Some fd') None (At_utimes fd') (B_close fd r))
                       else Some (upd s (inodes s) (path s) (trash s) (gone s) (lockA s) None (pa s) (B_close fd r))
      | Aw_fwait t fd' => if Nat.eqb fd fd'
                       then Some (upd s (inodes s) (path s) (trash s) (gone s) (Some fd') None (Aw_renameL t fd') (B_close fd r))
                       else Some (upd s (inodes s) (path s) (trash s) (gone s) (lockA s) None (pa s) (B_close fd r))
      | _ => Some (upd s (inodes s) (path s) (trash s) (gone s) (lockA s) None (pa s) (B_close fd r))
      end
  | B_close fd r => Some (setB s (B_done r))
  | B_done _ => None
  end.

Inductive tid := TA | TB.
Definition step_t (t : tid) (s : st) : option st := match t with TA => stepA s | TB => stepB s end.

Definition succs (s : st) : list st :=
  (match stepA s with Some x => [x] | None => [] end) ++
  (match stepB s with Some x => [x] | None => [] end).

(* all final states of maximal runs of at most [fuel] steps *)
Fixpoint finals (fuel : nat) (s : st) : list st :=
  match fuel with
  | O => [s]
  | S f => match succs s with [] => [s] | l => flat_map (finals f) l end
  end.

(* all maximal schedules (who moves at each step) *)
Fixpoint schedules (fuel : nat) (s : st) : list (list tid) :=
  match fuel with
  | O => [[]]
  | S f =>
    match stepA s, stepB s with
    | None, None => [[]]
    | a, b =>
      (match a with Some x => map (cons TA) (schedules f x) | None => [] end) ++
      (match b with Some x => map (cons TB) (schedules f x) | None => [] end)
    end
  end.

(* ---- scenarios ---- *)
Inductive prior := PAbsent | POldGood | POldCorrupt | PFreshGood.
Definition init_gen (p : prior) (put rm old : bool) : st :=
  {| inodes := match p with
               | PAbsent => []
               | POldGood => [{| i_age := Old; i_cont := Good |}]
               | POldCorrupt => [{| i_age := Old; i_cont := Corrupt |}]
               | PFreshGood => [{| i_age := Fresh; i_cont := Good |}]
               end;
     path := match p with PAbsent => None | _ => Some 0 end;
     trash := []; gone := []; lockA := None; lockB := None;
     is_put := put; remove := rm; old_noflock := old;
     pa := if put then Ac_stat else At_open; pb := B_open |}.
Definition init (p : prior) (put rm : bool) : st := init_gen p put rm false.        (* the code as it is *)
Definition init_old (p : prior) (put rm : bool) : st := init_gen p put rm true.     (* before a9eb270 *)

Definition FUEL : nat := 30.   (* A has at most 3+5+11 steps, B at most 6 *)

(* ---- observable outcome of a final state ---- *)
Definition a_ok (s : st) : bool := match pa s with A_done AOk => true | _ => false end.
Definition b_status_ok (s : st) : bool :=      (* handleDELETE answers 200 unless Trash said "not exist" *)
  match pb s with B_done BNotExist => false | B_done _ => true | _ => false end.
Definition at_path (s : st) : option inode := match path s with Some i => Some (get_inode s i) | None => None end.
Definition trashed (s : st) : list inode := map (get_inode s) (trash s).

(* the contract of volume.go for overlapping Touch/Put and Trash, observed at quiescence: if A was
   acknowledged, the block is at its path with the right content *)
Definition contract (s : st) : bool :=
  negb (a_ok s) ||
  match at_path s with
  | Some i => match i_cont i with Good => true | Corrupt => negb (is_put s) end   (* a TOUCH does not look at the content *)
  | None => false
  end.

(* labels of the yield points, as produced by tools/instrument (without the #n suffix) *)
Local Open Scope string_scope.
Definition labelA (p : pcA) : string :=
  match p with
  | Ac_stat => "stat:v.os.Stat"
  | Ac_open => "getFunc:v.os.Open"
  | Ac_close _ => "getFunc:defer:f.Close"
  | At_open => "Touch:v.os.OpenFile"
  | At_flock _ => "Touch:v.lockfile"
  | At_wait _ => "(blocked in flock)"
  | At_utimes _ => "Touch:os.Chtimes"
  | At_unflock _ _ => "Touch:defer:v.unlockfile"
  | At_close _ _ => "Touch:defer:f.Close"
  | Aw_mkdir => "WriteBlock:os.MkdirAll"
  | Aw_create => "WriteBlock:v.os.TempFile"
  | Aw_write _ => "WriteBlock:write:tmpfile"
  | Aw_closetmp _ => "WriteBlock:tmpfile.Close"
  | Aw_utimes _ => "WriteBlock:os.Chtimes"
  | Aw_rename _ => "WriteBlock:v.os.Rename"
  | Aw_fopen _ => "WriteBlock:v.os.OpenFile"
  | Aw_fflock _ _ => "WriteBlock:v.lockfile"
  | Aw_fwait _ _ => "(blocked in flock)"
  | Aw_renameL _ _ => "WriteBlock:v.os.Rename"
  | Aw_funlock _ => "WriteBlock:defer:v.unlockfile"
  | Aw_fclose _ => "WriteBlock:defer:old.Close"
  | A_done _ => "(done)"
  end.
Definition labelB (s : st) : string :=
  match pb s with
  | B_open => "Trash:v.os.OpenFile"
  | B_flock _ => "Trash:v.lockfile"
  | B_wait _ => "(blocked in flock)"
  | B_stat _ => "Trash:v.os.Stat"
  | B_move _ => if remove s then "Trash:v.os.Remove" else "Trash:v.os.Rename"
  | B_unflock _ _ => "Trash:defer:v.unlockfile"
  | B_close _ _ => "Trash:defer:f.Close"
  | B_done _ => "(done)"
  end.
Definition label_t (t : tid) (s : st) : string := match t with TA => labelA (pa s) | TB => labelB s end.

(* is the thread at a yield point or finished (i.e. not inside a blocking flock)? *)
Definition parkedA (s : st) : bool := match pa s with At_wait _ | Aw_fwait _ _ => false | _ => true end.
Definition parkedB (s : st) : bool := match pb s with B_wait _ => false | _ => true end.
