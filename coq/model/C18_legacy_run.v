(* C18: evaluator for the legacy stage (package lib/controller): rewriteSignatures(cluster, expect,
   response carrying {manifest_text, portable_data_hash}). *)
From Coq Require Import NArith List Ascii String Bool.
From AV Require Import lib.Str lib.Md5 lib.TokSplit lib.ManifestTok model.C18_model.
Import ListNotations.
Local Open Scope string_scope.

Inductive case := LCase (cluster expect col_pdh manifest : string) (res : lresult).

Definition lresult_eqb (a b : lresult) : bool :=
  match a, b with LOk x, LOk y => x =? y | LErr, LErr => true | _, _ => false end.

Definition model_b (c : case) : bool :=
  match c with LCase cl e p m res => lresult_eqb (legacy_rewrite cl e p m) res end.

(* a response is relayed only if its manifest hashes to the expected value (which must also be the value
   on the record), and then a valid manifest differs from the original only in its A-hints *)
Definition spec_b (c : case) : bool :=
  match c with
  | LCase cl e p m LErr =>
    (* an honest answer in the shape the legacy path understands is relayed *)
    negb (((e =? "") || (e =? p)) &&
          match parse m with Some ss => forallb legacy_stream ss && (pdh m =? p) | None => false end)
  | LCase cl e p m (LOk out) =>
    ((e =? "") || (e =? p)) &&
    match parse m with
    | Some ss => (pdh m =? p) && (out =? render (map (rw_stream cl) ss))
    | None => true
    end
  end.

Definition check_case (c : case) : N :=
  ((if model_b c then 0 else 1) + (if spec_b c then 0 else 2))%N.
Fixpoint failing_from (i : N) (cs : list case) : list (N * N) :=
  match cs with
  | [] => []
  | c :: r => let k := check_case c in
              if N.eqb k 0 then failing_from (N.succ i) r else (i, k) :: failing_from (N.succ i) r
  end.
Definition failing (cs : list case) : list (N * N) := failing_from 0%N cs.
