(* C05 — evaluator for the stages that drive more of keep-balance than balanceBlock:
   CColl: a block whose Desired is derived from collections by the real addCollection / IncreaseDesired and
          whose change sets come from ComputeChangeSets (model/C05_desired.v);
   CSeq:  a sequence of Balancer.Run calls of one keep-balance process (Server.runOnce) against a stub
          cluster whose service list changes between runs and whose requests can fail (model/C05_sweeps.v).
   check_case: 0 ok, +1 the model disagrees with the implementation, +2 the observed behaviour violates
   the specification. *)
From Coq Require Import List Arith Bool NArith.
From AV Require Import model.C06_model model.C05_model model.C05_run model.C05_desired model.C05_sweeps.
Import ListNotations.

(* ---------- a block seen through a whole run ---------- *)
(* the source of a Pull is the service of blk.Replicas[0], i.e. of whichever index arrived first: in a whole
   run the model is compared on trash lists, pull TARGETS and the lost report; sources are judged by spec_b *)
Definition model_b_targets (c : C05_run.case) : bool :=
  negb (no_ties c) ||
  (let '(chs, lost) := m_out c in
   peq (psort (trashes chs)) (psort (o_trash c)) &&
   peq (psort (map (fun p => (fst p, 0)) (pulls chs))) (psort (map (fun p => (fst p, 0)) (o_pull c))) &&
   Bool.eqb lost (o_lost c)).
Definition b_model_targets_b (b : bcase) : bool := model_b_targets (b_model_case b).

(* ---------- a sequence of runs ---------- *)
Record run_obs := {
  r_in : run_in;              (* service list, restart flag, the request the stub failed, #entries per server *)
  r_ok : bool;                (* Run returned nil *)
  r_log : list ev;            (* what the keepstores saw, in order of arrival *)
  r_blocks : list bcase;      (* complete committing runs: per block, the replicas the served indexes listed and
                                 the trash / pull entries on the wire, the lost-blocks report *)
  r_carried : list bcase      (* the same blocks with o_trash = the replicas actually removed when every trash list
                                 a keepstore holds is carried out (listed only where that differs from the wire) *)
}.
Record scase := {
  q_cp : bool; q_ct : bool;   (* CommitPulls, CommitTrash *)
  q_init : list nat;          (* services that hold a non-empty trash list from an earlier keep-balance process *)
  q_runs : list run_obs
}.

Definition init_pend (l : list nat) : pend := map (fun s => (s, None)) l.

Fixpoint runs_agree (m : list (list nat * list ev * bool)) (o : list run_obs) : bool :=
  match m, o with
  | [], [] => true
  | (_, evs, ok) :: mr, r :: orr => evs_eqb (puts_of evs) (puts_of (r_log r)) && Bool.eqb ok (r_ok r) && runs_agree mr orr
  | _, _ => false
  end.

Definition seq_model_b (q : scase) : bool :=
  runs_agree (seq_model (q_cp q) (q_ct q) None (map r_in (q_runs q))) (q_runs q) &&
  forallb (fun r => forallb b_model_targets_b (r_blocks r)) (q_runs q).

Definition seq_spec_b (q : scase) : bool :=
  stale_free (q_ct q) (map (fun r => (i_set (r_in r), r_log r)) (q_runs q)) (init_pend (q_init q)) &&
  forallb (fun r => forallb b_spec_b (r_blocks r) && forallb b_spec_b (r_carried r)) (q_runs q).

Inductive case := CColl (b : bcase) | CSeq (q : scase).

Definition model_b (c : case) : bool := match c with CColl b => b_model_b b | CSeq q => seq_model_b q end.
Definition spec_b (c : case) : bool := match c with CColl b => b_spec_b b | CSeq q => seq_spec_b q end.

Definition check_case (c : case) : N :=
  ((if model_b c then 0 else 1) + (if spec_b c then 0 else 2))%N.

Fixpoint failing_from (i : N) (cs : list case) : list (N * N) :=
  match cs with
  | [] => []
  | c :: r => let k := check_case c in
              if N.eqb k 0 then failing_from (N.succ i) r else (i, k) :: failing_from (N.succ i) r
  end.
Definition failing (cs : list case) : list (N * N) := failing_from 0%N cs.

(* constructors for the case printer *)
Definition RI (restart : bool) (set : list nat) (f : option req) (plan : list (nat * (nat * nat))) : run_in :=
  {| i_restart := restart; i_set := set; i_fail := f; i_plan := plan |}.
