(* C02 — evaluator for generated cases.  A case = one PUT of an L-byte body on 1-2 Directory volumes
   in a given prior state, run in one of three modes:
     Kill k    a child process performs the PUT and SIGKILLs itself at yield point k (before that
               filesystem call); c_trace = the labels of yield points 0..k
     Cancel k  the client "disconnects" (CloseNotify) at yield point k; the request then runs on
     Plain     nothing is injected
   after which a FRESH handler is started on the same directories and GET / index / the directory
   listing are recorded.  spec_b judges the observations only; model_b compares with C02_model. *)
From Coq Require Import NArith List String Bool.
From AV Require Import lib.Str model.C02_model.
Import ListNotations.
Local Open Scope N_scope.

Inductive mode := Kill (k : nat) | Cancel (k : nat) | Plain.

Record case := {
  c_hash : string;                    (* the block name *)
  c_L : N;
  c_vols : list vold;                 (* before, in mount order *)
  c_index0 : list (string * N);       (* /index before the PUT: (name, size) *)
  c_mode : mode;
  c_src : source;                     (* what the writer saw, as inferred by the harness from the trace *)
  c_trace : list string;              (* labels of the yield points reached, in order *)
  c_acked : option bool;              (* Some true = 200; None = the process was killed *)
  c_after : list vold;                (* disk afterwards *)
  c_get : N;                          (* status of GET on the fresh handler *)
  c_get_good : bool;                  (* the body is exactly the block *)
  c_get_len : N;                      (* length of the body served *)
  c_index : list (string * N)         (* /index of the fresh handler *)
}.

Definition fk_eqb (a b : fk) : bool :=
  match a, b with KGood, KGood => true | KCorrupt x, KCorrupt y => x =? y | _, _ => false end.
Definition ofk_eqb (a b : option fk) : bool :=
  match a, b with Some x, Some y => fk_eqb x y | None, None => true | _, _ => false end.
Definition oN_eqb (a b : option N) : bool :=
  match a, b with Some x, Some y => x =? y | None, None => true | _, _ => false end.
Definition vold_eqb (a b : vold) : bool :=
  Bool.eqb (d_ro a) (d_ro b) && Bool.eqb (d_dir a) (d_dir b) && ofk_eqb (d_blk a) (d_blk b) && oN_eqb (d_tmp a) (d_tmp b) &&
  Bool.eqb (d_full a) (d_full b).
Fixpoint vols_eqb (a b : list vold) : bool :=
  match a, b with
  | [], [] => true
  | x :: r, y :: r' => vold_eqb x y && vols_eqb r r'
  | _, _ => false
  end.
Fixpoint strs_eqb (a b : list string) : bool :=
  match a, b with
  | [], [] => true
  | x :: r, y :: r' => String.eqb x y && strs_eqb r r'
  | _, _ => false
  end.
Definition entry_eqb (a b : string * N) : bool := String.eqb (fst a) (fst b) && (snd a =? snd b).
(* the restarted server may mount the volumes in another order (map iteration): compare as multisets *)
Fixpoint count_entry (x : string * N) (l : list (string * N)) : nat :=
  match l with [] => O | y :: r => (if entry_eqb x y then 1 else 0) + count_entry x r end.
Definition entries_eqb (a b : list (string * N)) : bool :=
  Nat.eqb (List.length a) (List.length b) && forallb (fun x => Nat.eqb (count_entry x a) (count_entry x b)) a.

(* ---- the boolean specification: all-or-nothing, durable once acknowledged ---- *)
Definition spec_b (c : case) : bool :=
  (* GET on the restarted server: an error, or the complete correct block — never partial data *)
  (negb (c_get c / 100 =? 2) || (c_get_good c && (c_get_len c =? c_L c))) &&
  (* the index lists only what was listed before, or the complete new block with its true size *)
  forallb (fun e => existsb (entry_eqb e) (c_index0 c) || (String.eqb (fst e) (c_hash c) && (snd e =? c_L c))) (c_index c) &&
  (* every indexed name is a block name: temp files are never visible as blocks *)
  forallb (fun e => is_block_name (fst e)) (c_index c) &&
  (* acknowledged => retrievable after a restart *)
  (match c_acked c with Some true => (c_get c =? 200) && c_get_good c | _ => true end).

(* ---- model = observation ---- *)
Definition model_b (c : case) : bool :=
  let '(prog, ok) := put_prog (c_vols c) (c_L c) (c_src c) in
  let labels := map fst prog in
  match c_mode c with
  | Kill k =>
      (* killed at yield point k: points 0..k were reached, calls 0..k-1 were executed *)
      strs_eqb (c_trace c) (firstn (S k) labels) && Nat.ltb k (List.length labels) &&
      vols_eqb (c_after c) (crash (c_vols c) (c_L c) (c_src c) k) &&
      match c_acked c with None => true | Some _ => false end
  | _ =>
      strs_eqb (c_trace c) labels &&
      vols_eqb (c_after c) (finish (c_vols c) (c_L c) (c_src c)) &&
      match c_acked c with
      | Some a => Bool.eqb a ok || (negb a && match c_mode c with Cancel _ => true | _ => false end)
                  (* a cancelled request may answer 503 although the block was stored *)
      | None => false
      end
  end &&
  (* the restarted server serves what the model says is on disk *)
  (match get_block (c_after c) 404 with
   | GData => (c_get c =? 200) && c_get_good c
   | GErr e => (c_get c / 100 =? e / 100)
   end) &&
  entries_eqb (c_index c) (map (fun n => (c_hash c, n)) (index (c_L c) (c_after c))).

Definition check_case (c : case) : N := (if model_b c then 0 else 1) + (if spec_b c then 0 else 2).

Fixpoint failing_from (i : N) (cs : list case) : list (N * N) :=
  match cs with
  | [] => []
  | c :: r => let k := check_case c in
              if k =? 0 then failing_from (N.succ i) r else (i, k) :: failing_from (N.succ i) r
  end.
Definition failing (cs : list case) : list (N * N) := failing_from 0 cs.

Definition D (ro dir : bool) (b : option fk) (t : option N) : vold := {| d_ro := ro; d_dir := dir; d_blk := b; d_tmp := t; d_full := false |}.
Definition DF (ro dir : bool) (b : option fk) (t : option N) : vold := {| d_ro := ro; d_dir := dir; d_blk := b; d_tmp := t; d_full := true |}.
