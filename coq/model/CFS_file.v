(* Collection filesystem, file level: sdk/go/arvados/fs_collection.go filenode.seek / Read / truncate /
   Write, memSegment and storedSegment, transcribed line by line (maxBlockSize is a parameter).
   Segments carry the decorations the upper layers need:
     Mem b tok          a *memSegment with buffer b; tok = Some t while a background write (token t,
                        the `flushing` channel in Go) shares the buffer, reset by copy-on-write
     Sto b loc bsz off  a storedSegment denoting bytes b = block(loc)[off, off+|b|), |block| = bsz
   Definitions only; proofs are in proofs/CFS_file_proofs.v. *)
From Coq Require Import List Arith Lia Bool.
Import ListNotations.

Definition byte := nat.
Inductive seg := Mem (b : list byte) (tok : option nat) | Sto (b : list byte) (loc bsz boff : nat).
Definition sbytes (s : seg) : list byte := match s with Mem b _ => b | Sto b _ _ _ => b end.
Definition slen (s : seg) : nat := length (sbytes s).
Definition is_mem (s : seg) : bool := match s with Mem _ _ => true | Sto _ _ _ _ => false end.

(* segment.Slice(off, length)  (length = None means "to the end"): a memSegment is copied into a
   fresh object (no flushing token); a storedSegment keeps its block and shifts its offset *)
Definition slice (s : seg) (off : nat) (n : option nat) : seg :=
  let b := skipn off (sbytes s) in
  let b := match n with None => b | Some n => firstn n b end in
  match s with Mem _ _ => Mem b None | Sto _ loc bsz boff => Sto b loc bsz (boff + off) end.

(* memSegment.Truncate(n): shrink, or grow with zeros *)
Definition mem_resize (b : list byte) (n : nat) : list byte :=
  firstn n b ++ repeat 0 (n - length b).
(* memSegment.WriteAt(p, off), requires off+len p <= len b *)
Definition mem_write (b : list byte) (off : nat) (p : list byte) : list byte :=
  firstn off b ++ p ++ skipn (off + length p) b.

Record fnode := { segs : list seg; size : nat; repacked : nat }.
Record ptr := { off : nat; idx : nat; soff : nat; rep : option nat }.  (* rep = None models repacked = -1 *)

Definition nthseg (l : list seg) (i : nat) : seg := nth i l (Mem [] None).

Fixpoint locate (l : list seg) (target : nat) (i : nat) : nat * nat :=
  match target with
  | 0 => (i, 0)
  | _ => match l with
         | [] => (i, 0)
         | s :: r => if target <? slen s then (i, target) else locate r (target - slen s) (S i)
         end
  end.

Definition seek (fn : fnode) (p : ptr) : ptr :=
  if size fn <=? off p then
    {| off := off p; idx := length (segs fn); soff := 0; rep := Some (repacked fn) |}
  else match rep p with
       | Some r =>
         if r =? repacked fn then
           if slen (nthseg (segs fn) (idx p)) <=? soff p
           then {| off := off p; idx := S (idx p); soff := 0; rep := rep p |}
           else p
         else let '(i, o) := locate (segs fn) (off p) 0 in
              {| off := off p; idx := i; soff := o; rep := Some (repacked fn) |}
       | None => let '(i, o) := locate (segs fn) (off p) 0 in
              {| off := off p; idx := i; soff := o; rep := Some (repacked fn) |}
       end.

(* Read up to n bytes from one segment.  Result: bytes, new ptr, eof flag *)
Definition fn_read (fn : fnode) (n : nat) (p0 : ptr) : list byte * ptr * bool :=
  let p := seek fn p0 in
  if length (segs fn) <=? idx p then ([], p, true)
  else
    let s := nthseg (segs fn) (idx p) in
    let avail := slen s - soff p in
    let data := firstn n (skipn (soff p) (sbytes s)) in
    let eof := avail <? n in
    let got := length data in
    if got =? 0 then (data, p, eof)
    else
      let soff' := soff p + got in
      if soff' =? slen s then
        let i' := S (idx p) in
        (data, {| off := off p + got; idx := i'; soff := 0; rep := rep p |},
         if i' <? length (segs fn) then false else eof)
      else (data, {| off := off p + got; idx := idx p; soff := soff'; rep := rep p |}, eof).

Section WithMax.
Variable maxBlock : nat.

(* truncate: grow loop needs fuel; each iteration adds >= 1 byte when maxBlock >= 1 *)
Fixpoint grow (fuel : nat) (l : list seg) (sz want : nat) : list seg * nat :=
  match fuel with
  | 0 => (l, sz)
  | S fuel =>
    if want <=? sz then (l, sz)
    else
      let need := want - sz in
      match rev l with
      | Mem b _ :: r =>
        if length b <? maxBlock then
          let g := Nat.min need (maxBlock - length b) in
          grow fuel (rev r ++ [Mem (mem_resize b (length b + g)) None]) (sz + g) want
        else
          let g := Nat.min need maxBlock in
          grow fuel (l ++ [Mem (mem_resize [] g) None]) (sz + g) want
      | _ =>
        let g := Nat.min need maxBlock in
        grow fuel (l ++ [Mem (mem_resize [] g) None]) (sz + g) want
      end
  end.

Definition set_nth (l : list seg) (i : nat) (s : seg) : list seg :=
  firstn i l ++ s :: skipn (S i) l.

Definition fn_truncate (fn : fnode) (want : nat) : fnode :=
  if want =? size fn then fn
  else if want <? size fn then
    let p := seek {| segs := segs fn; size := size fn; repacked := S (repacked fn) |}
                  {| off := want; idx := 0; soff := 0; rep := None |} in
    let l := if soff p =? 0 then firstn (idx p) (segs fn)
             else
               let l1 := firstn (S (idx p)) (segs fn) in
               match nthseg (segs fn) (idx p) with
               | Mem b tok => set_nth l1 (idx p) (Mem (mem_resize b (soff p)) tok)   (* shrinks in place: token kept *)
               | Sto b loc bsz boff => set_nth l1 (idx p) (slice (Sto b loc bsz boff) 0 (Some (soff p)))
               end in
    {| segs := l; size := want; repacked := S (repacked fn) |}
  else
    let '(l, sz) := grow (S (want - size fn)) (segs fn) (size fn) want in
    {| segs := l; size := sz; repacked := S (repacked fn) |}.

(* One iteration of the Write loop, split by branch so that each has its own lemma.
   Every branch returns the new node, the new ptr and the number of bytes consumed. *)
Definition cur_writable (fn : fnode) (p : ptr) : bool :=
  if idx p <? length (segs fn) then is_mem (nthseg (segs fn) (idx p)) else false.

Definition prev_appendable (l : list seg) (cur : nat) : bool :=
  match cur with
  | 0 => false
  | S prev => (slen (nthseg l prev) <? maxBlock) && is_mem (nthseg l prev)
  end.

(* ptr after copying n bytes into segment i at offset so0 *)
Definition ptr_after (l : list seg) (p : ptr) (i so n : nat) (rp : option nat) : ptr :=
  if slen (nthseg l i) =? so
  then {| off := off p + n; idx := S i; soff := 0; rep := rp |}
  else {| off := off p + n; idx := i; soff := so; rep := rp |}.

(* split a non-writable segment: ptr.segmentOff > 0 && !curWritable *)
Definition ws_split (fn : fnode) (p : ptr) (cando : list byte) : fnode * ptr * nat :=
  let l := segs fn in let cur := idx p in
  let mx := slen (nthseg l cur) - soff p in
  let '(cando, l') :=
      if mx <=? length cando then
        let cando := firstn mx cando in
        (cando, firstn cur l ++ [slice (nthseg l cur) 0 (Some (soff p)); Mem cando None] ++ skipn (S cur) l)
      else
        (cando, firstn cur l ++ [slice (nthseg l cur) 0 (Some (soff p)); Mem cando None;
                                 slice (nthseg l cur) (soff p + length cando) None] ++ skipn (S cur) l) in
  let n := length cando in
  ({| segs := l'; size := size fn; repacked := S (repacked fn) |},
   ptr_after l' p (S cur) n n (option_map S (rep p)), n).

(* write inside a memSegment *)
Definition ws_inplace (fn : fnode) (p : ptr) (cando : list byte) : fnode * ptr * nat :=
  let l := segs fn in let cur := idx p in
  let cando := firstn (slen (nthseg l cur) - soff p) cando in
  let n := length cando in
  let l' := set_nth l cur (Mem (mem_write (sbytes (nthseg l cur)) (soff p) cando) None) in
  ({| segs := l'; size := size fn; repacked := repacked fn |},
   ptr_after l' p cur (soff p + n) n (rep p), n).

(* shrink cando to what cur allows, and drop / shorten cur (used by the two branches below) *)
Definition adjust_cur (fn : fnode) (cur : nat) (cando : list byte) : list byte * list seg * nat :=
  let l := segs fn in
  if cur =? length l then (cando, l, size fn + length cando)
  else if slen (nthseg l cur) <=? length cando then
    (firstn (slen (nthseg l cur)) cando, firstn cur l ++ skipn (S cur) l, size fn)
  else (cando, set_nth l cur (slice (nthseg l cur) (length cando) None), size fn).

(* grow the previous memSegment *)
Definition ws_grow_prev (fn : fnode) (p : ptr) (cando : list byte) : fnode * ptr * nat :=
  let l := segs fn in let cur := idx p in let prev := pred cur in
  let cando := firstn (maxBlock - slen (nthseg l prev)) cando in
  let '(cando, l1, sz) := adjust_cur fn cur cando in
  let n := length cando in
  let pb := sbytes (nthseg l1 prev) in
  let l2 := set_nth l1 prev (Mem (pb ++ cando) None) in
  ({| segs := l2; size := sz; repacked := S (repacked fn) |},
   ptr_after l2 p prev (length pb + n) n (option_map S (rep p)), n).

(* insert a new memSegment at cur.  Go tests cur < len(segments) AFTER growing the slice, so
   repacked is always incremented: the "appending does not invalidate ptrs" branch is dead code *)
Definition ws_insert (fn : fnode) (p : ptr) (cando : list byte) : fnode * ptr * nat :=
  let cur := idx p in
  let '(cando, l1, sz) := adjust_cur fn cur cando in
  let n := length cando in
  let l2 := firstn cur l1 ++ Mem cando None :: skipn cur l1 in
  ({| segs := l2; size := sz; repacked := S (repacked fn) |},
   ptr_after l2 p cur n n (option_map S (rep p)), n).

Definition write_step (fn : fnode) (p : ptr) (data : list byte) : fnode * ptr * nat :=
  let cando := firstn maxBlock data in
  if (0 <? soff p) && negb (cur_writable fn p) then ws_split fn p cando
  else if cur_writable fn p then ws_inplace fn p cando
  else if prev_appendable (segs fn) (idx p) then ws_grow_prev fn p cando
  else ws_insert fn p cando.

Fixpoint write_loop (fuel : nat) (fn : fnode) (p : ptr) (data : list byte) : fnode * ptr :=
  match fuel, data with
  | _, [] => (fn, p)
  | 0, _ => (fn, p)
  | S fuel, _ =>
    let '(fn', p', n) := write_step fn p data in
    write_loop fuel fn' p' (skipn n data)
  end.

Definition fn_write (fn : fnode) (p0 : ptr) (data : list byte) : fnode * ptr :=
  let fn1 := if size fn <? off p0 then fn_truncate fn (off p0) else fn in
  let p := seek fn1 p0 in
  write_loop (length data + length (segs fn1) + 1) fn1 p data.

End WithMax.

(* abstraction *)
Definition content (fn : fnode) : list byte := flat_map sbytes (segs fn).

