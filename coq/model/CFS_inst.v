(* The two instances of the tree layer: the implementation model (segment lists) and the
   specification (one byte list per file). *)
From Coq Require Import List Arith String Bool.
From AV Require Import lib.Str lib.Path model.CFS_file model.CFS_tree.
Import ListNotations.

(* ---- implementation model ---- *)
Definition c_pzero : ptr := {| off := 0; idx := 0; soff := 0; rep := Some 0 |}.
Definition c_pset (p : ptr) (o : nat) : ptr := {| off := o; idx := idx p; soff := soff p; rep := None |}.
Definition c_peof (fn : fnode) : ptr :=
  {| off := size fn; idx := List.length (segs fn); soff := 0; rep := Some (repacked fn) |}.
Definition f_new : fnode := {| segs := []; size := 0; repacked := 0 |}.

(* the read loop around filenode.Read: each call reads from one segment *)
Fixpoint fn_read_loop (fuel : nat) (fn : fnode) (n : nat) (p : ptr) (acc : list byte) : list byte * ptr * bool :=
  match fuel with
  | O => (acc, p, false)
  | S fuel' =>
    if Nat.eqb n 0 then (acc, p, false) else
    let '(d, p', eof) := fn_read fn n p in
    if eof then (acc ++ d, p', true) else fn_read_loop fuel' fn (n - List.length d) p' (acc ++ d)
  end.
Definition fn_read_full (fn : fnode) (n : nat) (p : ptr) : list byte * ptr * bool := fn_read_loop (S n) fn n p [].

Definition Conc (mb : nat) : FileImpl :=
  {| F := fnode; P := ptr; f_empty := f_new; f_size := size;
     f_read := fn_read_full; f_write := fn_write mb; f_trunc := fn_truncate mb;
     p_zero := c_pzero; p_off := off; p_set := c_pset; p_eof := c_peof |}.

(* ---- specification: a plain byte array per file ---- *)
Definition zeros (n : nat) : list byte := repeat 0 n.
Definition s_read (f : list byte) (n : nat) (p : nat) : list byte * nat * bool :=
  let d := firstn n (skipn p f) in (d, p + List.length d, (List.length f - p) <? n).
Definition s_write (f : list byte) (p : nat) (d : list byte) : list byte * nat :=
  let f1 := f ++ zeros (p - List.length f) in
  (firstn p f1 ++ d ++ skipn (p + List.length d) f1, p + List.length d).
Definition s_trunc (f : list byte) (n : nat) : list byte := firstn n f ++ zeros (n - List.length f).

Definition Spec : FileImpl :=
  {| F := list byte; P := nat; f_empty := []; f_size := @List.length byte;
     f_read := s_read; f_write := s_write; f_trunc := s_trunc;
     p_zero := 0; p_off := fun p => p; p_set := fun _ o => o; p_eof := @List.length byte |}.
