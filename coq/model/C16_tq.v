(* C16 — the scheduler behind the real container queue: what runQueue must order by.  Between two polls the
   queue's cache is refreshed by the API server's answers to the dispatcher's own lock / unlock / cancel
   requests (container/queue.go: updateWithResp copies State, Priority and LockedByUUID from the response).
   [told polled resps] is the queue snapshot "as the API server last told this dispatcher": the records of
   the last poll, overridden per container by the later responses, in order.  The runQueue pass that follows
   is judged against that snapshot with the specification and the model of model/C16_runq_run.v.
   Definitions only; proofs in proofs/C16_tq.v. *)
From Coq Require Import List ZArith Bool NArith.
From AV Require Import model.C16_runq model.C16_runq_run.
Import ListNotations.
Local Open Scope Z_scope.

(* the container record in the response to lock / unlock / cancel: uuid, state, priority *)
Record resp := mkresp { rs_uuid : N; rs_state : cstate; rs_prio : Z }.

Definition apply_resp (ents : list ent) (r : resp) : list ent :=
  map (fun e => if N.eqb (e_uuid e) (rs_uuid r) then mkent (e_uuid e) (rs_state r) (rs_prio r) (e_it e) else e) ents.

Definition told (polled : list ent) (resps : list resp) : list ent := fold_left apply_resp resps polled.

Record case := mktq {
  t_polled : list ent;      (* the records the API server returned to the last poll (with the type chosen for each) *)
  t_resps : list resp;      (* its answers to the lock / unlock / cancel requests made since, in order *)
  t_running : list N;       (* keys of pool.Running() *)
  t_unalloc : umap;         (* pool.Unallocated() *)
  t_pool : stub;            (* scripted answers of the stub pool *)
  to_log : list ev;         (* the runQueue pass that follows: ordered pool calls and unlock requests *)
  to_locks : list N;        (* lock requests (a set) *)
  to_shut : list N          (* pool.Shutdown calls (a set) *)
}.

Definition to_rq (c : case) : C16_runq_run.case :=
  mkrq (told (t_polled c) (t_resps c)) (t_running c) (t_unalloc c) (t_pool c) (to_log c) (to_locks c) (to_shut c).

Definition spec_b (c : case) : bool := C16_runq_run.spec_b (to_rq c).
Definition model_b (c : case) : bool := C16_runq_run.model_b (to_rq c).
Definition check_case (c : case) : N :=
  ((if model_b c then 0 else 1) + (if spec_b c then 0 else 2))%N.
Fixpoint failing_from (i : N) (cs : list case) : list (N * N) :=
  match cs with
  | [] => []
  | c :: r => let k := check_case c in
              if N.eqb k 0 then failing_from (N.succ i) r else (i, k) :: failing_from (N.succ i) r
  end.
Definition failing (cs : list case) : list (N * N) := failing_from 0%N cs.

Definition RS (u st : N) (p : Z) : resp :=
  mkresp u (match st with 0 => Queued | 1 => Locked | 2 => Running | 3 => Complete | 4 => Cancelled | _ => OtherState end%N) p.
