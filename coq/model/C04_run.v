(* C04 (H) — evaluator for generated history cases.
   A case = configuration, the volumes (read-only flag, mount uuid, planted blocks) in volume-manager
   order, and a history of steps; every step carries the clock window [s_lo, s_hi] measured by the
   harness around the request, the clock value s_now inside that window that the implementation read
   (recovered from the mtime / trash deadline it wrote, else s_lo), the status, and the listing of
   every volume afterwards (all times virtual: real clock + the offset by which the harness has
   shifted every file time backwards to let time pass).
   [spec_b] judges the observations only; [model_b] compares with model/C04_model.v. *)
From Coq Require Import ZArith NArith List String Bool.
From AV Require Import lib.Str model.C04_model.
Import ListNotations.
Local Open Scope Z_scope.

Definition listing := (list blk * list tr)%type.

Record sobs := {
  s_lo : Z; s_now : Z; s_hi : Z;
  s_op : op;
  s_code : N;
  s_after : list listing
}.

Record case := {
  c_cfg : cfg;
  c_ro : list bool;
  c_uuid : list string;
  c_init : list listing;
  c_steps : list sobs
}.

(* ---- set-like comparison of listings ---- *)
Definition blk_eqb (a b : blk) : bool := String.eqb (b_hash a) (b_hash b) && (b_mtime a =? b_mtime b).
Definition tr_eqb (a b : tr) : bool :=
  String.eqb (t_hash a) (t_hash b) && (t_dead a =? t_dead b) && (t_mtime a =? t_mtime b).
Definition subset {A} (eqb : A -> A -> bool) (a b : list A) : bool := forallb (fun x => existsb (eqb x) b) a.
Definition seteq {A} (eqb : A -> A -> bool) (a b : list A) : bool :=
  subset eqb a b && subset eqb b a && Nat.eqb (List.length a) (List.length b).
Definition listing_eqb (a b : listing) : bool := seteq blk_eqb (fst a) (fst b) && seteq tr_eqb (snd a) (snd b).
Fixpoint listings_eqb (a b : list listing) : bool :=
  match a, b with
  | [], [] => true
  | x :: r, y :: r' => listing_eqb x y && listings_eqb r r'
  | _, _ => false
  end.

Definition ok2 (code : N) : bool := (code / 100 =? 2)%N.

(* ------------------------------------------------------------------ *)
(* per-step clauses, judged on (listing before, step, listing after) of one volume *)

Definition l_has_block (l : listing) (h : string) : bool :=
  match find_block (fst l) h with Some _ => true | None => false end.
Definition l_has_trash (l : listing) (h : string) : bool := existsb (fun t => String.eqb (t_hash t) h) (snd l).
Definition l_has_trash_key (l : listing) (h : string) (d : Z) : bool := existsb (same_trash h d) (snd l).

(* does the operation ask for (h, stored mtime m) to be trashed on the volume with this uuid? *)
Definition asks_trash (c : cfg) (o : op) (now : Z) (uuid h : string) (m : Z) : bool :=
  match o with
  | Delete h' => String.eqb h' h
  | TrashList its =>
      existsb (fun it => String.eqb (i_hash it) h && (i_mtime it =? m) &&
                         (String.eqb (i_mount it) "" || String.eqb (i_mount it) uuid) &&
                         (ttl c <=? now - i_mtime it)) its
  | _ => false
  end.

(* a block file that disappears: only by a matching trash request, on a writable volume, with
   trashing enabled, when it is at least ttl old; with a non-zero lifetime it must reappear in the
   trash under a whole-second deadline inside the window (lo+life)/1e9 .. (hi+life)/1e9 *)
Definition removed_ok (c : cfg) (ro : bool) (uuid : string) (st : sobs) (before after : listing) (b : blk) : bool :=
  l_has_block after (b_hash b) ||
  (negb ro && blob_trash c && (ttl c <=? s_now st - b_mtime b) &&
   asks_trash c (s_op st) (s_now st) uuid (b_hash b) (b_mtime b) &&
   ((life c =? 0) ||
    existsb (fun t => String.eqb (t_hash t) (b_hash b) && (t_mtime t =? b_mtime b) &&
                      ((s_lo st + life c) / NS <=? t_dead t) && (t_dead t <=? (s_hi st + life c) / NS)) (snd after))).

(* a trashed copy that disappears: only by an empty-trash sweep after its deadline, or by untrash *)
Definition untrashed_ok (ro : bool) (st : sobs) (after : listing) (t : tr) : bool :=
  l_has_trash_key after (t_hash t) (t_dead t) ||
  (negb ro &&
   match s_op st with
   | EmptyTrash => t_dead t <=? s_hi st / NS
   | Untrash h => String.eqb h (t_hash t)
   | _ => false
   end).

(* a trashed copy that appears: it is a block that was just removed (same hash and mtime) *)
Definition newtrash_ok (before after : listing) (t : tr) : bool :=
  l_has_trash_key before (t_hash t) (t_dead t) ||
  (existsb (fun b => String.eqb (b_hash b) (t_hash t) && (b_mtime b =? t_mtime t)) (fst before) &&
   negb (l_has_block after (t_hash t))).

(* a block's mtime changes only by Put/Touch of that hash (to a value inside the window) or by Untrash;
   a block appears only by Put or Untrash of that hash *)
Definition block_after_ok (ro : bool) (st : sobs) (before : listing) (b : blk) : bool :=
  existsb (blk_eqb b) (fst before) ||
  (negb ro &&
   match s_op st with
   | Put h => String.eqb h (b_hash b) && (s_lo st <=? b_mtime b) && (b_mtime b <=? s_hi st)
   | Touch h => String.eqb h (b_hash b) && l_has_block before h && (s_lo st <=? b_mtime b) && (b_mtime b <=? s_hi st)
   | Untrash h => String.eqb h (b_hash b) &&
                  existsb (fun t => String.eqb (t_hash t) h && (t_mtime t =? b_mtime b)) (snd before)
   | _ => false
   end).

Definition vol_step_ok (c : cfg) (ro : bool) (uuid : string) (st : sobs) (before after : listing) : bool :=
  (negb ro || listing_eqb before after) &&                             (* read-only volumes never change *)
  forallb (removed_ok c ro uuid st before after) (fst before) &&
  forallb (untrashed_ok ro st after) (snd before) &&
  forallb (newtrash_ok before after) (snd after) &&
  forallb (block_after_ok ro st before) (fst after).

Fixpoint vols_step_ok (c : cfg) (ros : list bool) (uuids : list string) (st : sobs) (before after : list listing) : bool :=
  match ros, uuids, before, after with
  | [], [], [], [] => true
  | ro :: ros', u :: uuids', b :: before', a :: after' =>
      vol_step_ok c ro u st b a && vols_step_ok c ros' uuids' st before' after'
  | _, _, _, _ => false
  end.

(* untrash brings a trashed copy back wherever one exists on a writable volume *)
Fixpoint untrash_ok_vols (ros : list bool) (h : string) (before after : list listing) : bool :=
  match ros, before, after with
  | ro :: ros', b :: before', a :: after' =>
      (ro || negb (l_has_trash b h) || l_has_block a h) && untrash_ok_vols ros' h before' after'
  | _, _, _ => true
  end.
Fixpoint any_trash_writable (ros : list bool) (h : string) (before : list listing) : bool :=
  match ros, before with
  | ro :: ros', b :: before' => (negb ro && l_has_trash b h) || any_trash_writable ros' h before'
  | _, _ => false
  end.
Definition untrash_ok (ros : list bool) (st : sobs) (before : list listing) : bool :=
  match s_op st with
  | Untrash h => untrash_ok_vols ros h before (s_after st) &&
                 (negb (any_trash_writable ros h before) || ok2 (s_code st))
  | _ => true
  end.

Fixpoint steps_ok (c : cfg) (ros : list bool) (uuids : list string) (before : list listing) (sts : list sobs) : bool :=
  match sts with
  | [] => true
  | st :: r => vols_step_ok c ros uuids st before (s_after st) && untrash_ok ros st before &&
               steps_ok c ros uuids (s_after st) r
  end.

(* ---- fresh_survives over the whole history ---- *)
(* after an acknowledged Put/Touch of h at time t: at every later point with now < t + ttl some volume
   still holds the block file h (the model theorem is stronger: with mtime >= t).
   [excl_untrash] = true stops looking at an Untrash of h: only used to state the old finding F20
   (before /repo fa470fa Untrash renamed an older trashed copy over the fresh one); spec_b uses false. *)
Definition fresh_at (h : string) (t : Z) (ls : list listing) : bool :=
  existsb (fun l => l_has_block l h) ls.
Fixpoint fresh_later (c : cfg) (excl_untrash : bool) (h : string) (t : Z) (sts : list sobs) : bool :=
  match sts with
  | [] => true
  | st :: r =>
    if excl_untrash && match s_op st with Untrash h' => String.eqb h' h | _ => false end then true
    else ((t + ttl c <=? s_now st) || fresh_at h t (s_after st)) && fresh_later c excl_untrash h t r
  end.
Fixpoint fresh_ok (c : cfg) (excl_untrash : bool) (sts : list sobs) : bool :=
  match sts with
  | [] => true
  | st :: r =>
    (match s_op st with
     | Put h | Touch h =>
        negb (ok2 (s_code st)) || (fresh_at h (s_now st) (s_after st) && fresh_later c excl_untrash h (s_now st) r)
     | _ => true
     end) && fresh_ok c excl_untrash r
  end.

(* clock readings are non-decreasing and inside their windows *)
Fixpoint clock_ok (prev : Z) (sts : list sobs) : bool :=
  match sts with
  | [] => true
  | st :: r => (prev <=? s_now st) && (s_lo st <=? s_now st) && (s_now st <=? s_hi st) && clock_ok (s_now st) r
  end.

Definition spec_nofresh_b (c : case) : bool :=
  steps_ok (c_cfg c) (c_ro c) (c_uuid c) (c_init c) (c_steps c).
Definition spec_b (c : case) : bool := spec_nofresh_b c && fresh_ok (c_cfg c) false (c_steps c).
(* ---- model = observation ---- *)
Fixpoint mk_vols (ros : list bool) (uuids : list string) (ls : list listing) : list vol :=
  match ros, uuids, ls with
  | ro :: ros', u :: uuids', l :: ls' =>
      {| v_ro := ro; v_uuid := u; v_blocks := fst l; v_trash := snd l |} :: mk_vols ros' uuids' ls'
  | _, _, _ => []
  end.
Definition listing_of (v : vol) : listing := (v_blocks v, v_trash v).

Fixpoint model_steps (c : cfg) (s : state) (sts : list sobs) : bool :=
  match sts with
  | [] => true
  | st :: r =>
    let '(code, s') := step c s (s_now st) (s_op st) in
    (code / 100 =? s_code st / 100)%N && listings_eqb (map listing_of (vols s')) (s_after st) &&
    model_steps c s' r
  end.

Definition model_b (c : case) : bool :=
  clock_ok 0 (c_steps c) &&
  model_steps (c_cfg c) {| vols := mk_vols (c_ro c) (c_uuid c) (c_init c); counter := 0 |} (c_steps c).

Definition check_case (c : case) : N :=
  ((if model_b c then 0 else 1) +
   (if spec_b c then 0 else 2))%N.

Fixpoint failing_from (i : N) (cs : list case) : list (N * N) :=
  match cs with
  | [] => []
  | c :: r => let k := check_case c in
              if (k =? 0)%N then failing_from (N.succ i) r else (i, k) :: failing_from (N.succ i) r
  end.
Definition failing (cs : list case) : list (N * N) := failing_from 0%N cs.

(* short constructors for generated files *)
Definition B (h : string) (m : Z) : blk := {| b_hash := h; b_mtime := m |}.
Definition T (h : string) (d m : Z) : tr := {| t_hash := h; t_dead := d; t_mtime := m |}.
Definition It (h : string) (m : Z) (mount : string) : item := {| i_hash := h; i_mtime := m; i_mount := mount |}.
Definition St (lo now hi : Z) (o : op) (code : N) (after : list listing) : sobs :=
  {| s_lo := lo; s_now := now; s_hi := hi; s_op := o; s_code := code; s_after := after |}.

(* compact input format of the generated files (parsing dominates the evaluation time): the clock
   value and the end of the window are given as offsets from the start of the window, and a listing
   that is identical to the previous one is written None *)
Record rawstep := { w_lo : Z; w_dnow : Z; w_dhi : Z; w_op : op; w_code : N; w_after : option (list listing) }.
Definition Sr (lo dnow dhi : Z) (o : op) (code : N) (after : option (list listing)) : rawstep :=
  {| w_lo := lo; w_dnow := dnow; w_dhi := dhi; w_op := o; w_code := code; w_after := after |}.
Fixpoint expand (prev : list listing) (rs : list rawstep) : list sobs :=
  match rs with
  | [] => []
  | r :: rest =>
    let after := match w_after r with Some a => a | None => prev end in
    St (w_lo r) (w_lo r + w_dnow r) (w_lo r + w_dhi r) (w_op r) (w_code r) after :: expand after rest
  end.
