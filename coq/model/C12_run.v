(* C12 — evaluator for generated case files: compares the model with what the real code returned and
   judges the observed behaviour with the boolean specification (proved to reflect the Prop-level
   statement in proofs/C12_proofs.v). *)
From Coq Require Import NArith List Ascii String Bool.
From AV Require Import lib.Str lib.Md5 lib.SortPerm model.KC_discover model.C12_model.
Import ListNotations.
Local Open Scope string_scope.

Record case := {
  c_hash : string;                 (* 32 hex digits *)
  c_lists : list (list dsvc);      (* discovery stratum: the keep_services lists the client was given, one after the
                                      other (LoadKeepServicesFromJSON); [] = the roots were set with SetServiceRoots.
                                      With lists, c_local / c_writable / c_gw are what kc.LocalRoots(),
                                      kc.WritableLocalRoots() and kc.GatewayRoots() returned after the last load *)
  c_local : list svc;              (* local services in the order Go's map iteration produced them *)
  c_writable : list bool;          (* per local service: offered for writes *)
  c_keep : list bool;              (* per local service: kept in the "one service removed/added" variant *)
  c_gw : list svc;                 (* gateway services *)
  c_loc : string;                  (* locator: hash ++ hints *)
  o_sorted : list string;          (* NewRootSorter(local, hash).GetSortedRoots() *)
  o_bal : list string;             (* NewRootSorter(uuid->uuid, hash): the balancer's rank order *)
  o_sub : list string;             (* sorter output for the kept subset *)
  o_get : list string;             (* getSortedRoots(locator) *)
  o_getreq : list string;          (* hosts probed, in order, by a read that misses everywhere *)
  o_putreq : list string           (* hosts written to, in order, by a write refused everywhere *)
}.

Fixpoint mask {A} (m : list bool) (l : list A) : list A :=
  match m, l with
  | b :: m', x :: l' => if b then x :: mask m' l' else mask m' l'
  | _, _ => []
  end.

Definition list_str_eqb (a b : list string) : bool :=
  Nat.eqb (List.length a) (List.length b) && forallb (fun p => String.eqb (fst p) (snd p)) (combine a b).

Fixpoint nodupb (l : list string) : bool :=
  match l with [] => true | x :: r => negb (existsb (String.eqb x) r) && nodupb r end.

(* weights pairwise distinct: only then is the order determined *)
Definition distinct_b (h : string) (svcs : list svc) : bool := nodupb (map (wkey h) svcs).

Fixpoint find_root (svcs : list svc) (r : string) : option svc :=
  match svcs with [] => None | s :: t => if String.eqb (root s) r then Some s else find_root t r end.

Fixpoint count (x : string) (l : list string) : nat :=
  match l with [] => O | y :: r => (if String.eqb x y then 1 else 0) + count x r end.
Definition perm_b (a b : list string) : bool :=
  forallb (fun x => Nat.eqb (count x a) (count x b)) (a ++ b).

(* descending, ties allowed *)
Fixpoint desc_b (ws : list string) : bool :=
  match ws with
  | a :: ((b :: _) as r) => negb (str_ltb a b) && desc_b r
  | _ => true
  end.

(* Weights are computed once per case (MD5 is the expensive part) and looked up by uuid; the proofs
   file shows that sorting with the table equals the model's [sorted] (lemma sorted_t_eq). *)
Definition wtab := list (string * string).
Definition mk_wtab (h : string) (svcs : list svc) : wtab := map (fun s => (uuid s, weight h (uuid s))) svcs.
Fixpoint wlook (t : wtab) (u : string) : string :=
  match t with [] => "" | (k, w) :: r => if String.eqb k u then w else wlook r u end.
Definition sorted_t (t : wtab) (svcs : list svc) : list svc := sort svc string (fun s => wlook t (uuid s)) str_ltb svcs.

(* out (a list of roots) is an arrangement of svcs' roots with non-increasing weights *)
Definition order_ok_b (t : wtab) (svcs : list svc) (out : list string) : bool :=
  perm_b out (map root svcs) &&
  desc_b (map (fun r => match find_root svcs r with Some s => wlook t (uuid s) | None => "" end) out).

Definition bal_svcs (svcs : list svc) := map (fun s => {| uuid := uuid s; root := uuid s |}) svcs.
Definition in_roots (svcs : list svc) (r : string) : bool := existsb (String.eqb r) (map root svcs).

(* a uuid -> root map of the client as pairs *)
Definition pairs_of (l : list svc) : smap := map (fun s => (uuid s, root s)) l.

(* discovery stratum: the maps the client ended up with satisfy the roots specification of the last list
   (model/KC_discover.v: local = the listed services, writable = those not read-only, gateway has every listed
   service — so a +K@uuid hint naming any listed service is usable) *)
Definition disc_spec_b (c : case) : bool :=
  match c_lists c with
  | [] => true
  | ls => roots_spec_b (current_list ls) (pairs_of (c_local c)) (pairs_of (mask (c_writable c) (c_local c))) (pairs_of (c_gw c))
  end.
Definition disc_model_b (c : case) : bool :=
  match c_lists c with
  | [] => true
  | ls => let m := k_roots (load_all kstate0 ls) in
          smap_eqb (pairs_of (c_local c)) (r_local m) &&
          smap_eqb (pairs_of (mask (c_writable c) (c_local c))) (r_writable m) &&
          smap_eqb (pairs_of (c_gw c)) (r_gateway m)
  end.

Definition order_spec_b (c : case) : bool :=
  let t := mk_wtab (c_hash c) (c_local c) in
  let distinct := nodupb (map snd t) in
  let hints := hint_roots (c_gw c) (c_loc c) in
  let nh := List.length hints in
  order_ok_b t (c_local c) (o_sorted c) &&
  order_ok_b t (bal_svcs (c_local c)) (o_bal c) &&
  order_ok_b t (mask (c_keep c) (c_local c)) (o_sub c) &&
  order_ok_b t (mask (c_writable c) (c_local c)) (o_putreq c) &&
  (* balancer ranks like the client; removing services does not reorder; writers see the reader's order *)
  (negb distinct ||
     (list_str_eqb (o_bal c)
        (map (fun r => match find_root (c_local c) r with Some s => uuid s | None => "" end) (o_sorted c)) &&
      list_str_eqb (o_sub c) (filter (in_roots (mask (c_keep c) (c_local c))) (o_sorted c)) &&
      list_str_eqb (o_putreq c) (filter (in_roots (mask (c_writable c) (c_local c))) (o_sorted c)) &&
      list_str_eqb (o_getreq c) (o_get c))) &&
  (* usable hints first, then the rendezvous order; reads probe in such an order *)
  list_str_eqb (firstn nh (o_get c)) hints &&
  order_ok_b t (c_local c) (skipn nh (o_get c)) &&
  list_str_eqb (firstn nh (o_getreq c)) hints &&
  order_ok_b t (c_local c) (skipn nh (o_getreq c)).

Definition spec_b (c : case) : bool := disc_spec_b c && order_spec_b c.

Definition order_model_b (c : case) : bool :=
  let t := mk_wtab (c_hash c) (c_local c) in
  let distinct := nodupb (map snd t) in
  let hints := hint_roots (c_gw c) (c_loc c) in
  let m_sorted := map root (sorted_t t (c_local c)) in
  negb distinct ||
  (list_str_eqb (o_sorted c) m_sorted &&
   list_str_eqb (o_bal c) (map root (sorted_t t (bal_svcs (c_local c)))) &&
   list_str_eqb (o_sub c) (map root (sorted_t t (mask (c_keep c) (c_local c)))) &&
   list_str_eqb (o_get c) (hints ++ m_sorted) &&
   list_str_eqb (o_getreq c) (hints ++ m_sorted) &&
   list_str_eqb (o_putreq c) (map root (sorted_t t (mask (c_writable c) (c_local c))))).

Definition model_b (c : case) : bool := disc_model_b c && order_model_b c.

(* result code per case: 0 ok; +1 model/implementation mismatch; +2 observed behaviour violates the spec *)
Definition check_case (c : case) : N :=
  ((if model_b c then 0 else 1) + (if spec_b c then 0 else 2))%N.

Fixpoint failing_from (i : N) (cs : list case) : list (N * N) :=
  match cs with
  | [] => []
  | c :: r => let k := check_case c in
              if N.eqb k 0 then failing_from (N.succ i) r else (i, k) :: failing_from (N.succ i) r
  end.
Definition failing (cs : list case) : list (N * N) := failing_from 0%N cs.
Definition S (u r : string) : svc := {| uuid := u; root := r |}.
