(* C10 — model of the Go manifest package, /repo/sdk/go/manifest/manifest.go:
     gm_escape / gm_unescape      EscapeName / UnescapeName
     gm_parse_stream              parseManifestStream (+ ParseBlockLocator, parseFileStreamSegment)
     send_segs                    ManifestStream.sendFileSegmentIterByName (firstBlock + scan are in C10_ranges.v)
     gm_segment                   Manifest.segment
     normalized_text              segmentedStream.normalizedText
     text_for_path, gm_extract    segmentedManifest.manifestTextForPath, Manifest.Extract
     path_clean, fix_stream_name, split_path     path.Clean, fixStreamName, splitPath
   Outcomes are explicit: Ok / Err / Panic.  A panic happens in a goroutine of the real code, i.e. it kills the
   process.  Streams whose block sizes sum to >= 2^63 are reported as Unmodelled (uint64/int arithmetic on them is
   not transcribed). *)
From Coq Require Import NArith List Ascii String Bool.
From AV Require Import lib.Str model.C10_manifest model.C10_ranges model.C10_fs.
Import ListNotations.
Local Open Scope string_scope.

Definition gm_must_escape (a : ascii) : bool := (cn a <=? 32)%N || Ascii.eqb a c_bs.   (* c <= 32 || c == '\\' *)
Definition gm_escape : string -> string := escape_with gm_must_escape.
Definition gm_unescape : string -> string := unescape_with is_digit.                    (* \\([0-9]{3}|\\) *)

(* ---------- path.Clean, fixStreamName, splitPath ---------- *)
Definition clean_step (rooted : bool) (stack : list string) (c : string) : list string :=   (* stack: top first *)
  if String.eqb c "" || String.eqb c "." then stack
  else if String.eqb c ".." then
    match stack with
    | top :: rest => if String.eqb top ".." then ".." :: stack else rest
    | [] => if rooted then [] else [".."]
    end
  else c :: stack.
Definition path_clean (p : string) : string :=
  match p with
  | EmptyString => "."
  | String a _ =>
      let rooted := Ascii.eqb a c_slash in
      let body := join "/" (rev (fold_left (clean_step rooted) (split_on c_slash p) [])) in
      if rooted then "/" ++ body else if String.eqb body "" then "." else body
  end.
Definition fix_stream_name (sn : string) : string :=
  let c := path_clean sn in
  if has_prefix "/" c then "." ++ c else if String.eqb c "." then c else "./" ++ c.
Fixpoint has_suffix_slash (s : string) : bool :=
  match s with EmptyString => false | String a EmptyString => Ascii.eqb a c_slash | String _ r => has_suffix_slash r end.
Definition drop_last (s : string) : string := take (String.length s - 1) s.
(* strings.LastIndex(srcpath, "/") *)
Definition split_path (p : string) : string * string :=
  match rev (split_on c_slash p) with
  | [] => (p, "")
  | [_] => (p, "")
  | f :: r => (join "/" (rev r), f)
  end.

(* ---------- parseManifestStream ---------- *)
Definition parse_uint64 (s : string) : option N :=
  if all_digits s then let v := dec_val s in if (v <? 2 ^ 64)%N then Some v else None else None.
Record gstream := { g_name : string; g_blocks : list string; g_fts : list (N * N * string) }.
Definition g_sizes (s : gstream) : list N := sizes_of (g_blocks s).
Inductive gparse := GpOk (s : gstream) | GpErr | GpUnmodelled.

Fixpoint span_go_locators (toks : list string) : list string * list string :=
  match toks with
  | [] => ([], [])
  | t :: r => if go_locator t then let '(a, b) := span_go_locators r in (t :: a, b) else ([], toks)
  end.
Definition gm_parse_ftok (tok : string) : option (N * N * string) :=
  match splitn3 c_colon tok with
  | [p; n; nm] => match parse_uint64 p, parse_uint64 n with
                  | Some p', Some n' => Some (p', n', gm_unescape nm)
                  | _, _ => None
                  end
  | _ => None
  end.
Definition gm_parse_stream (line : string) : gparse :=
  match split_on c_sp line with
  | [] => GpErr
  | t0 :: rest =>
      let name := gm_unescape t0 in
      if negb (String.eqb name "." || has_prefix "./" name) then GpErr
      else
        let '(blocks, ftoks) := span_go_locators rest in
        match blocks with
        | [] => GpErr
        | _ =>
            if negb (forallb (fun b => (loc_size b <? 2 ^ 63)%N) blocks) then GpErr      (* ParseInt(size, 10, 0) *)
            else if negb (small_total (sizes_of blocks)) then GpUnmodelled
            else match ftoks with
                 | [] => GpErr
                 | _ => match map_opt gm_parse_ftok ftoks with
                        | None => GpErr
                        | Some fts =>
                            if forallb (fun '(p, n, _) => go_range_ok (sizes_of blocks) p n) fts
                            then GpOk {| g_name := name; g_blocks := blocks; g_fts := fts |}
                            else GpErr
                        end
                 end
        end
  end.
(* StreamIter: only non-blank lines are parsed *)
Definition gm_lines (txt : string) : list string := filter (fun l => negb (String.eqb l "")) (split_on c_nl txt).

(* ---------- sendFileSegmentIterByName ---------- *)
Definition empty_seg : seg := (empty_block, 0%N, 0%N).
Fixpoint send_fts (s : gstream) (target : string) (fts : list (N * N * string)) : option (list seg) :=   (* None = panic *)
  match fts with
  | [] => Some []
  | (p, n, nm) :: r =>
      if negb (String.eqb (g_name s ++ "/" ++ nm) target) then send_fts s target r
      else
        let here :=
          if (n =? 0)%N then Some [empty_seg]
          else match go_map (g_sizes s) p n with
               | GSegs l => Some (name_segs (g_blocks s) l)
               | GPanic => None
               end in
        match here, send_fts s target r with
        | Some a, Some b => Some (a ++ b)%list
        | _, _ => None
        end
  end.
Definition send_segs (s : gstream) (filepath : string) : option (list seg) :=
  send_fts s (fix_stream_name filepath) (g_fts s).

(* ---------- segment() ---------- *)
Definition sfiles := list (string * list seg).                 (* filename -> segments *)
Definition smanifest := list (string * sfiles).                (* streamname -> files *)
Fixpoint assoc_get {A} (k : string) (l : list (string * A)) : option A :=
  match l with [] => None | (k', v) :: r => if String.eqb k k' then Some v else assoc_get k r end.
Fixpoint assoc_set {A} (k : string) (v : A) (l : list (string * A)) : list (string * A) :=
  match l with
  | [] => [(k, v)]
  | (k', v') :: r => if String.eqb k k' then (k, v) :: r else (k', v') :: assoc_set k v r
  end.
Definition seg_nonempty (sg : seg) : bool := let '(_, _, n) := sg in (0 <? n)%N.

Inductive outcome (A : Type) := Ok (a : A) | Err | Panic | Unmodelled.
Arguments Ok {A} a. Arguments Err {A}. Arguments Panic {A}. Arguments Unmodelled {A}.

(* the loop over stream.FileStreamSegments; seen = currentStreamfiles *)
Fixpoint segment_fts (s : gstream) (sn : string) (fts : list (N * N * string)) (seen : list string)
         (files : smanifest) : option smanifest :=
  match fts with
  | [] => Some files
  | (_, _, nm) :: r =>
      let path := sn ++ "/" ++ nm in
      let '(streamname, filename) := split_path path in
      let sf := match assoc_get streamname files with Some sf => sf | None => [] end in
      if mem_str path seen then segment_fts s sn r seen (assoc_set streamname sf files)
      else match send_segs s path with
           | None => None
           | Some sent =>
               let old := match assoc_get filename sf with Some l => l | None => [] end in
               let sf' := assoc_set filename (old ++ filter seg_nonempty sent)%list sf in
               segment_fts s sn r (path :: seen) (assoc_set streamname sf' files)
           end
  end.
Fixpoint segment_lines (ls : list string) (files : smanifest) : outcome smanifest :=
  match ls with
  | [] => Ok files
  | l :: r =>
      match gm_parse_stream l with
      | GpErr => Err
      | GpUnmodelled => Unmodelled
      | GpOk s =>
          let sn := if has_suffix_slash (g_name s) then drop_last (g_name s) else g_name s in
          match segment_fts s sn (g_fts s) [] files with
          | None => Panic
          | Some files' => segment_lines r files'
          end
      end
  end.
Definition gm_segment (txt : string) : outcome smanifest := segment_lines (gm_lines txt) [].

(* ---------- normalizedText ---------- *)
Definition lower_char (a : ascii) : ascii := if in_range 65 90 a then ascii_of_N (cn a + 32) else a.
Fixpoint lower (s : string) : string := match s with EmptyString => "" | String a r => String (lower_char a) (lower r) end.
Definition digest_key (loc : string) : string := lower (take 32 loc).      (* blockdigest.BlockDigest as map key *)

(* first pass: each referenced block once *)
Definition nt_block (st : list string * list (string * N) * N) (sg : seg) : list string * list (string * N) * N :=
  let '(toks, blocks, off) := st in
  let '(loc, _, _) := sg in
  match assoc_get (digest_key loc) blocks with
  | Some _ => st
  | None => ((toks ++ [loc])%list, (blocks ++ [(digest_key loc, off)])%list, (off + loc_size loc)%N)
  end.
Definition span_token (a b : N) (fout : string) : string := dec a ++ ":" ++ dec (b - a) ++ ":" ++ fout.
(* second pass for one file: span = (start, end) *)
Definition nt_seg (blocks : list (string * N)) (fout : string) (st : list string * option (N * N)) (sg : seg)
  : list string * option (N * N) :=
  let '(toks, span) := st in
  let '(loc, o, n) := sg in
  let so := (match assoc_get (digest_key loc) blocks with Some b => b | None => 0%N end + o)%N in
  match span with
  | None => (toks, Some (so, (so + n)%N))
  | Some (a, b) =>
      if (so =? b)%N then (toks, Some (a, (b + n)%N))
      else ((toks ++ [span_token a b fout])%list, Some (so, (so + n)%N))
  end.
Definition nt_file (blocks : list (string * N)) (toks : list string) (f : string * list seg) : list string :=
  let fout := gm_escape (fst f) in
  let '(toks1, span) := fold_left (nt_seg blocks fout) (snd f) (toks, None) in
  let toks2 := match span with
               | Some (a, b) => (toks1 ++ [span_token a b fout])%list
               | None => toks1
               end in
  match snd f with [] => (toks2 ++ [("0:0:" ++ fout)%string])%list | _ => toks2 end.
Definition sorted_files (sf : sfiles) : sfiles :=
  map (fun k => (k, match assoc_get k sf with Some l => l | None => [] end)) (sort_strs (map fst sf)).
Definition normalized_text (name : string) (sf : sfiles) : string :=
  let files := sorted_files sf in
  let '(toks, blocks, _) := fold_left nt_block (flat_map snd files) ([gm_escape name], [], 0%N) in
  let toks1 := match toks with [_] => (toks ++ [empty_block])%list | _ => toks end in
  join " " (fold_left (nt_file blocks) files toks1) ++ s_nl.

(* ---------- manifestTextForPath / Extract ---------- *)
Definition text_for_path (m : smanifest) (srcpath relocate : string) : string :=
  let srcpath := fix_stream_name srcpath in
  let suffix := if has_suffix_slash relocate then "/" else "" in
  let relocate := fix_stream_name relocate ++ suffix in
  let '(streamname, filename) := split_path srcpath in
  let single :=
    match assoc_get streamname m with
    | Some sf => match assoc_get filename sf with
                 | Some segs =>
                     let '(rs, rf) := split_path relocate in
                     let rf' := if String.eqb rf "" then filename else rf in
                     Some (normalized_text rs [(rf', segs)])
                 | None => None
                 end
    | None => None
    end in
  match single with
  | Some t => t
  | None =>
      let prefix := srcpath ++ "/" in
      let relocate := if has_suffix_slash relocate then drop_last relocate else relocate in
      sconcat (map (fun k =>
                 if has_prefix prefix k || String.eqb k srcpath then
                   normalized_text (relocate ++ drop (String.length srcpath) k)
                                   (match assoc_get k m with Some sf => sf | None => [] end)
                 else "")
               (sort_strs (map fst m)))
  end.
Definition gm_extract (txt srcpath relocate : string) : outcome string :=
  match gm_segment txt with
  | Ok m => Ok (text_for_path m srcpath relocate)
  | Err => Err | Panic => Panic | Unmodelled => Unmodelled
  end.

(* what StreamIter + ManifestStream.FileSegmentIterByName deliver: for every stream without Err, in order, for
   every file token name, the segments sent for StreamName/name (zero-length marker segments included). *)
Fixpoint iter_lines (ls : list string) : outcome (list (string * list seg)) :=
  match ls with
  | [] => Ok []
  | l :: r =>
      match gm_parse_stream l with
      | GpUnmodelled => Unmodelled
      | GpErr => iter_lines r
      | GpOk s =>
          let paths := map (fun '(_, _, nm) => g_name s ++ "/" ++ nm) (g_fts s) in
          match map_opt (fun p => match send_segs s p with Some l => Some (p, l) | None => None end) paths, iter_lines r with
          | None, _ => Panic
          | Some a, Ok b => Ok (a ++ b)%list
          | Some _, e => e
          end
      end
  end.
Definition gm_iter (txt : string) : outcome (list (string * list seg)) := iter_lines (gm_lines txt).

(* ---------- Manifest.BlockIterWithDuplicates ----------
   For every stream in text order: a stream with Err sets m.Err and delivers nothing; otherwise each block token is
   delivered as blockdigest.ParseBlockLocator reads it: digest (printed by BlockDigest.String: 32 lower-case hex
   digits), size, hints joined by "+".  The second component of the result is "m.Err != nil after the channel is
   closed"; [err] is the value of that flag before the line is processed: it is only ever SET.  (The else branch
   "m.Err = err" of the block loop is dead: a token that blockdigest.ParseBlockLocator rejects has already given
   the stream an Err in parseManifestStream.) *)
Definition block_obs (loc : string) : string * N * string :=
  (digest_key loc, loc_size loc, match split_on c_plus loc with _ :: _ :: hints => join "+" hints | _ => "" end).
Fixpoint blocks_lines (ls : list string) (err : bool) : outcome (list (string * N * string) * bool) :=
  match ls with
  | [] => Ok ([], err)
  | l :: r =>
      match gm_parse_stream l with
      | GpUnmodelled => Unmodelled
      | GpErr => blocks_lines r true
      | GpOk s => match blocks_lines r err with
                  | Ok (bs, e) => Ok ((map block_obs (g_blocks s) ++ bs)%list, e)
                  | x => x
                  end
      end
  end.
Definition gm_blocks (txt : string) : outcome (list (string * N * string) * bool) := blocks_lines (gm_lines txt) false.

(* ---------- Manifest.FileSegmentIterByName ----------
   This entry point does not look at stream.Err: it uses whatever parseManifestStream left in the ManifestStream.
   [gm_err_stream]: StreamName / Blocks / FileStreamSegments of a stream WITH Err (the file tokens before the first
   bad one; none at all when the error was found before the file tokens). *)
Fixpoint ok_prefix (sizes : list N) (ftoks : list string) : list (N * N * string) :=
  match ftoks with
  | [] => []
  | t :: r => match gm_parse_ftok t with
              | Some (p, n, nm) => if go_range_ok sizes p n then (p, n, nm) :: ok_prefix sizes r else []
              | None => []
              end
  end.
Definition gm_err_stream (line : string) : gstream :=
  match split_on c_sp line with
  | [] => {| g_name := ""; g_blocks := []; g_fts := [] |}
  | t0 :: rest =>
      let name := gm_unescape t0 in
      if negb (String.eqb name "." || has_prefix "./" name) then {| g_name := name; g_blocks := []; g_fts := [] |}
      else
        let '(blocks, ftoks) := span_go_locators rest in
        match blocks with
        | [] => {| g_name := name; g_blocks := []; g_fts := [] |}
        | _ => if forallb (fun b => (loc_size b <? 2 ^ 63)%N) blocks && small_total (sizes_of blocks)
               then {| g_name := name; g_blocks := blocks; g_fts := ok_prefix (sizes_of blocks) ftoks |}
               else {| g_name := name; g_blocks := blocks; g_fts := [] |}
        end
  end.
(* fp = fixStreamName(filepath); sendFileSegmentIterByName applies fixStreamName once more (send_segs) *)
Fixpoint file_segs_lines (ls : list string) (fp : string) : outcome (list seg) :=
  match ls with
  | [] => Ok []
  | l :: r =>
      match (match gm_parse_stream l with
             | GpOk s => Some s | GpErr => Some (gm_err_stream l) | GpUnmodelled => None end) with
      | None => Unmodelled
      | Some s =>
          let here := if has_prefix (g_name s ++ "/") fp then send_segs s fp else Some [] in
          match here, file_segs_lines r fp with
          | None, _ => Panic
          | Some a, Ok b => Ok (a ++ b)%list
          | Some _, e => e
          end
      end
  end.
Definition gm_file_segs (txt filepath : string) : outcome (list seg) :=
  file_segs_lines (gm_lines txt) (fix_stream_name filepath).
