(* C14 / C15 — lib/dispatchcloud/scheduler/sync.go (sync) and fix_stale_locks.go (the set of stale
   locks) as pure functions from a snapshot to the set of actions.  Definitions only. *)
From Coq Require Import List ZArith Bool NArith.
From AV Require Import model.C16_runq.
Import ListNotations.
Local Open Scope Z_scope.

(* pool.Running(): uuid -> time the process was seen to have exited (0 = zero time = not exited) *)
Definition rmap := list (N * Z).
Fixpoint rlook (u : N) (m : rmap) : option Z :=
  match m with [] => None | (k, v) :: r => if N.eqb k u then Some v else rlook u r end.

Inductive act :=
| ACancel (u : N)     (* go sch.cancel(uuid): queue.Cancel *)
| AKill (u : N)       (* go sch.kill(uuid): pool.KillContainer + pool.ForgetContainer *)
| ARequeue (u : N)    (* go sch.requeue(ent): queue.Unlock *)
| AForget (u : N).    (* queue.Forget (synchronous, no latch) *)

(* the switch on ent.Container.State for one queue entry *)
Definition sync_ent (running : rmap) (unknown : bool) (qupd : Z) (e : ent) : list act :=
  let u := e_uuid e in
  let r := rlook u running in
  let is_running := match r with Some _ => true | None => false end in
  let exited := match r with Some t => t | None => 0 end in
  let exited_before_update := negb (exited =? 0) && (exited <? qupd) in   (* !exited.IsZero() && qUpdated.After(exited) *)
  match e_state e with
  | Running =>
      if negb is_running then (if negb unknown then [ACancel u] else [])
      else if exited_before_update then [ACancel u]
      else if e_prio e =? 0 then [AKill u] else []
  | Complete | Cancelled => if is_running then [AKill u] else [AForget u]
  | Queued => if is_running then [AKill u] else if e_prio e =? 0 then [AForget u] else []
  | Locked =>
      if is_running && exited_before_update then [ARequeue u]
      else if is_running && (exited =? 0) && (e_prio e =? 0) then [AKill u]
      else if negb is_running && (e_prio e =? 0) then [ARequeue u]
      else []
  | OtherState => []
  end.

Definition act_uuid (a : act) : N := match a with ACancel u | AKill u | ARequeue u | AForget u => u end.
Definition latched_act (latch : list N) (a : act) : bool :=
  match a with AForget _ => false | _ => memN (act_uuid a) latch end.

(* sync(): actions for every entry (map order: a set), then kill every process whose uuid is not in the
   queue; an action whose uuid has an operation in flight (sch.uuidOp) is dropped by uuidLock *)
Definition sync (ents : list ent) (running : rmap) (unknown : bool) (qupd : Z) (latch : list N) : list act :=
  filter (fun a => negb (latched_act latch a))
    (flat_map (sync_ent running unknown qupd) ents ++
     map AKill (filter (fun u => negb (memN u (map e_uuid ents))) (map fst running))).

(* requeue() re-checks, when its goroutine runs, that the container is still Locked (/repo dbd540e) and that
   the reason still holds (/repo c30ecc5): its crunch-run has exited, or it is not running and has no
   priority -- finding F21.  [now] = what queue.Get answers at that moment (state, priority; absent = not in
   the queue), [run_now] = pool.Running() at that moment. *)
Fixpoint nlook (u : N) (now : list (N * (cstate * Z))) : option (cstate * Z) :=
  match now with [] => None | (k, v) :: r => if N.eqb k u then Some v else nlook u r end.
Definition still_locked (now : list (N * (cstate * Z))) (u : N) : bool :=
  match nlook u now with Some (Locked, _) => true | _ => false end.
Definition reason_holds (now : list (N * (cstate * Z))) (run_now : rmap) (u : N) : bool :=
  match rlook u run_now with
  | Some t => negb (t =? 0)                                               (* crunch-run exited *)
  | None => match nlook u now with Some (_, p) => p <=? 0 | None => false end   (* not running, priority 0 *)
  end.
Definition requeues (acts : list act) : list N := flat_map (fun a => match a with ARequeue u => [u] | _ => [] end) acts.
Definition sync_unlocks (acts : list act) (now : list (N * (cstate * Z))) (run_now : rmap) : list N :=
  filter (fun u => still_locked now u && reason_holds now run_now u) (requeues acts).
(* the code before those two commits unlocked every requeue decision (regression witness only) *)
Definition sync_unlocks_old (acts : list act) : list N := requeues acts.

(* fixStaleLocks: the uuids it would unlock = Locked entries without a process *)
Definition stale_locks (ents : list ent) (running : rmap) : list N :=
  map e_uuid (filter (fun e => cstate_eqb (e_state e) Locked &&
                               match rlook (e_uuid e) running with Some _ => false | None => true end) ents).
