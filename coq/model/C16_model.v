(* C16 — cheapest adequate instance type.  Executable model of
   lib/dispatchcloud/node_size.go: estimateDockerImageSize, EstimateScratchSpace,
   ChooseInstanceType (needRAM arithmetic with int64 wrap-around, the 6-way switch of the
   filter-and-minimise loop over the table in ARBITRARY order (Go map iteration), and the
   ConstraintsNotSatisfiableError listing the types by price).
   Definitions only; proofs are in proofs/C16_choose.v. *)
From Coq Require Import List ZArith Bool String Ascii NArith.
Import ListNotations.
Local Open Scope Z_scope.

(* ---- int64 arithmetic ---- *)
Definition two63 : Z := 9223372036854775808.
Definition two64 : Z := 18446744073709551616.
Definition max_int64 : Z := 9223372036854775807.
(* two's complement wrap-around of a mathematical result into int64 *)
Definition wrap64 (z : Z) : Z := ((z + two63) mod two64) - two63.
Definition in64 (z : Z) : Prop := - two63 <= z < two63.

(* ---- arvados.InstanceType (the fields the code reads); price in exact units (the harness uses
        binary-exact float64 values k/4 and passes k) ---- *)
Record itype := mkit { it_id : N; price : Z; ram : Z; vcpus : Z; scratch : Z; preempt : bool }.

(* ---- arvados.Container (the fields the code reads).  Mounts: (Kind == "tmp", Capacity) in the
        order the Go map iteration happened to produce; the sum does not depend on it. ---- *)
Record ctr := mkctr { c_ram : Z; c_kc : Z; c_vcpus : Z; c_mounts : list (bool * Z);
                      c_image : string; c_preempt : bool }.

(* ---- estimateDockerImageSize: pdhRegexp = ^[0-9a-f]{32}\+(\d+)$ as a hand-written recogniser ---- *)
Definition is_lhex (c : ascii) : bool :=
  let n := N_of_ascii c in ((48 <=? n) && (n <=? 57) || (97 <=? n) && (n <=? 102))%N.
Definition is_digit (c : ascii) : bool :=
  let n := N_of_ascii c in ((48 <=? n) && (n <=? 57))%N.
Fixpoint strip_hex (n : nat) (s : string) : option string :=
  match n with
  | O => Some s
  | S k => match s with
           | String c r => if is_lhex c then strip_hex k r else None
           | EmptyString => None
           end
  end.
(* value of a string of decimal digits (None if any other character occurs) *)
Fixpoint digits_val (s : string) (acc : Z) : option Z :=
  match s with
  | EmptyString => Some acc
  | String c r => if is_digit c then digits_val r (acc * 10 + (Z.of_N (N_of_ascii c) - 48)) else None
  end.
(* the submatch (\d+) as a number; None = no match *)
Definition pdh_size (s : string) : option Z :=
  match strip_hex 32 s with
  | Some (String c r) =>
      if Ascii.eqb c "+"%char then
        match r with EmptyString => None | _ => digits_val r 0 end
      else None
  | _ => None
  end.
Definition mib64 : Z := 67108864.   (* 64 * 1024 * 1024 *)
Definition estimate_image (pdh : string) : Z :=
  match pdh_size pdh with
  | None => 0
  | Some n => if max_int64 <? n then 0               (* strconv.ParseInt range error *)
              else if n <? 122 then 0
              else wrap64 (((n - 80) / 42) * mib64)
  end.

(* ---- EstimateScratchSpace ---- *)
Definition tmp_sum (ms : list (bool * Z)) : Z :=
  fold_left (fun (a : Z) (m : bool * Z) => if fst m then wrap64 (a + snd m) else a) ms 0.
(* the mathematical sum of the tmp capacities (specification side) *)
Definition tmp_total (ms : list (bool * Z)) : Z :=
  fold_left (fun (s : Z) (m : bool * Z) => if fst m then s + snd m else s) ms 0.
Definition estimate_scratch (c : ctr) : Z :=
  let s := tmp_sum (c_mounts c) in
  let img := estimate_image (c_image c) in
  let s' := if s <? img then img else s in
  wrap64 (s' + img).

(* ---- ChooseInstanceType ---- *)
(* needRAM = (RAM + KeepCacheRAM + ReserveExtraRAM) * 100 / (100 - 5); Go's / truncates (Z.quot) *)
Definition need_ram (r kc reserve : Z) : Z :=
  Z.quot (wrap64 (wrap64 (wrap64 (r + kc) + reserve) * 100)) 95.

Record need := mkneed { n_ram : Z; n_vcpus : Z; n_scratch : Z; n_preempt : bool }.
Definition need_of (reserve : Z) (c : ctr) : need :=
  {| n_ram := need_ram (c_ram c) (c_kc c) reserve; n_vcpus := c_vcpus c;
     n_scratch := estimate_scratch c; n_preempt := c_preempt c |}.

(* cases 2-5 of the switch, negated *)
Definition adequate (n : need) (t : itype) : bool :=
  (n_scratch n <=? scratch t) && (n_ram n <=? ram t) && (n_vcpus n <=? vcpus t) &&
  Bool.eqb (preempt t) (n_preempt n).

(* zero value of arvados.InstanceType: what `best` holds while ok == false *)
Definition zero_it : itype := mkit 0 0 0 0 0 false.

(* one iteration of `for _, it := range cc.InstanceTypes { switch {...} }`; state = (ok, best) *)
Definition step (n : need) (st : bool * itype) (t : itype) : bool * itype :=
  let (ok, best) := st in
  if ok && (price best <? price t) then st
  else if scratch t <? n_scratch n then st
  else if ram t <? n_ram n then st
  else if vcpus t <? n_vcpus n then st
  else if negb (Bool.eqb (preempt t) (n_preempt n)) then st
  else if (price t =? price best) && ((ram t <? ram best) || (vcpus t <? vcpus best)) then st
  else (true, t).

Definition choose_loop (n : need) (ts : list itype) : bool * itype := fold_left (step n) ts (false, zero_it).

(* sort.Slice(availableTypes, price <): any price-sorted permutation; the executable model uses a
   stable insertion sort, comparison with Go is exact only where prices are distinct *)
Fixpoint ins_price (x : itype) (l : list itype) : list itype :=
  match l with
  | [] => [x]
  | y :: r => if price x <? price y then x :: l else y :: ins_price x r
  end.
Definition sort_price (l : list itype) : list itype := fold_right ins_price [] l.

Inductive choice := Chosen (t : itype) | ErrNoTypes | ErrUnsat (avail : list itype).

Definition choose_need (n : need) (ts : list itype) : choice :=
  match ts with
  | [] => ErrNoTypes
  | _ => let (ok, best) := choose_loop n ts in
         if ok then Chosen best else ErrUnsat (sort_price ts)
  end.

(* ChooseInstanceType(cc, ctr): ts = cc.InstanceTypes in iteration order, reserve = ReserveExtraRAM *)
Definition choose (reserve : Z) (ts : list itype) (c : ctr) : choice := choose_need (need_of reserve c) ts.

(* ---- what the fold can return, independent of the iteration order (proved in proofs/C16_choose.v for
        tables whose RAM and VCPUs are non-negative): an adequate type of minimal price that is not
        strictly dominated (RAM and VCPUs both >=, one >) by another adequate type of that price ---- *)
Definition sane (t : itype) : bool := (0 <=? ram t) && (0 <=? vcpus t).
Definition dominates (t r : itype) : bool :=
  (ram r <=? ram t) && (vcpus r <=? vcpus t) && ((ram r <? ram t) || (vcpus r <? vcpus t)).
Definition candidate (n : need) (ts : list itype) (r : itype) : bool :=
  adequate n r &&
  forallb (fun t => negb (adequate n t) || ((price r <=? price t) && negb ((price t =? price r) && dominates t r))) ts.
