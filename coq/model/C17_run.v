(* C17 — evaluator for generated cases: a host tree + mounts, and what the real copier.Copy() produced (read back
   through a collection filesystem as a sorted listing).
   check_case: 0 ok; +1 model/implementation mismatch; +2 specification violated; +4 F11, +8 F16, +16 F18 (the
   violation lies inside the trigger predicate of that known finding). *)
From Coq Require Import NArith List Ascii String Bool.
From AV Require Import lib.Str model.C10_manifest model.C10_ranges model.C10_fs model.C10_gomanifest model.C17_model.
Import ListNotations.
Local Open Scope string_scope.

Inductive obs := ObsOk (l : listing) | ObsErr | ObsPanic.
Record case := {
  c_cfg : config;
  c_store : list (string * string);      (* hash -> data of the mounted collections' blocks *)
  o_res : obs
}.
Definition st_of (c : case) : store :=
  fun h => match assoc_get h (c_store c) with Some d => d | None => "" end.
Definition entry_eqb (a b : string * bool * string) : bool :=
  String.eqb (fst (fst a)) (fst (fst b)) && Bool.eqb (snd (fst a)) (snd (fst b)) && String.eqb (snd a) (snd b).
Definition listing_eqb (a b : listing) : bool := list_eqb entry_eqb a b.

Definition model_b (c : case) : bool :=
  match fst (copy_model (c_cfg c) (st_of c)), o_res c with
  | RUnmodelled, _ => true
  | ROk l, ObsOk l' => listing_eqb l' l
  | RErr, ObsErr => true
  | RPanic, ObsPanic => true
  | _, _ => false
  end.

(* secrets_absent, stated directly on the observation: nothing at or below a secret mount point of the output tree *)
Definition secret_dest (cf : config) (s : string) : option string :=
  if has_prefix (c_ctr cf ++ "/") s then Some ("." ++ drop (String.length (c_ctr cf)) s) else None.
Definition secrets_absent_b (cf : config) (l : listing) : bool :=
  forallb (fun s => match secret_dest cf s with
                    | Some d => forallb (fun e => negb (String.eqb (fst (fst e)) d || has_prefix (d ++ "/") (fst (fst e)))) l
                    | None => true
                    end) (c_secrets cf).

Definition spec_b (c : case) : bool :=
  match resolve (c_cfg c) (st_of c), o_res c with
  | SpecUnknown, _ => true
  | SpecOk l, ObsOk l' => listing_eqb l' l && secrets_absent_b (c_cfg c) l'
  | SpecFail, ObsErr => true
  | _, _ => false
  end.

Definition check_case (c : case) : N :=
  let w := snd (copy_model (c_cfg c) (st_of c)) in
  ((if model_b c then 0 else 1) +
   (if spec_b c then 0 else if w_f11 w then 4 else if w_f16 w then 8 else if w_f18 w then 16 else 2))%N.
Fixpoint failing_from (i : N) (cs : list case) : list (N * N) :=
  match cs with
  | [] => []
  | c :: r => let k := check_case c in
              if (k =? 0)%N then failing_from (N.succ i) r else (i, k) :: failing_from (N.succ i) r
  end.
Definition failing (cs : list case) : list (N * N) := failing_from 0%N cs.
(* short constructors for the case files *)
Definition M (kind text path : string) (writable exclude : bool) : mount :=
  {| m_kind := kind; m_text := text; m_path := path; m_writable := writable; m_exclude := exclude |}.
