(* Evaluator shared by C09 and C13: a case is an event history observed on a real collection
   filesystem whose Keep writes are controlled by the harness.
     model_b  the implementation model (CFS_bg over CFS_tree over CFS_file) predicts every observation,
              including the exact text of every saved manifest;
     spec_b   judged without the background-write model: the foreground observations are those of the
              plain byte-array filesystem (flushes, completions, failures and saves are invisible), a
              save may fail only while the fake Keep refuses writes, and every saved manifest loads
              to exactly the tree the plain filesystem holds at that point. *)
From Coq Require Import NArith List Arith String Bool.
From AV Require Import lib.Str lib.Path model.CFS_file model.CFS_tree model.CFS_inst model.C08_run model.CFS_bg model.CFS_tload.
Import ListNotations.
Local Open Scope string_scope.
Local Open Scope list_scope.
Local Open Scope nat_scope.

Inductive mres := MErr | MText (t : string).

Inductive ev :=
| EOp (o : op) (v : obs)                          (* foreground operation and what it returned *)
| EFlush (path : string) (short : bool) (v : obs) (* Flush(path, shortBlocks) *)
| EMarshal (v : mres)                             (* MarshalManifest(".") *)
| ECompleteData (d : list byte)                   (* every Keep write in flight for data d returns *)
| EMode (m : nat).                                (* the fake Keep's failure mode changes *)

Record case := {
  c_mb : nat;
  c_init : string;                                (* manifest the filesystem was loaded from ("" = empty) *)
  c_tab : list (list byte * string);              (* block contents with their locators: initial blocks, then every successful write *)
  c_events : list ev
}.

Definition bytes_eqb (a b : list byte) : bool := list_eqb Nat.eqb a b.

Section Run.
Variable mb : nat.
Notation C := (Conc mb).

Definition complete_data (st : bst mb) (d : list byte) : bst mb :=
  fold_left (fun s q => if bytes_eqb (q_data q) d then complete mb s (q_id q) else s) (pends mb st) st.

Definition mres_eqb (a b : mres) : bool :=
  match a, b with MErr, MErr => true | MText x, MText y => String.eqb x y | _, _ => false end.

(* what the implementation model itself outputs for an event *)
Inductive out := OObs (v : obs) | OM (m : mres) | ONone.

Definition bexec (tab : list (list byte * string)) (st : bst mb) (e : ev) : bst mb * out :=
  match e with
  | EOp (OWrite h d) _ =>
      match b_write mb st h d with
      | (st', Ok n) => (st', OObs (VNat n))
      | (st', Err x) => (st', OObs (VErr x))
      end
  | EOp o _ => let '(s', v') := step C (fsys mb st) o in (with_fs mb st s', OObs v')
  | EFlush p sh _ =>
      match b_flush mb st p sh with
      | (st', Ok _) => (st', OObs VUnit)
      | (st', Err x) => (st', OObs (VErr x))
      end
  | EMarshal _ =>
      match b_marshal mb tab st with
      | (st', Ok t) => (st', OM (MText t))
      | (st', Err _) => (st', OM MErr)
      end
  | ECompleteData d => (complete_data st d, ONone)
  | EMode m => ({| fsys := fsys mb st; pends := pends mb st; ntok := ntok mb st; nput := nput mb st;
                   blocks := blocks mb st; mode := m |}, ONone)
  end.

(* does the recorded observation of the event agree with the model's output? *)
Definition ev_matches (e : ev) (o : out) : bool :=
  match e, o with
  | EOp _ v, OObs v' => obs_eqb v' v
  | EFlush _ _ v, OObs v' => obs_eqb v' v
  | EMarshal v, OM v' => mres_eqb v' v
  | ECompleteData _, ONone => true
  | EMode _, ONone => true
  | _, _ => false
  end.

Definition bstep (tab : list (list byte * string)) (st : bst mb) (e : ev) : bst mb * bool :=
  let '(st', o) := bexec tab st e in (st', ev_matches e o).

Fixpoint brun (tab : list (list byte * string)) (st : bst mb) (es : list ev) : bool :=
  match es with
  | [] => true
  | e :: r => let '(st', ok) := bstep tab st e in ok && brun tab st' r
  end.

Definition binit (tab : list (list byte * string)) (s : fs C) : bst mb :=
  {| fsys := s; pends := []; ntok := 0; nput := 0; blocks := map fst tab; mode := 0 |}.

(* ---- canonical listing of a tree: every path with Some bytes (file) or None (directory) ---- *)
Section Listing.
Variable I : FileImpl.
Variable bytes_of : F I -> list byte.
Fixpoint listing (fuel : nat) (s : fs I) (d : nat) (prefix : string) : list (string * option (list byte)) :=
  match fuel with
  | O => []
  | S fuel' =>
    flat_map (fun e =>
      let path := (prefix ++ "/" ++ fst e)%string in
      match i_node I (get_ino I s (snd e)) with
      | IFile f => [(path, Some (bytes_of f))]
      | IDir _ => (path, None) :: listing fuel' s (snd e) path
      end) (dir_ents I s d)
  end.
Definition tree_listing (s : fs I) := listing (List.length (inodes I s)) s root_id ".".
End Listing.

Definition ent_eqb (a b : string * option (list byte)) : bool :=
  String.eqb (fst a) (fst b) &&
  match snd a, snd b with
  | Some x, Some y => bytes_eqb x y
  | None, None => true
  | _, _ => false
  end.
Definition listing_eqb := list_eqb ent_eqb.

End Run.

(* the plain filesystem a loaded collection denotes: the loader model's tree with every file node
   replaced by its content *)
Definition abs_node' mb (n : inode (Conc mb)) : inode Spec :=
  match n with IFile f => IFile (I := Spec) (content f) | IDir e => IDir (I := Spec) e end.
Definition abs_fs mb (s : fs (Conc mb)) : fs Spec :=
  {| inodes := map (fun x => {| i_node := abs_node' mb (i_node _ x); i_parent := i_parent _ x |}) (inodes _ s);
     handles := [] |}.

Definition load_or_empty mb (tab : list (list byte * string)) (txt : string) : option (fs (Conc mb)) :=
  if String.eqb txt "" then Some (fs_init (Conc mb))
  else match b_load mb tab txt with Ok s => Some s | Err _ => None end.

(* the tree-level loader (CFS_tload, the one the round-trip theorem is stated for) and the inode-table
   loader accept the same texts and build the same tree: evaluated on the initial manifest and on
   every saved manifest of the case *)
Definition t_load_or_empty (tab : list (list byte * string)) (txt : string) : option T :=
  if String.eqb txt "" then Some (TD []) else t_load tab txt.
Definition tl_agree mb (tab : list (list byte * string)) (txt : string) : bool :=
  match load_or_empty mb tab txt, t_load_or_empty tab txt with
  | Some l, Some t => listing_eqb (tree_listing (Conc mb) content l) (listing_T "." t)
  | None, None => true
  | _, _ => false
  end.
Definition tl_agree_events mb tab (es : list ev) : bool :=
  forallb (fun e => match e with EMarshal (MText t) => tl_agree mb tab t | _ => true end) es.

(* the conditions under which the round-trip theorem (props/C09.v) applies hold at every save the
   model performs: stored segments only below the root, recursion depth within the table size, every
   block of the store listed in the table *)
Fixpoint rt_ready mb (tab : list (list byte * string)) (st : bst mb) (es : list ev) : bool :=
  match es with
  | [] => true
  | e :: r =>
      let '(st', o) := bexec mb tab st e in
      (match o with
       | OM (MText _) => deep_ok mb (List.length (inodes (Conc mb) (fsys mb st))) (fsys mb st) root_id
                         && ready mb (List.length (inodes (Conc mb) (fsys mb st'))) (fsys mb st') root_id
                         && in_tab_b tab (blocks mb st')
       | _ => true
       end) && rt_ready mb tab st' r
  end.

Definition model_b (c : case) : bool :=
  match load_or_empty (c_mb c) (c_tab c) (c_init c) with
  | None => false
  | Some s => brun (c_mb c) (c_tab c) (binit (c_mb c) (c_tab c) s) (c_events c)
              && tl_agree (c_mb c) (c_tab c) (c_init c) && tl_agree_events (c_mb c) (c_tab c) (c_events c)
              && tab_ok_b (c_tab c) && rt_ready (c_mb c) (c_tab c) (binit (c_mb c) (c_tab c) s) (c_events c)
  end.

(* specification run: only foreground operations act; mode is tracked to know whether a save may fail *)
Fixpoint srun mb (tab : list (list byte * string)) (s : fs Spec) (mode : nat) (es : list ev) : bool :=
  match es with
  | [] => true
  | EOp o v :: r => let '(s', v') := step Spec s o in obs_eqb v' v && srun mb tab s' mode r
  | EFlush _ _ v :: r => (match v with VUnit => true | VErr ENotExist => true | VErr ENotDir => true | _ => false end) && srun mb tab s mode r
  | EMarshal MErr :: r => negb (Nat.eqb mode 0) && srun mb tab s mode r
  | EMarshal (MText t) :: r =>
      (match load_or_empty mb tab t with
       | None => false
       | Some l => listing_eqb (tree_listing (Conc mb) content l) (tree_listing Spec (fun b => b) s)
       end) && srun mb tab s mode r
  | ECompleteData _ :: r => srun mb tab s mode r
  | EMode m :: r => srun mb tab s m r
  end.

Definition spec_b (c : case) : bool :=
  match load_or_empty (c_mb c) (c_tab c) (c_init c) with
  | None => false
  | Some s => srun (c_mb c) (c_tab c) (abs_fs (c_mb c) s) 0 (c_events c)
  end.

Definition check_case (c : case) : N :=
  ((if model_b c then 0 else 1) + (if spec_b c then 0 else 2))%N.
Fixpoint failing_from (i : N) (cs : list case) : list (N * N) :=
  match cs with
  | [] => []
  | c :: r => let k := check_case c in
              if N.eqb k 0 then failing_from (N.succ i) r else (i, k) :: failing_from (N.succ i) r
  end.
Definition failing (cs : list case) : list (N * N) := failing_from 0%N cs.
