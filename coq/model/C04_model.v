(* C04 (H) — history-level model of keepstore's block life cycle on Directory volumes, with an explicit
   clock.  Transcribes (services/keepstore):
     handlers.go      handlePUT/PutBlock/CompareAndTouch (intact data, no write errors), handleTOUCH,
                      handleGET/GetBlock, handleDELETE, handleUntrash
     trash_worker.go  TrashItem
     unix_volume.go   Touch, Mtime, WriteBlock (as one atomic step here; its interleavings are the
                      subject of model/C04_race.v), Trash, Untrash, EmptyTrash
     volume.go        RRVolumeManager (AllWritable, NextWritable, Lookup)
     keepstore.go     emptyTrash (sweeps the writable mounts)
   Times are integers in nanoseconds (virtual clock); every operation receives the clock value [now]
   the implementation read.  Contents are always intact at this level (corruption is C01's subject),
   so a block copy is (hash, mtime) and a trashed copy is (hash, deadline in whole seconds, mtime).
   Definitions only. *)
From Coq Require Import ZArith NArith List String Bool.
From AV Require Import lib.Str.
Import ListNotations.
Local Open Scope Z_scope.

Definition NS : Z := 1000000000.

Record cfg := {
  ttl : Z;               (* Collections.BlobSigningTTL, ns *)
  life : Z;              (* Collections.BlobTrashLifetime, ns; 0 = delete immediately *)
  blob_trash : bool      (* Collections.BlobTrash *)
}.

Record blk := { b_hash : string; b_mtime : Z }.
Record tr := { t_hash : string; t_dead : Z; t_mtime : Z }.   (* file <hash>.trash.<t_dead> *)

Record vol := {
  v_ro : bool;
  v_uuid : string;
  v_blocks : list blk;   (* at most one entry per hash *)
  v_trash : list tr      (* at most one entry per (hash, deadline) *)
}.

Record state := { vols : list vol; counter : N }.

(* ---- one volume ---- *)
Fixpoint find_block (bs : list blk) (h : string) : option Z :=
  match bs with
  | [] => None
  | b :: r => if String.eqb (b_hash b) h then Some (b_mtime b) else find_block r h
  end.
Definition del_block (bs : list blk) (h : string) : list blk :=
  filter (fun b => negb (String.eqb (b_hash b) h)) bs.
Definition set_block (bs : list blk) (h : string) (m : Z) : list blk :=
  {| b_hash := h; b_mtime := m |} :: del_block bs h.

Definition same_trash (h : string) (d : Z) (t : tr) : bool := String.eqb (t_hash t) h && (t_dead t =? d).
Definition add_trash (ts : list tr) (h : string) (d m : Z) : list tr :=
  {| t_hash := h; t_dead := d; t_mtime := m |} :: filter (fun t => negb (same_trash h d t)) ts.

Definition with_blocks (v : vol) (bs : list blk) : vol :=
  {| v_ro := v_ro v; v_uuid := v_uuid v; v_blocks := bs; v_trash := v_trash v |}.
Definition with_both (v : vol) (bs : list blk) (ts : list tr) : vol :=
  {| v_ro := v_ro v; v_uuid := v_uuid v; v_blocks := bs; v_trash := ts |}.

(* UnixVolume.Touch: open fails with ENOENT when the block is absent; else mtime := now *)
Definition vol_touch (v : vol) (h : string) (now : Z) : option vol :=
  if v_ro v then None
  else match find_block (v_blocks v) h with
       | None => None
       | Some _ => Some (with_blocks v (set_block (v_blocks v) h now))
       end.

(* UnixVolume.Trash *)
Inductive tres := TrOk | TrNotExist | TrErr.
Definition deadline (c : cfg) (now : Z) : Z := (now + life c) / NS.      (* time.Now().Add(lifetime).Unix() *)
Definition vol_trash (c : cfg) (v : vol) (h : string) (now : Z) : tres * vol :=
  if v_ro v || negb (blob_trash c) then (TrErr, v)                    (* MethodDisabledError *)
  else match find_block (v_blocks v) h with
       | None => (TrNotExist, v)                                      (* open: ENOENT *)
       | Some m =>
         if now - m <? ttl c then (TrOk, v)                           (* too new: success, nothing done *)
         else if life c =? 0 then (TrOk, with_blocks v (del_block (v_blocks v) h))
         else (TrOk, with_both v (del_block (v_blocks v) h) (add_trash (v_trash v) h (deadline c now) m))
       end.

(* UnixVolume.Untrash: ioutil.ReadDir lists names in byte order; at the first <hash>.trash.* : if the
   block file exists (v.os.Stat succeeds) it is kept and the call succeeds (since /repo fa470fa, repair
   of F20); otherwise the trashed copy is renamed to the block path *)
Definition dec_dead (t : tr) : string := dec (Z.to_N (t_dead t)).
Fixpoint first_trash (ts : list tr) (h : string) (best : option tr) : option tr :=
  match ts with
  | [] => best
  | t :: r =>
    if String.eqb (t_hash t) h then
      match best with
      | None => first_trash r h (Some t)
      | Some b => if str_ltb (dec_dead t) (dec_dead b) then first_trash r h (Some t) else first_trash r h best
      end
    else first_trash r h best
  end.
Inductive ures := UOk | UNotExist | UErr.
Definition vol_untrash (v : vol) (h : string) : ures * vol :=
  if v_ro v then (UErr, v)
  else match first_trash (v_trash v) h None with
       | None => (UNotExist, v)
       | Some t =>
         match find_block (v_blocks v) h with
         | Some _ => (UOk, v)
         | None => (UOk, with_both v (set_block (v_blocks v) h (t_mtime t))
                                   (filter (fun x => negb (same_trash h (t_dead t) x)) (v_trash v)))
         end
       end.

(* UnixVolume.EmptyTrash: removes <hash>.trash.<deadline> unless deadline > time.Now().Unix() *)
Definition vol_empty (v : vol) (now : Z) : vol :=
  with_both v (v_blocks v) (filter (fun t => now / NS <? t_dead t) (v_trash v)).

(* ---- the server ---- *)
Definition writable (vs : list vol) : list vol := filter (fun v => negb (v_ro v)) vs.
Definition has_block (v : vol) (h : string) : bool :=
  match find_block (v_blocks v) h with Some _ => true | None => false end.

(* apply f to the first writable volume that holds h; None if there is none *)
Fixpoint touch_first (vs : list vol) (h : string) (now : Z) : option (list vol) :=
  match vs with
  | [] => None
  | v :: r =>
    match vol_touch v h now with
    | Some v' => Some (v' :: r)
    | None => match touch_first r h now with Some r' => Some (v :: r') | None => None end
    end
  end.

(* store (h, now) on the k-th writable volume *)
Fixpoint write_at (vs : list vol) (k : nat) (h : string) (now : Z) : list vol :=
  match vs with
  | [] => []
  | v :: r => if v_ro v then v :: write_at r k h now
              else match k with
                   | O => with_blocks v (set_block (v_blocks v) h now) :: r
                   | S k' => v :: write_at r k' h now
                   end
  end.

(* handlePUT with a body that hashes to h: CompareAndTouch (Compare succeeds on the first writable
   volume holding h, Touch sets its mtime), else NextWritable().Put *)
Definition h_put (s : state) (h : string) (now : Z) : N * state :=
  match writable (vols s) with
  | [] => (503%N, s)
  | ws =>
    match touch_first (vols s) h now with
    | Some vs' => (200%N, {| vols := vs'; counter := counter s |})
    | None =>
      let ctr := ((counter s + 1) mod 4294967296)%N in
      let k := N.to_nat (ctr mod N.of_nat (List.length ws))%N in
      (200%N, {| vols := write_at (vols s) k h now; counter := ctr |})
    end
  end.

Definition h_touch (s : state) (h : string) (now : Z) : N * state :=
  match writable (vols s) with
  | [] => (404%N, s)
  | _ => match touch_first (vols s) h now with
         | Some vs' => (200%N, {| vols := vs'; counter := counter s |})
         | None => (404%N, s)
         end
  end.

Definition h_get (s : state) (h : string) : N :=
  if existsb (fun v => has_block v h) (vols s) then 200%N else 404%N.

(* handleDELETE: Trash on every writable mount; 404 iff nothing was found *)
Fixpoint trash_all (c : cfg) (vs : list vol) (h : string) (now : Z) : nat * list vol :=
  match vs with
  | [] => (O, [])
  | v :: r =>
    let '(n, r') := trash_all c r h now in
    if v_ro v then (n, v :: r')
    else match vol_trash c v h now with
         | (TrOk, v') => (S n, v' :: r')
         | (TrErr, v') => (S n, v' :: r')          (* counted as copies_failed: still a 200 answer *)
         | (TrNotExist, v') => (n, v' :: r')
         end
  end.
Definition h_delete (c : cfg) (s : state) (h : string) (now : Z) : N * state :=
  if negb (blob_trash c) then (405%N, s)
  else let '(n, vs') := trash_all c (vols s) h now in
       ((match n with O => 404 | _ => 200 end)%N, {| vols := vs'; counter := counter s |}).

(* handleUntrash *)
Fixpoint untrash_all (vs : list vol) (h : string) : nat * list vol :=     (* number of volumes not "not found" *)
  match vs with
  | [] => (O, [])
  | v :: r =>
    let '(n, r') := untrash_all r h in
    if v_ro v then (n, v :: r')
    else match vol_untrash v h with
         | (UNotExist, v') => (n, v' :: r')
         | (_, v') => (S n, v' :: r')
         end
  end.
Definition h_untrash (s : state) (h : string) : N * state :=
  match writable (vols s) with
  | [] => (404%N, s)
  | _ => let '(n, vs') := untrash_all (vols s) h in
         ((match n with O => 404 | _ => 200 end)%N, {| vols := vs'; counter := counter s |})
  end.

(* TrashItem (trash_worker.go) *)
Record item := { i_hash : string; i_mtime : Z; i_mount : string }.
Definition trash_item_vol (c : cfg) (it : item) (now : Z) (v : vol) : vol :=
  if v_ro v then v
  else if negb (String.eqb (i_mount it) "" || String.eqb (i_mount it) (v_uuid v)) then v
  else match find_block (v_blocks v) (i_hash it) with
       | None => v                                             (* Mtime: error *)
       | Some m => if negb (m =? i_mtime it) then v            (* stored mtime differs *)
                   else if negb (blob_trash c) then v
                   else snd (vol_trash c v (i_hash it) now)
       end.
Definition trash_item (c : cfg) (vs : list vol) (it : item) (now : Z) : list vol :=
  if now - i_mtime it <? ttl c then vs                        (* request younger than the TTL: skipped *)
  else map (trash_item_vol c it now) vs.
Definition trash_list (c : cfg) (vs : list vol) (its : list item) (now : Z) : list vol :=
  fold_left (fun acc it => trash_item c acc it now) its vs.

Definition empty_trash (vs : list vol) (now : Z) : list vol :=
  map (fun v => if v_ro v then v else vol_empty v now) vs.

Inductive op :=
| Put (h : string)
| Touch (h : string)
| Get (h : string)
| TrashList (its : list item)
| Delete (h : string)
| Untrash (h : string)
| EmptyTrash.

Definition step (c : cfg) (s : state) (now : Z) (o : op) : N * state :=
  match o with
  | Put h => h_put s h now
  | Touch h => h_touch s h now
  | Get h => (h_get s h, s)
  | TrashList its => (200%N, {| vols := trash_list c (vols s) its now; counter := counter s |})
  | Delete h => h_delete c s h now
  | Untrash h => h_untrash s h
  | EmptyTrash => (200%N, {| vols := empty_trash (vols s) now; counter := counter s |})
  end.

(* a history: clock reading and operation; the trace pairs each status with the state after *)
Fixpoint run (c : cfg) (s : state) (hs : list (Z * op)) : list (N * state) :=
  match hs with
  | [] => []
  | (now, o) :: r => let '(a, s') := step c s now o in (a, s') :: run c s' r
  end.
Fixpoint final (c : cfg) (s : state) (hs : list (Z * op)) : state :=
  match hs with
  | [] => s
  | (now, o) :: r => final c (snd (step c s now o)) r
  end.
