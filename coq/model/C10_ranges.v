(* C10 — the three stream-range mappers, over a list of block sizes (numeric core of the codecs).
     fs_map    sdk/go/arvados/fs_collection.go  loadManifest, inner loop lines 1097-1137 (with its cursor)
     go_first  sdk/go/manifest/manifest.go      firstBlock (binary search, as repaired by commit a74e591)
     go_scan   sdk/go/manifest/manifest.go      sendFileSegmentIterByName, loop body
     py_first  sdk/python/arvados/_ranges.py    first_block (as repaired by commit 740aa3f)
     py_lar    sdk/python/arvados/_ranges.py    locators_and_ranges (limit=None)
   Integer widths: the Go manifest package computes pos+len in uint64 (wraps, [w64]; its parser rejects a wrapped sum);
   the collection filesystem computes offset+length in int64 (wraps negative, [fs_end] = None; its loader rejects
   that, commit 44931b6, so [fs_loop] is only ever run with Some end).  Sums of block sizes are assumed < 2^63
   (callers check [small_total]); Python integers are unbounded. *)
From Coq Require Import NArith List Bool.
From AV Require Import model.C10_manifest.
Import ListNotations.
Local Open Scope N_scope.

(* ---------------- collection filesystem ---------------- *)
Inductive fsout := FsSegs (segs : list seg3) (segIdx : nat) (pos : N) | FsRangeErr.

(* offset+length as an int64; both operands are < 2^63 (ParseInt), so the wrapped value is negative: None *)
Definition fs_end (offset len : N) : option N := if offset + len <? 2 ^ 63 then Some (offset + len) else None.
Definition ge_end (x : N) (E : option N) : bool := match E with Some e => e <=? x | None => true end.  (* x >= E *)
Definition gt_end (x : N) (E : option N) : bool := match E with Some e => e <? x | None => true end.   (* x >  E *)
Definition end_val (E : option N) : N := match E with Some e => e | None => 0 end.

(* for ; segIdx < len(segments); segIdx++ { ... }  — [rest] = segments[segIdx:] *)
Fixpoint fs_loop (rest : list N) (segIdx : nat) (pos offset len : N) (E : option N) : fsout :=
  match rest with
  | [] => if negb (ge_end pos E) then FsRangeErr else FsSegs [] segIdx pos
  | sl :: r =>
      let next := pos + sl in
      if (next <=? offset) || (sl =? 0) then fs_loop r (S segIdx) next offset len E
      else if (len =? 0) || ge_end pos E then FsSegs [] segIdx pos
      else
        let blkOff := if pos <? offset then offset - pos else 0 in
        let blkLen0 := sl - blkOff in
        let blkLen := if gt_end (pos + (blkOff + blkLen0)) E then end_val E - pos - blkOff else blkLen0 in
        let sg := (segIdx, blkOff, blkLen) in
        if gt_end next E then FsSegs [sg] segIdx pos
        else match fs_loop r (S segIdx) next offset len E with
             | FsSegs l i p => FsSegs (sg :: l) i p
             | FsRangeErr => FsRangeErr
             end
  end.
(* one file token; cur = (segIdx, pos) left by the previous token of the stream *)
Definition fs_map (sizes : list N) (cur : nat * N) (offset len : N) : fsout :=
  let '(segIdx, pos) := if offset <? snd cur then (O, 0) else cur in
  fs_loop (skipn segIdx sizes) segIdx pos offset len (fs_end offset len).

(* ---------------- Go manifest package ---------------- *)
Fixpoint offsets_from (o : N) (sizes : list N) : list N :=
  match sizes with [] => [o] | s :: r => o :: offsets_from (o + s) r end.
Definition offsets (sizes : list N) : list N := offsets_from 0 sizes.      (* blockOffsets *)

Inductive bsres := BsFound (i : nat) | BsNotFound | BsPanic | BsFuel.
Fixpoint go_first_loop (fuel : nat) (offs : list N) (lo hi i : nat) (start : N) : bsres :=
  match fuel with
  | O => BsFuel
  | S f =>
      match nth_error offs i, nth_error offs (S i) with
      | Some bstart, Some bend =>
          if (bstart <=? start) && (start <? bend) then BsFound i
          else if Nat.eqb lo i then BsNotFound
          else if bend <=? start then go_first_loop f offs i hi (Nat.div2 (hi + i)) start
          else go_first_loop f offs lo i (Nat.div2 (i + lo)) start
      | _, _ => BsPanic                        (* index out of range *)
      end
  end.
Definition go_first (offs : list N) (start : N) : bsres :=
  let hi := (List.length offs - 1)%nat in
  go_first_loop (S (List.length offs)) offs O hi (Nat.div2 hi) start.

Inductive gres := GSegs (l : list seg3) | GPanic.
Fixpoint go_scan (fuel : nat) (offs : list N) (nblocks i : nat) (wantPos wantEnd : N) : gres :=
  match fuel with
  | O => GSegs []
  | S f =>
      if Nat.leb nblocks i then GSegs [] else
      match nth_error offs i, nth_error offs (S i) with
      | Some bpos, Some bend =>
          if bend <=? wantPos then GPanic                    (* "Block end ... comes before start of file segment" *)
          else if wantEnd <=? bpos then GSegs []
          else
            let off := if bpos <? wantPos then wantPos - bpos else 0 in
            let len0 := bend - bpos - off in
            let len := if wantEnd <? bend then wantEnd - bpos - off else len0 in
            match go_scan f offs nblocks (S i) wantPos wantEnd with
            | GSegs l => GSegs ((i, off, len) :: l)
            | GPanic => GPanic
            end
      | _, _ => GPanic
      end
  end.
Definition w64 (x : N) : N := x mod 2 ^ 64.
(* parseManifestStream (as repaired by commit b3717b9):
   !(pft.SegPos+pft.SegLen > streamoffset || pft.SegPos+pft.SegLen < pft.SegPos)   (uint64) *)
Definition go_range_ok (sizes : list N) (pos len : N) : bool :=
  (w64 (pos + len) <=? total sizes) && negb (w64 (pos + len) <? pos).
(* the segments sent for one file token with len <> 0 *)
Definition go_map (sizes : list N) (pos len : N) : gres :=
  match go_first (offsets sizes) pos with
  | BsFound i => go_scan (List.length sizes) (offsets sizes) (List.length sizes) i pos (w64 (pos + len))
  | _ => GPanic                                             (* "File segment ... extends past end of stream" *)
  end.

(* ---------------- Python ---------------- *)
(* data_locators = [Range(loc_k, start_k, size_k)] contiguous from 0, segment_offset 0 *)
Fixpoint ranges_from (o : N) (sizes : list N) : list (N * N) :=
  match sizes with [] => [] | s :: r => (o, s) :: ranges_from (o + s) r end.
Fixpoint py_first_loop (fuel : nat) (rs : list (N * N)) (lo hi i : nat) (start : N) : bsres :=
  match fuel with
  | O => BsFuel
  | S f =>
      match nth_error rs i with
      | Some (bstart, bsize) =>
          let bend := bstart + bsize in
          if (bstart <=? start) && (start <? bend) then BsFound i
          else if Nat.eqb lo i then BsNotFound
          else if bend <=? start then py_first_loop f rs i hi (Nat.div2 (hi + i)) start
          else py_first_loop f rs lo i (Nat.div2 (i + lo)) start
      | None => BsPanic                        (* IndexError *)
      end
  end.
Definition py_first (rs : list (N * N)) (start : N) : bsres :=
  let hi := List.length rs in py_first_loop (S (S hi)) rs O hi (Nat.div2 hi) start.

Fixpoint py_scan (rest : list (N * N)) (i : nat) (rstart rsize : N) : list seg3 :=
  match rest with
  | [] => []
  | (bstart, bsize) :: r =>
      let rend := rstart + rsize in
      let bend := bstart + bsize in
      if rend <=? bstart then []
      else
        let out :=
          if (bstart <=? rstart) && (rend <=? bend) then [(i, rstart - bstart, rsize)]
          else if (bstart <=? rstart) && (bend <? rend) then [(i, rstart - bstart, bend - rstart)]
          else if (rstart <? bstart) && (bend <? rend) then [(i, 0, bsize)]
          else if (rstart <? bstart) && (rend <=? bend) then [(i, 0, rend - bstart)]
          else [] in
        out ++ py_scan r (S i) rstart rsize
  end.
Inductive pyres := PySegs (l : list seg3) | PyPanic.
Definition py_lar (sizes : list N) (rstart rsize : N) : pyres :=
  if rsize =? 0 then PySegs [] else
  let rs := ranges_from 0 sizes in
  match py_first rs rstart with
  | BsFound i => PySegs (py_scan (skipn i rs) i rstart rsize)
  | BsNotFound => PySegs []
  | _ => PyPanic
  end.

(* segments that carry bytes *)
Definition nonempty (l : list seg3) : list seg3 := filter (fun '(_, _, n) => 0 <? n) l.
Definition small_total (sizes : list N) : bool := total sizes <? 2 ^ 63.
