(* C07 — evaluator for generated case files.  [spec_b] judges what the implementation was observed
   to do (proofs/C07_spec.v shows that it reflects the Prop-level statements), [model_b] compares the
   observation with the executable model.  HMAC-SHA1 is the expensive part (~35 ms under vm_compute),
   so [check_case] evaluates both with a signature function that looks signatures up in a table computed
   once per case; proofs/C07_spec.v (check_case_eq) shows this changes nothing. *)
From Coq Require Import NArith List Ascii String Bool.
From AV Require Import lib.Str lib.Sha1 lib.TokSplit model.C07_model.
Import ListNotations.
Local Open Scope string_scope.

(* one presentation of a locator to VerifySignature and what came back *)
Record pres := { p_loc : string; p_tok : string; p_ttl : N; p_key : string; p_obs : vres }.

(* Perturbed presentations are written as differences from the signed locator and the original
   token / ttl / key (string literals are the expensive part of a generated file): the locator as an
   edit of the presented base string, the others as None = unchanged. *)
Inductive edit :=
| EId                          (* unchanged *)
| ESet (i : nat) (c : N)       (* byte i replaced by c *)
| EDel (i : nat)               (* byte i removed *)
| EIns (i : nat) (c : N)       (* c inserted before byte i *)
| ELoc (s : string).           (* a different string *)
Definition apply_edit (base : string) (e : edit) : string :=
  match e with
  | EId => base
  | ESet i c => take i base ++ String (ascii_of_N c) (drop (S i) base)
  | EDel i => take i base ++ drop (S i) base
  | EIns i c => take i base ++ String (ascii_of_N c) (drop i base)
  | ELoc s => s
  end.
Record dpres := { d_edit : edit; d_tok : option string; d_ttl : option N; d_key : option string; d_obs : vres }.
Definition resolve (base tok : string) (ttl : N) (key : string) (d : dpres) : pres :=
  {| p_loc := apply_edit base (d_edit d);
     p_tok := match d_tok d with Some t => t | None => tok end;
     p_ttl := match d_ttl d with Some t => t | None => ttl end;
     p_key := match d_key d with Some k => k | None => key end;
     p_obs := d_obs d |}.

Inductive case :=
(* SignLocator(loc, tok, Unix(exp), ttl, key) = o *)
| CSign (loc tok : string) (exp ttl_ns : N) (key : string) (o : string)
(* VerifySignature(loc, tok, ttl, key) = o, called while time.Now() was within a second of now_ns and
   at least an hour away from every expiry involved *)
| CVerify (loc tok : string) (ttl_ns : N) (key : string) (now_ns : N) (o : vres)
(* a locator signed by the implementation (o_signed), possibly followed by one more hint (post), and
   perturbed presentations of o_signed ++ post *)
| CPerturb (loc tok : string) (exp ttl_ns : N) (key : string) (now_ns : N) (o_signed post : string) (ps : list dpres)
(* SignManifest(m, tok, Unix(exp), ttl, key) = o *)
| CManifest (m tok : string) (exp ttl_ns : N) (key : string) (o : string)
(* keepstore: GET path with the given Authorization header; stored = a block with that hash was PUT
   before; code = HTTP status; body_ok = the response body is the stored block *)
| CGet (signing : bool) (path : string) (auth : option string) (ttl_ns : N) (key : string) (now_ns : N)
       (stored : bool) (code : N) (body_ok : bool)
(* SignedLocatorRe.FindStringSubmatch(s): groups 1, 6, 7 *)
| CRe (s : string) (groups : option (string * string * string)).

Definition vres_eqb (a b : vres) : bool :=
  match a, b with VOk, VOk | VExpired, VExpired | VInvalid, VInvalid | VMissing, VMissing => true | _, _ => false end.
Definition rejected_b (o : vres) : bool := match o with VMissing | VInvalid => true | _ => false end.

(* ---------- boolean specification ---------- *)

(* VerifySignature: OK exactly for a well-formed, unexpired locator whose signature field is the HMAC
   of (hash, presented token, expiry field, ttl) under the presented key; well-formed and expired =>
   Expired; everything else Missing or Invalid *)
Definition spec_verify_k (mk : sigfun) (loc tok : string) (ttl_ns : N) (key : string) (now_ns : N) (o : vres) : bool :=
  match parse_signed loc with
  | None => rejected_b o
  | Some (h, sg, e) =>
    match hexnum e with
    | None => rejected_b o
    | Some ts =>
      if expired ts now_ns then vres_eqb o VExpired
      else if String.eqb sg (mk key h tok e (ttl_hex ttl_ns)) then vres_eqb o VOk else rejected_b o
    end
  end.

(* SignLocator: locator ++ "+A" ++ hmac ++ "@" ++ 8-digit expiry; untouched without key or token *)
Definition spec_sign_k (mk : sigfun) (loc tok : string) (exp ttl_ns : N) (key : string) (o : string) : bool :=
  if String.eqb key "" || String.eqb tok "" then String.eqb o loc
  else let e := hex08 exp in
       String.eqb o (loc ++ "+A" ++ mk key (hd "" (split_on "+" loc)) tok e (ttl_hex ttl_ns) ++ "@" ++ e).

(* a perturbed presentation that keeps the signature field but changes a signed field, or keeps the
   signed fields and changes the signature field, is never accepted *)
Definition tuple := (string * string * string * string * string)%type.   (* key, hash, token, expiry, ttl *)
Definition tuple_eqb (a b : tuple) : bool :=
  let '(k, h, t, e, l) := a in let '(k', h', t', e', l') := b in
  String.eqb k k' && String.eqb h h' && String.eqb t t' && String.eqb e e' && String.eqb l l'.
Definition spec_pert_b (base : tuple) (base_sig : string) (p : pres) : bool :=
  match parse_signed (p_loc p) with
  | None => true
  | Some (h, sg, e) =>
    let same_fields := tuple_eqb (p_key p, h, p_tok p, e, ttl_hex (p_ttl p)) base in
    let same_sig := String.eqb sg base_sig in
    if Bool.eqb same_fields same_sig then true else negb (vres_eqb (p_obs p) VOk)
  end.

(* SignManifest, stated over the maximal runs of blank / non-blank characters *)
Fixpoint chunks_aux (s : string) : list (bool * string) :=
  (* (is_token, text); adjacent characters of the same kind are merged *)
  match s with
  | EmptyString => []
  | String c r =>
    let k := negb (is_ws c) in
    match chunks_aux r with
    | (k', t) :: rest => if Bool.eqb k k' then (k, String c t) :: rest else (k, String c EmptyString) :: (k', t) :: rest
    | [] => [(k, String c EmptyString)]
    end
  end.
Definition chunks := chunks_aux.
Fixpoint concat_s (l : list string) : string := match l with [] => EmptyString | x :: r => x ++ concat_s r end.
Definition nonA_fields (t : string) : list string :=
  match split_on "+" t with f0 :: fs => f0 :: filter (fun f => negb (has_prefix "A" f)) fs | [] => [] end.
Definition spec_tok_k (mk : sigfun) (tokn : string) (exp ttl_ns : N) (key : string) (t : string) : string :=
  if Nat.leb 32 (String.length t) && all_chars is_lhex (take 32 t) then
    let fs := nonA_fields t in
    if String.eqb key "" || String.eqb tokn "" then join "+" fs
    else let e := hex08 exp in
         join "+" (List.app fs [("A" ++ mk key (hd "" fs) tokn e (ttl_hex ttl_ns) ++ "@" ++ e)%string])
  else t.
Definition spec_manifest_k (mk : sigfun) (m tokn : string) (exp ttl_ns : N) (key : string) (o : string) : bool :=
  String.eqb o (concat_s (map (fun ch : bool * string => if fst ch then spec_tok_k mk tokn exp ttl_ns key (snd ch) else snd ch) (chunks m))).

(* keepstore GET with signing on: data only for a valid unexpired signature for the requesting token;
   expired => 401, otherwise rejected => 403 *)
Definition spec_get_k (mk : sigfun) (signing : bool) (path : string) (auth : option string) (ttl_ns : N)
           (key : string) (now_ns : N) (stored : bool) (code : N) (body_ok : bool) : bool :=
  match route_get path with
  | None => (code =? 400)%N
  | Some h =>
    let loc := drop 1 path in
    if contains "+R" loc && negb (contains "+A" loc) then true
    else
      let served := if stored then (code =? 200)%N && body_ok else (code =? 404)%N in
      if negb signing then served
      else if spec_verify_k mk loc (api_token auth) ttl_ns key now_ns VOk then served
      else if spec_verify_k mk loc (api_token auth) ttl_ns key now_ns VExpired then (code =? 401)%N
      else (code =? 403)%N
  end.

Fixpoint forallb' {A} (f : A -> bool) (l : list A) : bool := match l with [] => true | x :: r => f x && forallb' f r end.

Definition base_tuple (loc tok : string) (exp ttl_ns : N) (key : string) : tuple :=
  (key, hd "" (split_on "+" loc), tok, hex08 exp, ttl_hex ttl_ns).

Definition spec_k (mk : sigfun) (c : case) : bool :=
  match c with
  | CSign loc tok exp ttl key o => spec_sign_k mk loc tok exp ttl key o
  | CVerify loc tok ttl key now o => spec_verify_k mk loc tok ttl key now o
  | CPerturb loc tok exp ttl key now o_signed post ps =>
    spec_sign_k mk loc tok exp ttl key o_signed &&
    (let '(k, h, t, e, l) := base_tuple loc tok exp ttl key in
     let bs := mk k h t e l in
     forallb' (fun p => spec_verify_k mk (p_loc p) (p_tok p) (p_ttl p) (p_key p) now (p_obs p) &&
                        spec_pert_b (k, h, t, e, l) bs p) (map (resolve (o_signed ++ post) tok ttl key) ps))
  | CManifest m tok exp ttl key o => spec_manifest_k mk m tok exp ttl key o
  | CGet signing path auth ttl key now stored code body_ok => spec_get_k mk signing path auth ttl key now stored code body_ok
  | CRe s g => true
  end.

(* ---------- model = observation ---------- *)
Definition opt3_eqb (a b : option (string * string * string)) : bool :=
  match a, b with
  | None, None => true
  | Some (x, y, z), Some (x', y', z') => String.eqb x x' && String.eqb y y' && String.eqb z z'
  | _, _ => false
  end.
Definition optN_eqb (a : option N) (b : N) : bool := match a with Some x => (x =? b)%N | None => true end.

Definition model_k (mk : sigfun) (c : case) : bool :=
  match c with
  | CSign loc tok exp ttl key o =>
    String.eqb o (sign_locator_k mk loc tok exp ttl key) &&
    (* the Rails algorithm gives the same locator whenever the expiry needs no zero padding *)
    ((exp <? 268435456)%N || String.eqb key "" || String.eqb tok "" ||
     String.eqb o (let ts := hexn exp in loc ++ "+A" ++ mk key (blob_hash loc) tok ts (hexn (ttl / 1000000000)%N) ++ "@" ++ ts))
  | CVerify loc tok ttl key now o => vres_eqb o (verify_k mk loc tok ttl key now)
  | CPerturb loc tok exp ttl key now o_signed post ps =>
    String.eqb o_signed (sign_locator_k mk loc tok exp ttl key) &&
    forallb' (fun p => vres_eqb (p_obs p) (verify_k mk (p_loc p) (p_tok p) (p_ttl p) (p_key p) now))
             (map (resolve (o_signed ++ post) tok ttl key) ps)
  | CManifest m tok exp ttl key o => String.eqb o (sign_manifest_k mk m tok exp ttl key)
  | CGet signing path auth ttl key now stored code body_ok =>
    let g := get_gate_k mk signing path auth ttl key now in
    optN_eqb (get_status g stored) code &&
    match g with GVolume _ => negb stored || body_ok | _ => true end
  | CRe s g => opt3_eqb g (parse_signed s)
  end.

Definition spec_b (c : case) : bool := spec_k make_sig c.
Definition model_b (c : case) : bool := model_k make_sig c.

(* ---------- signature table ---------- *)
Definition sigtab := list (tuple * string).
Fixpoint tab_find (t : sigtab) (x : tuple) : option string :=
  match t with [] => None | (y, s) :: r => if tuple_eqb x y then Some s else tab_find r x end.
Definition mk_cached (t : sigtab) : sigfun :=
  fun k h tk e l => match tab_find t (k, h, tk, e, l) with Some s => s | None => make_sig k h tk e l end.
Fixpoint tuple_in (x : tuple) (l : list tuple) : bool :=
  match l with [] => false | y :: r => tuple_eqb x y || tuple_in x r end.
Fixpoint dedup (l : list tuple) : list tuple :=
  match l with [] => [] | x :: r => if tuple_in x r then dedup r else x :: dedup r end.
Definition build_tab (l : list tuple) : sigtab :=
  map (fun x => let '(k, h, t, e, l) := x in (x, make_sig k h t e l)) (dedup l).

(* the signatures a verification will ask for (none if it stops before the comparison) *)
Definition verify_needs (loc tok : string) (ttl_ns : N) (key : string) (now_ns : N) : list tuple :=
  match parse_signed loc with
  | None => []
  | Some (h, sg, e) =>
    match hexnum e with
    | None => []
    | Some ts => if expired ts now_ns then [] else [(key, h, tok, e, ttl_hex ttl_ns)]
    end
  end.
Definition manifest_needs (m tokn : string) (exp ttl_ns : N) (key : string) : list tuple :=
  flat_map (fun ch : bool * string => if fst ch && is_blk (snd ch) then [(key, hd "" (nonA_fields (snd ch)), tokn, hex08 exp, ttl_hex ttl_ns)] else [])
           (chunks m).
Definition needs (c : case) : list tuple :=
  match c with
  | CSign loc tok exp ttl key o => [base_tuple loc tok exp ttl key]
  | CVerify loc tok ttl key now o => verify_needs loc tok ttl key now
  | CPerturb loc tok exp ttl key now o_signed post ps =>
    base_tuple loc tok exp ttl key ::
    flat_map (fun p => verify_needs (p_loc p) (p_tok p) (p_ttl p) (p_key p) now) (map (resolve (o_signed ++ post) tok ttl key) ps)
  | CManifest m tok exp ttl key o => manifest_needs m tok exp ttl key
  | CGet signing path auth ttl key now stored code body_ok =>
    if signing then verify_needs (drop 1 path) (api_token auth) ttl key now else []
  | CRe s g => []
  end.

(* result code per case: 0 ok; +1 model/implementation mismatch; +2 observed behaviour violates the spec *)
Definition code_of (m s : bool) : N := ((if m then 0 else 1) + (if s then 0 else 2))%N.
Definition check_case (c : case) : N :=
  let mk := mk_cached (build_tab (needs c)) in code_of (model_k mk c) (spec_k mk c).

Fixpoint failing_from (i : N) (cs : list case) : list (N * N) :=
  match cs with
  | [] => []
  | c :: r => let k := check_case c in
              if N.eqb k 0 then failing_from (N.succ i) r else (i, k) :: failing_from (N.succ i) r
  end.
Definition failing (cs : list case) : list (N * N) := failing_from 0%N cs.

(* short constructor for the generated files *)
Definition D (e : edit) (tok : option string) (ttl : option N) (key : option string) (o : vres) : dpres :=
  {| d_edit := e; d_tok := tok; d_ttl := ttl; d_key := key; d_obs := o |}.
