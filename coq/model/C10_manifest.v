(* C10 — reference reading of the published manifest format
   (/repo/doc/architecture/manifest-format.html.textile.liquid, "Manifest v1" and "Keep locator format").

   This file contains only the REFERENCE: text utilities, the grammar recogniser [valid_manifest], the parser into
   an abstract manifest, the reference range semantics [ref] and the denotation [denote] (path -> segments) and
   [file_bytes] (path -> bytes for a block store).  The three codecs are modelled in C10_fs.v, C10_gomanifest.v and
   C10_python.v and are compared with this file.  Other properties (C07, C09, C17, C18) may import it.

   Side conditions that the published text leaves implicit and that [valid_manifest] adds (all of them are
   conditions under which the text is meaningful as a directory tree):
     - every file segment lies inside its stream (position + size <= total size of the stream's blocks);
     - block sizes are at most 64 MiB (Keep's block size limit; keepclient.BLOCKSIZE);
     - the rules for path components (non-empty, not "." / "..") are applied to the UNESCAPED names; the one
       exception is the empty-directory marker used by Arvados itself: a zero-size file token whose last component
       unescapes to "." (written \056);
     - no path is both a file and a directory.
   Token bytes: printable ASCII without whitespace; bytes >= 0x80 are allowed too ("utf-8 encoded text"). *)
From Coq Require Import NArith List Ascii String Bool.
From AV Require Import lib.Str.
Import ListNotations.
Local Open Scope string_scope.

(* ---------- strings.Split / Join / SplitN(s, sep, 3) for a one-byte separator ---------- *)
Fixpoint split_on (c : ascii) (s : string) : list string :=
  match s with
  | EmptyString => [EmptyString]
  | String a r =>
      if Ascii.eqb a c then EmptyString :: split_on c r
      else match split_on c r with
           | [] => [String a EmptyString]
           | h :: t => String a h :: t
           end
  end.

Fixpoint join (sep : string) (l : list string) : string :=
  match l with
  | [] => ""
  | x :: r => match r with [] => x | _ => x ++ sep ++ join sep r end
  end.

(* text before the first c, text after it *)
Fixpoint cut_at (c : ascii) (s : string) : option (string * string) :=
  match s with
  | EmptyString => None
  | String a r =>
      if Ascii.eqb a c then Some (EmptyString, r)
      else match cut_at c r with Some (x, y) => Some (String a x, y) | None => None end
  end.
Definition splitn3 (c : ascii) (s : string) : list string :=
  match cut_at c s with
  | None => [s]
  | Some (a, r) => match cut_at c r with None => [a; r] | Some (b, r') => [a; b; r'] end
  end.

Fixpoint contains_char (c : ascii) (s : string) : bool :=
  match s with EmptyString => false | String a r => Ascii.eqb a c || contains_char c r end.
Fixpoint all_chars (p : ascii -> bool) (s : string) : bool :=
  match s with EmptyString => true | String a r => p a && all_chars p r end.
Fixpoint has_prefix (p s : string) : bool :=
  match p, s with
  | EmptyString, _ => true
  | String a p', String b s' => Ascii.eqb a b && has_prefix p' s'
  | _, EmptyString => false
  end.
Fixpoint last_str (l : list string) (d : string) : string :=
  match l with [] => d | [x] => x | _ :: r => last_str r d end.
Fixpoint sconcat (l : list string) : string := match l with [] => "" | x :: r => x ++ sconcat r end.

(* ---------- character classes ---------- *)
Definition cn (a : ascii) : N := N_of_ascii a.
Definition in_range (lo hi : N) (a : ascii) : bool := ((lo <=? cn a) && (cn a <=? hi))%N.
Definition is_digit := in_range 48 57.
Definition is_octd := in_range 48 55.
Definition is_lhex (a : ascii) : bool := is_digit a || in_range 97 102 a.
Definition is_hex (a : ascii) : bool := is_lhex a || in_range 65 70 a.
Definition is_upper := in_range 65 90.
Definition is_hintc (a : ascii) : bool :=            (* [A-Za-z0-9@_-] *)
  is_upper a || in_range 97 122 a || is_digit a || (cn a =? 64)%N || (cn a =? 95)%N || (cn a =? 45)%N.
(* bytes allowed inside a token: everything above the space character (the API server's validator, sdk/ruby/lib/arvados/keep.rb
   STREAM_TOKEN_REGEXP, accepts exactly these; DEL and bytes >= 0x80 included) *)
Definition is_tokc (a : ascii) : bool := (33 <=? cn a)%N.

Definition c_sp : ascii := " "%char.
Definition c_nl : ascii := ascii_of_N 10.
Definition c_colon : ascii := ":"%char.
Definition c_plus : ascii := "+"%char.
Definition c_slash : ascii := "/"%char.
Definition c_bs : ascii := ascii_of_N 92.
Definition s_nl : string := String c_nl "".

(* ---------- decimal numbers ---------- *)
Definition all_digits (s : string) : bool := negb (String.eqb s "") && all_chars is_digit s.
Fixpoint dec_val_acc (acc : N) (s : string) : N :=
  match s with EmptyString => acc | String a r => dec_val_acc (acc * 10 + (cn a - 48))%N r end.
Definition dec_val (s : string) : N := dec_val_acc 0 s.
Definition parse_dec (s : string) : option N := if all_digits s then Some (dec_val s) else None.

(* ---------- escaping (reference): \ooo for bytes <= 32, ":" and "\" ---------- *)
Definition octd (n : N) : ascii := ascii_of_N (48 + n).
Definition oct3 (n : N) : string :=
  String (octd (n / 64)) (String (octd ((n / 8) mod 8)) (String (octd (n mod 8)) "")).
Definition esc_char (must : ascii -> bool) (a : ascii) (rest : string) : string :=
  if must a then String c_bs (oct3 (cn a) ++ rest) else String a rest.
Fixpoint escape_with (must : ascii -> bool) (s : string) : string :=
  match s with EmptyString => "" | String a r => esc_char must a (escape_with must r) end.
Definition must_escape (a : ascii) : bool := (cn a <=? 32)%N || Ascii.eqb a c_colon || Ascii.eqb a c_bs.
Definition escape : string -> string := escape_with must_escape.

(* unescape with a given class for the three digits ("\\" -> "\", "\ddd" -> byte if it is an octal number <= 255);
   any other backslash stays. *)
Definition oct_val (a b c : ascii) : N := ((cn a - 48) * 64 + (cn b - 48) * 8 + (cn c - 48))%N.
Fixpoint unescape_with (dig : ascii -> bool) (s : string) : string :=
  match s with
  | EmptyString => ""
  | String a r =>
      if Ascii.eqb a c_bs then
        match r with
        | String b r1 =>
            if Ascii.eqb b c_bs then String c_bs (unescape_with dig r1)
            else match r1 with
                 | String c (String d r3) =>
                     if dig b && dig c && dig d then
                       if is_octd b && is_octd c && is_octd d && (oct_val b c d <=? 255)%N
                       then String (ascii_of_N (oct_val b c d)) (unescape_with dig r3)
                       else String a (String b (String c (String d (unescape_with dig r3))))
                     else String a (unescape_with dig r)
                 | _ => String a (unescape_with dig r)
                 end
        | EmptyString => String a ""
        end
      else String a (unescape_with dig r)
  end.
Definition unescape : string -> string := unescape_with is_octd.

(* ---------- locators ---------- *)
Definition is_hint (h : string) : bool :=
  match h with EmptyString => false | String a r => is_upper a && all_chars is_hintc r end.
(* hexc = is_lhex: the published grammar; hexc = is_hex: Go's blockdigest.LocatorPattern *)
Definition locator_with (hexc : ascii -> bool) (tok : string) : bool :=
  match split_on c_plus tok with
  | h :: sz :: hints =>
      Nat.eqb (String.length h) 32 && all_chars hexc h && all_digits sz && forallb is_hint hints
  | _ => false
  end.
Definition is_locator : string -> bool := locator_with is_lhex.
Definition loc_hash (tok : string) : string := take 32 tok.
Definition loc_size (tok : string) : N :=
  match split_on c_plus tok with _ :: sz :: _ => dec_val sz | _ => 0%N end.
(* hash+size without the hints *)
Definition loc_strip (tok : string) : string :=
  match split_on c_plus tok with h :: sz :: _ => h ++ "+" ++ sz | _ => tok end.

(* ---------- abstract manifests ---------- *)
Record ftok := { ft_pos : N; ft_len : N; ft_name : string }.                 (* name unescaped *)
Record stream := { s_name : string; s_blocks : list string; s_ftoks : list ftok }.  (* name unescaped; locator tokens *)
Definition manifest := list stream.

Definition parse_ftok (tok : string) : option ftok :=
  match splitn3 c_colon tok with
  | [p; s; n] =>
      match parse_dec p, parse_dec s with
      | Some p', Some s' => Some {| ft_pos := p'; ft_len := s'; ft_name := unescape n |}
      | _, _ => None
      end
  | _ => None
  end.

Fixpoint span_locators (toks : list string) : list string * list string :=
  match toks with
  | [] => ([], [])
  | t :: r => if is_locator t then let '(a, b) := span_locators r in (t :: a, b) else ([], toks)
  end.

Fixpoint map_opt {A B} (f : A -> option B) (l : list A) : option (list B) :=
  match l with
  | [] => Some []
  | x :: r => match f x, map_opt f r with Some y, Some ys => Some (y :: ys) | _, _ => None end
  end.

Definition parse_stream (line : string) : option stream :=
  match split_on c_sp line with
  | name :: rest =>
      let '(locs, fts) := span_locators rest in
      match locs, fts, map_opt parse_ftok fts with
      | _ :: _, _ :: _, Some fs => Some {| s_name := unescape name; s_blocks := locs; s_ftoks := fs |}
      | _, _, _ => None
      end
  | [] => None
  end.

(* lines of a manifest: the text must be empty or end with a newline *)
Definition lines_of (txt : string) : option (list string) :=
  match rev (split_on c_nl txt) with
  | EmptyString :: r => Some (rev r)
  | _ => None
  end.
Definition parse_manifest (txt : string) : option manifest :=
  match lines_of txt with Some ls => map_opt parse_stream ls | None => None end.

(* ---------- reference range semantics ----------
   "By logically concatenating the blocks in the order that they appear, we can refer to positions in the data
   stream ... The size is the count of bytes following the position."
   [ref sizes pos len]: the non-empty pieces (block index, offset in block, length) of [pos, pos+len). *)
Definition seg3 := (nat * N * N)%type.
Fixpoint ref_from (i : nat) (o : N) (sizes : list N) (pos len : N) : list seg3 :=
  match sizes with
  | [] => []
  | s :: r =>
      let lo := N.max pos o in
      let hi := N.min (pos + len) (o + s) in
      (if (lo <? hi)%N then [(i, (lo - o)%N, (hi - lo)%N)] else []) ++ ref_from (S i) (o + s) r pos len
  end.
Definition ref (sizes : list N) (pos len : N) : list seg3 := ref_from 0 0 sizes pos len.
Definition total (sizes : list N) : N := fold_right N.add 0%N sizes.

(* segments as (locator token, offset, length) *)
Definition seg := (string * N * N)%type.
Definition name_segs (blocks : list string) (l : list seg3) : list seg :=
  map (fun '(i, o, n) => (nth i blocks "", o, n)) l.
Definition sizes_of (blocks : list string) : list N := map loc_size blocks.
Definition ftok_segs (s : stream) (f : ftok) : list seg :=
  name_segs (s_blocks s) (ref (sizes_of (s_blocks s)) (ft_pos f) (ft_len f)).

Definition path_of (sn fn : string) : string := sn ++ "/" ++ fn.
Definition stream_segs (s : stream) (path : string) : list seg :=
  flat_map (fun f => if String.eqb (path_of (s_name s) (ft_name f)) path then ftok_segs s f else []) (s_ftoks s).
(* "multiple file tokens with the same combined path name ... must be interpreted as a concatenation of file
   content, in the order that the file tokens appear in the manifest" *)
Definition denote (m : manifest) (path : string) : list seg := flat_map (fun s => stream_segs s path) m.
Definition all_paths (m : manifest) : list string :=
  flat_map (fun s => map (fun f => path_of (s_name s) (ft_name f)) (s_ftoks s)) m.

(* ---------- bytes ---------- *)
Definition store := string -> string.          (* 32-hex-digit hash -> block data *)
Definition substr (o n : N) (s : string) : string := take (N.to_nat n) (drop (N.to_nat o) s).
Definition seg_bytes (st : store) (sg : seg) : string := let '(loc, o, n) := sg in substr o n (st (loc_hash loc)).
Definition segs_bytes (st : store) (l : list seg) : string := sconcat (map (seg_bytes st) l).
Definition file_bytes (st : store) (m : manifest) (path : string) : string := segs_bytes st (denote m path).
Definition slen (s : string) : N := N.of_nat (String.length s).
Definition consistent_blocks (st : store) (blocks : list string) : Prop :=
  forall b, In b blocks -> slen (st (loc_hash b)) = loc_size b.
Definition consistent (st : store) (m : manifest) : Prop := forall s, In s m -> consistent_blocks st (s_blocks s).
(* the stream as one byte string, and the direct reading of a file token *)
Definition stream_data (st : store) (blocks : list string) : string := sconcat (map (fun b => st (loc_hash b)) blocks).
Definition ftok_bytes (st : store) (s : stream) (f : ftok) : string :=
  substr (ft_pos f) (ft_len f) (stream_data st (s_blocks s)).

(* ---------- validity ---------- *)
Definition max_block : N := 67108864.
Definition comps (s : string) : list string := split_on c_slash s.
Definition ok_comp (c : string) : bool := negb (String.eqb c "") && negb (String.eqb c ".") && negb (String.eqb c "..").
Definition valid_stream_name_u (u : string) : bool :=          (* on the unescaped name *)
  match comps u with "." :: r => forallb ok_comp r | _ => false end.
Definition is_marker (f : ftok) : bool :=
  (ft_len f =? 0)%N && String.eqb (last_str (comps (ft_name f)) "") ".".
Definition valid_file_name_u (f : ftok) : bool :=
  let cs := comps (ft_name f) in
  if is_marker f then forallb ok_comp (removelast cs) else forallb ok_comp cs.

Definition valid_stream (line : string) : bool :=
  all_chars (fun a => is_tokc a || Ascii.eqb a c_sp) line &&
  match parse_stream line with
  | Some s =>
      valid_stream_name_u (s_name s) &&
      forallb (fun b => (loc_size b <=? max_block)%N) (s_blocks s) &&
      forallb (fun f => valid_file_name_u f && (ft_pos f + ft_len f <=? total (sizes_of (s_blocks s)))%N) (s_ftoks s)
  | None => false
  end.

(* directory paths implied by a manifest: proper prefixes of every file path; for a marker the directory itself *)
Fixpoint prefixes_from (acc : string) (cs : list string) : list string :=
  match cs with
  | [] => []
  | c :: r => match r with [] => [] | _ => let p := acc ++ "/" ++ c in p :: prefixes_from p r end
  end.
Definition dir_prefixes (path : string) : list string :=
  match comps path with [] => [] | c0 :: r => c0 :: prefixes_from c0 r end.
Definition stream_files (s : stream) : list string :=
  map (fun f => path_of (s_name s) (ft_name f)) (filter (fun f => negb (is_marker f)) (s_ftoks s)).
Definition stream_dirs (s : stream) : list string :=
  flat_map (fun f => dir_prefixes (path_of (s_name s) (ft_name f))) (s_ftoks s).
Definition file_paths (m : manifest) : list string := flat_map stream_files m.
Definition dir_paths (m : manifest) : list string := flat_map stream_dirs m.
Definition mem_str (x : string) (l : list string) : bool := existsb (String.eqb x) l.
Definition no_conflict (m : manifest) : bool :=
  let ds := dir_paths m in forallb (fun f => negb (mem_str f ds)) (file_paths m).

Definition valid_manifest (txt : string) : bool :=
  match lines_of txt with
  | Some ls =>
      forallb valid_stream ls &&
      match map_opt parse_stream ls with Some m => no_conflict m | None => false end
  | None => false
  end.

(* the manifest text with every locator reduced to hash+size (the text that the portable data hash digests) *)
Definition strip_tok (t : string) : string := if is_locator t then loc_strip t else t.
Definition strip_line (line : string) : string :=
  match split_on c_sp line with
  | name :: rest => join " " (name :: map strip_tok rest)      (* the first token is the stream name *)
  | [] => ""
  end.
Definition strip_manifest (txt : string) : string := join s_nl (map strip_line (split_on c_nl txt)).

(* ---------- store-independent comparison of segment lists ----------
   [canon l]: drop empty segments, key blocks by hash, merge a segment with its predecessor when it continues it.
   Equal canonical forms denote equal bytes for every store (proofs/C10_*.v: canon_bytes). *)
Definition cseg := (string * N * N)%type.
Definition canon_add (acc : list cseg) (h : string) (o n : N) : list cseg :=      (* acc: reversed *)
  match acc with
  | (h', o', n') :: r => if String.eqb h h' && (o' + n' =? o)%N then (h', o', (n' + n)%N) :: r else (h, o, n) :: acc
  | [] => [(h, o, n)]
  end.
Definition canon (l : list seg) : list cseg :=
  rev (fold_left (fun acc '(loc, o, n) => if (n =? 0)%N then acc else canon_add acc (loc_hash loc) o n) l []).
Definition cseg_eqb (a b : cseg) : bool :=
  let '(h, o, n) := a in let '(h', o', n') := b in String.eqb h h' && (o =? o')%N && (n =? n')%N.
Fixpoint list_eqb {A} (eq : A -> A -> bool) (a b : list A) : bool :=
  match a, b with
  | [], [] => true
  | x :: r, y :: s => eq x y && list_eqb eq r s
  | _, _ => false
  end.
Definition canon_eqb (a b : list seg) : bool := list_eqb cseg_eqb (canon a) (canon b).
Definition segs_len (l : list seg) : N := fold_right (fun '(_, _, n) acc => (n + acc)%N) 0%N l.

(* ---------- structural well-formedness (what every codec must at least insist on) ----------
   stream ::= name (" " locator)+ (" " file-segment)+ with numeric fields and every non-empty segment inside the
   stream (a zero-size token selects no bytes: the collection filesystem does not range-check its directory markers).
   Lexical details (hash alphabet, hints, signs on numbers, character classes) are deliberately not part of it. *)
Definition lenient_num (s : string) : option N :=
  let '(neg, body) :=
    match s with
    | String a r => if Ascii.eqb a "+"%char then (false, r) else if Ascii.eqb a "-"%char then (true, r) else (false, s)
    | EmptyString => (false, s)
    end in
  if all_digits body then (if neg && negb (dec_val body =? 0)%N then None else Some (dec_val body)) else None.
Definition wf_locator (tok : string) : option N :=
  match split_on c_plus tok with _ :: sz :: _ => lenient_num sz | _ => None end.
Definition wf_ftok (tok : string) : option (N * N) :=
  match splitn3 c_colon tok with
  | [p; s; _] => match lenient_num p, lenient_num s with Some p', Some s' => Some (p', s') | _, _ => None end
  | _ => None
  end.
Fixpoint span_nocolon (toks : list string) : list string * list string :=
  match toks with
  | [] => ([], [])
  | t :: r => if contains_char c_colon t then ([], toks) else let '(a, b) := span_nocolon r in (t :: a, b)
  end.
Definition wf_line (line : string) : bool :=
  match split_on c_sp line with
  | name :: rest =>
      negb (String.eqb name "") &&
      let '(locs, fts) := span_nocolon rest in
      match locs, fts, map_opt wf_locator locs, map_opt wf_ftok fts with
      | _ :: _, _ :: _, Some sizes, Some ranges => forallb (fun '(p, s) => (s =? 0)%N || (p + s <=? total sizes)%N) ranges
      | _, _, _, _ => false
      end
  | [] => false
  end.
Definition wf_manifest (txt : string) : bool :=
  match lines_of txt with Some ls => forallb wf_line ls | None => false end.

(* ---------- reference reading of manifest.Extract(srcpath, relocate) (its doc comment) ----------
   src and reloc are canonical ("." or "./a/b"); [slash]: relocate was written with a trailing "/".
   Result: (destination path, source path) for every file of the extracted manifest. *)
Fixpoint nodup_str (l : list string) : list string :=
  match l with [] => [] | x :: r => x :: filter (fun y => negb (String.eqb x y)) (nodup_str r) end.
Definition extract_ref (m : manifest) (src reloc : string) (slash : bool) : list (string * string) :=
  let ps := nodup_str (all_paths m) in
  if mem_str src ps then
    [((if slash || String.eqb reloc "." then reloc ++ "/" ++ last_str (comps src) "" else reloc), src)]
  else map (fun p => (reloc ++ drop (String.length src) p, p)) (filter (has_prefix (src ++ "/")) ps).
