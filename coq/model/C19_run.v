(* C19 — evaluator for generated case files.  [spec_b] judges the implementation's observed output
   (proofs/C19_spec.v: it reflects the Prop-level statement), [model_b] compares it with the
   executable model (for the cases observed at the wire the search for the secrets in the parts of the
   outgoing requests is done here); [check_case] evaluates both with HMAC digests computed once per case
   (proofs/C19_spec.v: check_case_eq) and sets the known-finding bits for F6b. *)
From Coq Require Import NArith List Ascii String Bool.
From AV Require Import lib.Str lib.Sha1 lib.TokSplit model.C19_model.
Import ListNotations.
Local Open Scope string_scope.

(* ---------- what leaves: the parts of an outgoing request ----------
   every part is a place (Authorization header, query string, body, Cookie header, anything else: other
   headers, method, host, path) with one reading of the text found there (as it is, URL-unescaped,
   base64-decoded) *)
Inductive loc := LAuth | LQuery | LBody | LCookie | LOther.
Definition part := (loc * string)%type.
(* a request sent to a remote cluster: the cluster, the Authorization header, the parts *)
Definition sent_req := (string * string * list part)%type.
Definition loc_eqb (a b : loc) : bool :=
  match a, b with
  | LAuth, LAuth | LQuery, LQuery | LBody, LBody | LCookie, LCookie | LOther, LOther => true
  | _, _ => false
  end.
Definition occurs_in (secrets : list string) (text : string) : bool := existsb (fun s => contains s text) secrets.
(* a secret occurs in a part at place l *)
Definition found (l : loc) (secrets : list string) (wire : list part) : bool :=
  existsb (fun p => loc_eqb (fst p) l && occurs_in secrets (snd p)) wire.
(* no secret occurs anywhere *)
Definition clean_b (secrets : list string) (wire : list part) : bool :=
  forallb (fun p => negb (occurs_in secrets (snd p))) wire.
Definition all_parts (sent : list sent_req) : list part := flat_map (fun q => snd q) sent.

Inductive case :=
(* auth.SaltToken(token, remote) *)
| CSalt (token remote : string) (o : salt_result)
(* saltedTokenProvider(local, remote)(ctx with creds); local answers by the table (default: AcaError) *)
| CProv (remote : string) (creds : option (list string)) (local : list (string * aca_result)) (o : option (list string))
(* keepstore remoteProxy.remoteClient(remote, _, token): the ApiToken of the returned client, or error *)
| CRemote (token remote : string) (o : option string)
(* Handler.remoteClusterRequest(remote, req) with a recording HTTP client.  dbt: what the database knows
   (None: unreachable; Some table: token -> answer of validateAPItoken, tokens not listed are not found);
   secrets: the unsalted v2 secrets carried by req and the legacy tokens of req that the database knows as
   tokens of local users (each longer than 40 characters and unique to this case); observed: error?, and of
   the one request put on the wire: the Authorization header, the query (sorted by key), and its parts *)
| CLegacy (r : lreq) (remote : string) (dbt : option (list (string * db_result))) (secrets : list string)
          (o_err : bool) (o_auth : string) (o_query : list (string * string)) (wire : list part)
(* the same kind of request through the whole legacy stack (setupProxyRemoteCluster: by uuid, by cluster_id,
   multi-cluster uuid query, collection by PDH, container request for another cluster): every request sent to
   a remote cluster.  For a container request the secrets are those of tokens issued by this cluster *)
| CStack (r : lreq) (dbt : option (list (string * db_result))) (secrets : list string) (sent : list sent_req)
(* federation.Conn.ContainerRequestCreate on cluster [local] with rpc remotes [remotes]: target cluster_id,
   the caller's tokens, the provider's lookups of legacy tokens, the runtime_token attribute, what the local
   backend says about the current token and the current user; observed: was a request sent to a remote, its
   Authorization header, the runtime_token read back from its body, its parts *)
| CCrc (local : string) (remotes : list string) (target : string) (creds : list string) (tab : list (string * aca_result))
       (rt : option string) (aca : option aca_rec) (user : option string)
       (o_sent : bool) (o_auth : string) (o_rt : option string) (wire : list part)
(* other federation.Conn methods that reach a remote: every request sent to a remote cluster; secrets: the
   system root token and the unsalted secrets the caller holds *)
| CConn (creds : list string) (tab : list (string * aca_result)) (secrets : list string) (sent : list sent_req)
(* keepstore remoteProxy.Get for a locator with a +R<remote>-... hint, the caller's token in the Authorization
   header; the keep client of the remote cluster has a recording HTTP client: every request it sends *)
| CKsGet (token remote : string) (sent : list sent_req)
(* two overlapping remoteProxy.Get calls for the same remote (one cached keep client per remote): while
   caller A's first attempt is at the remote keep service, caller B's whole request runs; then A's attempt is
   answered 503 and A goes on to the next keep service.  sent_a / sent_b: what was sent on behalf of each *)
| CKsPair (token_a token_b remote : string) (sent_a sent_b : list sent_req).

(* ---------- boolean specification ---------- *)
(* reading a token as the property text does *)
Inductive tclass :=
| TV2 (uuid secret : string)          (* v2/uuid/secret[/...] with an unsalted secret *)
| TV2Salted (uuid : string)           (* v2/uuid/<40 lowercase hex>[/...] *)
| TLegacy                             (* 41 or more characters of [0-9a-z] *)
| TOpaque.                            (* anything else *)
Definition classify (token : string) : tclass :=
  match split_on "/" token with
  | v :: uuid :: secret :: _ =>
    if String.eqb v "v2" then
      (if Nat.eqb (String.length secret) 40 && all_chars is_lhex secret then TV2Salted uuid else TV2 uuid secret)
    else if Nat.leb 41 (String.length token) && all_chars is_obsolete_char token then TLegacy else TOpaque
  | _ => if Nat.leb 41 (String.length token) && all_chars is_obsolete_char token then TLegacy else TOpaque
  end.

Definition res_eqb (a b : salt_result) : bool :=
  match a, b with
  | Salted x, Salted y => String.eqb x y
  | ErrObsolete, ErrObsolete | ErrFormat, ErrFormat | ErrSalted, ErrSalted => true
  | _, _ => false
  end.
Definition is_err (a : salt_result) : bool := match a with Salted _ => false | _ => true end.

(* SaltToken: unsalted v2 => v2/uuid/HMAC(secret, remote); salted => itself if it belongs to the remote,
   else "already salted"; not Arvados v2 => an error (obsolete / format), never a token *)
Definition spec_salt_k (hm : hmfun) (token remote : string) (o : salt_result) : bool :=
  match classify token with
  | TV2 uuid secret => res_eqb o (Salted ("v2/" ++ uuid ++ "/" ++ hm secret remote))
  | TV2Salted uuid => if has_prefix remote uuid then res_eqb o (Salted token) else res_eqb o ErrSalted
  | TLegacy => res_eqb o ErrObsolete
  | TOpaque => res_eqb o ErrFormat
  end.

(* what may be forwarded to the remote for one incoming token; None = the call must fail *)
Definition spec_fwd_k (hm : hmfun) (local : string -> aca_result) (remote token : string) : option string :=
  match classify token with
  | TV2 uuid secret => Some ("v2/" ++ uuid ++ "/" ++ hm secret remote)
  | TV2Salted _ => Some token
  | TOpaque => Some token
  | TLegacy =>
    match local token with
    | AcaUnauthorized => Some token
    | AcaError => None
    | AcaOk uuid api =>
      if has_prefix remote uuid then Some token
      else match classify ("v2/" ++ uuid ++ "/" ++ api) with
           | TV2 u s => Some ("v2/" ++ u ++ "/" ++ hm s remote)
           | _ => None
           end
    end
  end.
Definition opt_eqb (a b : option string) : bool :=
  match a, b with Some x, Some y => String.eqb x y | None, None => true | _, _ => false end.
Fixpoint list_eqb (a b : list string) : bool :=
  match a, b with
  | [], [] => true
  | x :: a', y :: b' => String.eqb x y && list_eqb a' b'
  | _, _ => false
  end.
Fixpoint all_some (l : list (option string)) : option (list string) :=
  match l with
  | [] => Some []
  | None :: _ => None
  | Some x :: r => match all_some r with Some xs => Some (x :: xs) | None => None end
  end.
Definition optl_eqb (a b : option (list string)) : bool :=
  match a, b with Some x, Some y => list_eqb x y | None, None => true | _, _ => false end.
(* the secret of an unsalted v2 token does not occur in what is forwarded for it (meaningful for
   secrets that are longer than the 40-character digest and do not occur in the uuid) *)
Definition long_secret (token : string) : option string :=
  match classify token with
  | TV2 uuid secret => if Nat.ltb 40 (String.length secret) && negb (contains secret uuid) then Some secret else None
  | _ => None
  end.
Fixpoint no_secret_b (tokens outs : list string) : bool :=
  match tokens, outs with
  | t :: ts, o :: os =>
    match long_secret t with Some s => negb (contains s o) | None => true end && no_secret_b ts os
  | _, _ => true
  end.

Fixpoint tab_get (t : list (string * aca_result)) (k : string) : aca_result :=
  match t with [] => AcaError | (k', v) :: r => if String.eqb k k' then v else tab_get r k end.

Definition spec_prov_k (hm : hmfun) (remote : string) (creds : option (list string)) (local : list (string * aca_result))
           (o : option (list string)) : bool :=
  match creds with
  | None => match o with None => true | Some _ => false end
  | Some ts =>
    optl_eqb o (all_some (map (spec_fwd_k hm (tab_get local) remote) ts)) &&
    match o with Some outs => no_secret_b ts outs | None => true end
  end.

(* keepstore forwards a token only in salted form *)
Definition spec_remote_k (hm : hmfun) (token remote : string) (o : option string) : bool :=
  match classify token with
  | TV2 uuid secret => opt_eqb o (Some ("v2/" ++ uuid ++ "/" ++ hm secret remote))
  | TV2Salted uuid => if has_prefix remote uuid then opt_eqb o (Some token) else opt_eqb o None
  | _ => opt_eqb o None
  end.

(* legacy path: a forwarded request carries no unsalted secret anywhere *)
Definition spec_legacy_b (o_err in_auth in_query in_body in_cookie in_other : bool) : bool :=
  o_err || negb (in_auth || in_query || in_body || in_cookie || in_other).
Definition spec_wire_b (o_err : bool) (secrets : list string) (wire : list part) : bool :=
  spec_legacy_b o_err (found LAuth secrets wire) (found LQuery secrets wire) (found LBody secrets wire)
                (found LCookie secrets wire) (found LOther secrets wire).

(* ContainerRequestCreate: the secrets of this cluster the caller holds -- of its v2 tokens issued here and of
   the current token if it was issued here -- occur nowhere in the request sent to the remote, and a current
   token issued here is not what is forwarded as runtime_token (unless the caller put it there itself) *)
Definition crc_secrets (local : string) (creds : list string) (aca : option aca_rec) : list string :=
  (flat_map (fun t => match classify t with
                      | TV2 uuid secret => if has_prefix local uuid && Nat.ltb 40 (String.length secret) then [secret] else []
                      | _ => []
                      end) creds ++
   match aca with
   | Some (uuid, api, _) => if has_prefix local uuid && Nat.ltb 40 (String.length api) then [api] else []
   | None => []
   end)%list.
Definition current_token_forwarded (local : string) (rt : option string) (aca : option aca_rec) (o_rt : option string) : bool :=
  match rt, aca with
  | None, Some (uuid, api, _) => has_prefix local uuid && opt_eqb o_rt (Some ("v2/" ++ uuid ++ "/" ++ api))
  | _, _ => false
  end.
Definition spec_crc_b (local : string) (creds : list string) (rt : option string) (aca : option aca_rec)
           (o_sent : bool) (o_rt : option string) (wire : list part) : bool :=
  clean_b (crc_secrets local creds aca) wire && negb (o_sent && current_token_forwarded local rt aca o_rt).

(* keepstore: the caller's secret -- of an unsalted v2 token, or a legacy token as a whole -- occurs nowhere
   in what is sent to the remote cluster's keep services *)
Definition ks_secrets (token : string) : list string :=
  match classify token with
  | TV2 uuid secret => if Nat.ltb 40 (String.length secret) && negb (contains secret uuid) then [secret] else []
  | TLegacy => [token]
  | _ => []
  end.

(* ... and every request sent on behalf of a caller bears "OAuth2 t" with t what SaltToken makes of that
   caller's token for this remote (spec_remote_k) -- never another caller's token, never an unsaltable one *)
Fixpoint strip_prefix (p s : string) : option string :=
  match p, s with
  | EmptyString, _ => Some s
  | String a p', String b s' => if Ascii.eqb a b then strip_prefix p' s' else None
  | String _ _, EmptyString => None
  end.
Definition ks_auth_ok_k (hm : hmfun) (token remote : string) (sent : list sent_req) : bool :=
  forallb (fun q => match strip_prefix "OAuth2 " (snd (fst q)) with
                    | Some t => spec_remote_k hm token remote (Some t)
                    | None => false
                    end) sent.
Definition spec_ksget_k (hm : hmfun) (secrets : list string) (token remote : string) (sent : list sent_req) : bool :=
  clean_b secrets (all_parts sent) && ks_auth_ok_k hm token remote sent.

Definition spec_k (hm : hmfun) (c : case) : bool :=
  match c with
  | CSalt token remote o => spec_salt_k hm token remote o
  | CProv remote creds local o => spec_prov_k hm remote creds local o
  | CRemote token remote o => spec_remote_k hm token remote o
  | CLegacy r remote dbt secrets o_err o_auth o_query wire => spec_wire_b o_err secrets wire
  | CStack r dbt secrets sent => clean_b secrets (all_parts sent)
  | CCrc local remotes target creds tab rt aca user o_sent o_auth o_rt wire => spec_crc_b local creds rt aca o_sent o_rt wire
  | CConn creds tab secrets sent => clean_b secrets (all_parts sent)
  | CKsGet token remote sent => spec_ksget_k hm (ks_secrets token) token remote sent
  | CKsPair token_a token_b remote sent_a sent_b =>
    spec_ksget_k hm (ks_secrets token_a ++ ks_secrets token_b) token_a remote sent_a &&
    spec_ksget_k hm (ks_secrets token_a ++ ks_secrets token_b) token_b remote sent_b
  end.

(* ---------- known finding F6b (legacy saltAuthToken) ----------
   trigger, in the model's vocabulary: the request carries an unsalted v2 secret as api_token in its
   form body (bit 4) / in its arvados_api_token cookie (bit 8), and the secret was found in the
   outgoing body / Cookie header and nowhere else *)
Definition carries (secrets vals : list string) : bool :=
  existsb (fun s => existsb (fun v => contains s v) vals) secrets.
Definition form_carries (r : lreq) (secrets : list string) : bool := carries secrets (values "api_token" (l_form r)).
Definition cookie_carries (r : lreq) (secrets : list string) : bool :=
  carries secrets (match l_cookie r with Some t => [t] | None => [] end).
Definition f6b_bits (r : lreq) (secrets : list string) (o_err : bool) (wire : list part) : N :=
  let in_body := found LBody secrets wire in
  let in_cookie := found LCookie secrets wire in
  if o_err || found LAuth secrets wire || found LQuery secrets wire || found LOther secrets wire then 0%N
  else if (negb in_body || form_carries r secrets) && (negb in_cookie || cookie_carries r secrets)
  then ((if in_body then 4 else 0) + (if in_cookie then 8 else 0))%N
  else 0%N.
Definition known_F6b_bits (c : case) : N :=
  match c with
  | CLegacy r remote dbt secrets o_err o_auth o_query wire => f6b_bits r secrets o_err wire
  | CStack r dbt secrets sent => f6b_bits r secrets false (all_parts sent)
  | _ => 0%N
  end.

(* ---------- model = observation ---------- *)
Fixpoint pairs_eqb (a b : list (string * string)) : bool :=
  match a, b with
  | [], [] => true
  | (k, v) :: a', (k', v') :: b' => String.eqb k k' && String.eqb v v' && pairs_eqb a' b'
  | _, _ => false
  end.
Definition auth_value (a : auth_hdr) : string :=
  match a with ABearer t => "Bearer " ++ t | _ => "" end.

(* the database of a case *)
Fixpoint db_get (t : list (string * db_result)) (k : string) : db_result :=
  match t with [] => DbNotFound | (k', v) :: r => if String.eqb k k' then v else db_get r k end.
Definition db_of (d : option (list (string * db_result))) : string -> db_result :=
  match d with None => fun _ => DbError | Some t => db_get t end.
(* what saltAuthToken puts into the Authorization header when t is the first token it finds; None: it fails *)
Definition fwd_token_k (hm : hmfun) (db : string -> db_result) (t dest : string) : option string :=
  match salt_token_k hm t dest with
  | Salted x => Some x
  | ErrSalted => None
  | ErrObsolete | ErrFormat =>
    match db t with
    | DbError => None
    | DbNotFound => Some t
    | DbFound user_uuid auth_uuid secret =>
      if has_prefix dest user_uuid then Some t
      else match salt_token_k hm ("v2/" ++ auth_uuid ++ "/" ++ secret) dest with Salted x => Some x | _ => None end
    end
  end.

(* the Authorization header of a request the legacy stack sends to cluster dest: the incoming header when it
   is no token, or what saltAuthToken makes for dest of a token the incoming request carries *)
Definition auth_raw (a : auth_hdr) : option string :=
  match a with ANone => Some "" | AOther v => Some v | _ => None end.
Definition auth_explained_k (hm : hmfun) (db : string -> db_result) (r : lreq) (dest o_auth : string) : bool :=
  opt_eqb (Some o_auth) (auth_raw (l_auth r)) ||
  existsb (fun t => match fwd_token_k hm db t dest with Some x => String.eqb o_auth ("Bearer " ++ x) | None => false end) (load_tokens r).
(* ... and of a request an rpc.Conn sends: the first token the provider returns *)
Definition conn_auth_k (hm : hmfun) (lookup : string -> aca_result) (creds : list string) (dest o_auth : string) : bool :=
  match provider_k hm lookup dest (Some creds) with
  | Some (a :: _) => String.eqb o_auth ("Bearer " ++ a)
  | Some [] => String.eqb o_auth "Bearer -"
  | None => false
  end.

Definition ksget_model_k (hm : hmfun) (token remote : string) (sent : list sent_req) : bool :=
  match remote_client_k hm token remote with
  | Some t => forallb (fun q => String.eqb (snd (fst q)) ("OAuth2 " ++ t)) sent
  | None => match sent with [] => true | _ => false end
  end.

Definition model_k (hm : hmfun) (c : case) : bool :=
  match c with
  | CSalt token remote o => res_eqb o (salt_token_k hm token remote)
  | CProv remote creds local o => optl_eqb o (provider_k hm (tab_get local) remote creds)
  | CRemote token remote o => opt_eqb o (remote_client_k hm token remote)
  | CLegacy r remote dbt secrets o_err o_auth o_query wire =>
    match remote_request_k hm (db_of dbt) r remote with
    | LErr => o_err
    | LFwd r' =>
      negb o_err &&
      (* when no token was found the request is forwarded with its own Authorization header *)
      (match load_tokens r with [] => true | _ => String.eqb o_auth (auth_value (l_auth r')) end) &&
      pairs_eqb o_query (l_query r') &&
      Bool.eqb (found LBody secrets wire) (form_carries r' secrets) &&
      Bool.eqb (found LCookie secrets wire) (cookie_carries r' secrets) &&
      Bool.eqb (found LQuery secrets wire) (carries secrets (map snd (l_query r'))) &&
      Bool.eqb (found LAuth secrets wire) (carries secrets (match l_auth r' with ABearer t => [t] | ABasic _ p => [p] | AOther v => [v] | ANone => [] end))
    end
  | CStack r dbt secrets sent =>
    forallb (fun q => auth_explained_k hm (db_of dbt) r (fst (fst q)) (snd (fst q))) sent
  | CCrc local remotes target creds tab rt aca user o_sent o_auth o_rt wire =>
    match crc_k hm (tab_get tab) (fun _ => None) local remotes target creds rt aca user with
    | CrcSent a t => o_sent && String.eqb o_auth a && opt_eqb o_rt (Some t)
    | _ => negb o_sent
    end
  | CConn creds tab secrets sent =>
    forallb (fun q => conn_auth_k hm (tab_get tab) creds (fst (fst q)) (snd (fst q))) sent
  | CKsGet token remote sent => ksget_model_k hm token remote sent
  | CKsPair token_a token_b remote sent_a sent_b =>
    (* A is sent to both keep services (its salting succeeding), B to both as well *)
    ksget_model_k hm token_a remote sent_a && ksget_model_k hm token_b remote sent_b
  end.

Definition spec_b (c : case) : bool := spec_k hmac_sha1_hex c.
Definition model_b (c : case) : bool := model_k hmac_sha1_hex c.

(* ---------- digest table ---------- *)
Definition hmtab := list (string * string * string).
Fixpoint hm_find (t : hmtab) (k m : string) : option string :=
  match t with
  | [] => None
  | (k', m', d) :: r => if String.eqb k k' && String.eqb m m' then Some d else hm_find r k m
  end.
Definition hm_cached (t : hmtab) : hmfun :=
  fun k m => match hm_find t k m with Some d => d | None => hmac_sha1_hex k m end.
Definition build_tab (l : list (string * string)) : hmtab :=
  map (fun km => (fst km, snd km, hmac_sha1_hex (fst km) (snd km))) l.
Definition tok_needs (local : string -> aca_result) (remote token : string) : list (string * string) :=
  match classify token with
  | TV2 _ secret => [(secret, remote)]
  | TLegacy => match local token with
               | AcaOk uuid api => match classify ("v2/" ++ uuid ++ "/" ++ api) with TV2 _ s => [(s, remote)] | _ => [] end
               | _ => []
               end
  | _ => []
  end.
Definition tok_needs_db (db : string -> db_result) (remote token : string) : list (string * string) :=
  match classify token with
  | TV2 _ secret => [(secret, remote)]
  | TV2Salted _ => []
  | _ => match db token with
         | DbFound u a s => if has_prefix remote u then []
                            else match classify ("v2/" ++ a ++ "/" ++ s) with TV2 _ s' => [(s', remote)] | _ => [] end
         | _ => []
         end
  end.
Definition needs (c : case) : list (string * string) :=
  match c with
  | CSalt token remote o => tok_needs (fun _ => AcaError) remote token
  | CProv remote creds local o =>
    match creds with Some ts => flat_map (tok_needs (tab_get local) remote) ts | None => [] end
  | CRemote token remote o => tok_needs (fun _ => AcaError) remote token
  | CLegacy r remote dbt secrets _ _ _ _ =>
    match load_tokens r with t0 :: _ => tok_needs_db (db_of dbt) remote t0 | [] => [] end
  | CStack r dbt secrets sent =>
    flat_map (fun q => flat_map (tok_needs_db (db_of dbt) (fst (fst q))) (load_tokens r)) sent
  | CCrc local remotes target creds tab rt aca user _ _ _ _ =>
    match cluster_of target with Some dest => flat_map (tok_needs (tab_get tab) dest) creds | None => [] end
  | CConn creds tab secrets sent =>
    flat_map (fun q => flat_map (tok_needs (tab_get tab) (fst (fst q))) creds) sent
  | CKsGet token remote sent => tok_needs (fun _ => AcaError) remote token
  | CKsPair token_a token_b remote _ _ =>
    (tok_needs (fun _ => AcaError) remote token_a ++ tok_needs (fun _ => AcaError) remote token_b)%list
  end.

(* result code per case: 0 ok; +1 model/implementation mismatch; +2 observed behaviour violates the
   spec; +4 / +8 instead of +2: instance of known finding F6b (form body / cookie) *)
Definition code_of (m s : bool) (known : N) : N :=
  ((if m then 0 else 1) + (if s then 0 else if (known =? 0)%N then 2 else known))%N.
Definition check_case (c : case) : N :=
  let hm := hm_cached (build_tab (needs c)) in code_of (model_k hm c) (spec_k hm c) (known_F6b_bits c).

Fixpoint failing_from (i : N) (cs : list case) : list (N * N) :=
  match cs with
  | [] => []
  | c :: r => let k := check_case c in
              if N.eqb k 0 then failing_from (N.succ i) r else (i, k) :: failing_from (N.succ i) r
  end.
Definition failing (cs : list case) : list (N * N) := failing_from 0%N cs.

(* short constructor for the generated files *)
Definition Rq (a : auth_hdr) (q : list (string * string)) (ct : string) (f : list (string * string)) (ck : option string) : lreq :=
  {| l_auth := a; l_query := q; l_ctype := ct; l_form := f; l_cookie := ck |}.
