(* C06 — keep-balance acts only on a complete view.  Executable models (definitions only):
   (a) services/keep-balance/collection.go: EachCollection (paging in (modified_at, uuid) order with the
       four filter modes, the skip rule, the mode switches, the final count check), the API server's
       list call as sort-filter-take, and the environment of concurrent modify/add/delete events;
   (b) the two index readers: sdk/go/arvados/keep_service.go:index (bufio.Scanner lines) and
       sdk/go/keepclient/keepclient.go:GetIndex (terminator test);
   (c) services/keepstore/handlers.go:handleIndex (terminating blank line only after every volume);
   (d) the phase structure of services/keep-balance/balance.go: Balancer.Run / GetCurrentState with one
       request failing.
   uuids and timestamps are naturals (the harness prints uuids zero-padded so that Go's string order
   is the numeric order; timestamp n is base+n seconds, 0 is Go's zero time). *)
From Coq Require Import List Arith Bool NArith ZArith Ascii String.
Import ListNotations.

(* ====================== (a) EachCollection ====================== *)
Record row := { uuid : nat; mtime : nat }.

Definition key_ltb (a b : row) : bool :=
  (mtime a <? mtime b) || ((mtime a =? mtime b) && (uuid a <? uuid b)).

(* params.Filters as EachCollection sets them *)
Inductive flt :=
| FNone
| FGe (t : nat) (notu : nat)     (* modified_at >= t, uuid != notu *)
| FEq (t : nat) (gtu : nat)      (* modified_at = t, uuid > gtu *)
| FGt (t : nat).                 (* modified_at > t *)

Definition matches (f : flt) (r : row) : bool :=
  match f with
  | FNone => true
  | FGe t u => (t <=? mtime r) && negb (uuid r =? u)
  | FEq t u => (mtime r =? t) && (u <? uuid r)
  | FGt t => t <? mtime r
  end.

(* the API server: rows matching the filters, ordered by (modified_at, uuid), first `limit` *)
Fixpoint insert (x : row) (l : list row) : list row :=
  match l with
  | [] => [x]
  | y :: r => if key_ltb x y then x :: l else y :: insert x r
  end.
Definition isort (l : list row) : list row := fold_right insert [] l.
Definition page (db : list row) (f : flt) (n : nat) : list row :=
  firstn n (isort (filter (matches f) db)).
(* count=exact with modified_at <= t *)
Definition count_le (db : list row) (t : nat) : nat := List.length (filter (fun r => mtime r <=? t) db).

(* the scanner's variables: last, filterTime, gettingExactTimestamp, params.Filters; visited = the uuids
   handed to the callback, most recent first (callCount = length visited) *)
Record st := { last : option row; ftime : nat; exact : bool; cur : flt; visited : list nat }.
Definition init : st := {| last := None; ftime := 0; exact := false; cur := FNone; visited := [] |}.

(* `last.ModifiedAt == coll.ModifiedAt && last.UUID >= coll.UUID` (last is the zero Collection at first:
   its UUID "" is >= no uuid, and items with a zero timestamp are only skipped if ... see skip) *)
Definition skip (l : option row) (c : row) : bool :=
  match l with
  | Some l => (mtime l =? mtime c) && (uuid c <=? uuid l)
  | None => false
  end.
Definition visit (s : st) (c : row) : st :=
  if skip (last s) c then s
  else {| last := Some c; ftime := ftime s; exact := exact s; cur := cur s; visited := uuid c :: visited s |}.
Definition process (s : st) (pg : list row) : st := fold_left visit pg s.

Inductive outcome := Continue (s : st) | Done (s : st) | Bug (s : st).
Definition lastm (s : st) : nat := match last s with Some l => mtime l | None => 0 end.
Definition lastu (s : st) : nat := match last s with Some l => uuid l | None => 0 end.

(* the item loop followed by the if / else-if chain *)
Definition advance (s : st) (pg : list row) : outcome :=
  let s := process s pg in
  match pg, exact s with
  | [], false => Done s
  | _, _ =>
    if lastm s =? 0 then Bug s
    else if (negb (List.length pg =? 0)) && (lastm s =? ftime s) then
      Continue {| last := last s; ftime := ftime s; exact := true;
                  cur := FEq (ftime s) (lastu s); visited := visited s |}
    else if exact s then
      Continue {| last := last s; ftime := ftime s; exact := false;
                  cur := FGt (ftime s); visited := visited s |}
    else
      Continue {| last := last s; ftime := lastm s; exact := false;
                  cur := FGe (lastm s) (lastu s); visited := visited s |}
  end.

(* ---- environment: what other clients do between two requests ---- *)
(* Before every request "now" moves forward (clock + 1).  Modify/Add stamp the row with the current
   clock, so several rows touched without a Tick in between share one fresh timestamp. *)
(* Insert u t: a row that was not there appears with an arbitrary (possibly old) timestamp 1 <= t <= now
   (restore from backup, clock skew of another API server): outside "fresh now", kept in the model
   because the final count check exists for exactly this. *)
Inductive event := Modify (u : nat) | Add (u : nat) | Delete (u : nat) | Tick | Insert (u t : nat).

Definition touch (clock u : nat) (r : row) : row :=
  if uuid r =? u then {| uuid := u; mtime := clock |} else r.
Definition has_uuid (db : list row) (u : nat) : bool := existsb (fun r => uuid r =? u) db.

(* world = (table, clock, uuids present since the start of the scan and never deleted) *)
Definition world := (list row * nat * list nat)%type.
Definition apply_event (w : world) (e : event) : world :=
  let '(db, clock, alive) := w in
  match e with
  | Modify u => (map (touch clock u) db, clock, alive)
  | Add u => if has_uuid db u then w else ({| uuid := u; mtime := clock |} :: db, clock, alive)
  | Delete u => (filter (fun r => negb (uuid r =? u)) db, clock, remove Nat.eq_dec u alive)
  | Tick => (db, S clock, alive)
  | Insert u t => if has_uuid db u || (t =? 0) || (clock <? t) then w
                  else ({| uuid := u; mtime := t |} :: db, clock, alive)
  end.
Definition apply_batch (evs : list event) (w : world) : world :=
  let '(db, clock, alive) := w in fold_left apply_event evs (db, S clock, alive).

(* ---- the whole call ---- *)
Inductive result := ROk | RReqErr | RCbErr | RBug | RCountErr | RFuel.

(* request k fails (0 = the initial count, then the pages, then the final count);
   the j-th callback invocation (0-based) returns an error *)
Record faults := { fail_req : option nat; fail_cb : option nat }.
Definition is_k (o : option nat) (k : nat) : bool := match o with Some x => x =? k | None => false end.
Definition cb_failed (f : faults) (s : st) : bool :=
  match fail_cb f with Some j => j <? List.length (visited s) | None => false end.
(* the callback sequence up to and including the failing call *)
Definition cb_cut (f : faults) (s : st) : list nat :=
  match fail_cb f with Some j => firstn (S j) (rev (visited s)) | None => rev (visited s) end.

Fixpoint pages (fuel n : nat) (f : faults) (evs : list (list event)) (w : world) (s : st) (k : nat)
  : result * list nat * world * st :=
  match fuel with
  | O => (RFuel, rev (visited s), w, s)
  | S fuel =>
    let w := apply_batch (hd [] evs) w in
    let '(db, clock, alive) := w in
    if is_k (fail_req f) k then (RReqErr, rev (visited s), w, s)
    else
      let o := advance s (page db (cur s) n) in
      let s1 := match o with Continue x => x | Done x => x | Bug x => x end in
      if cb_failed f s1 then (RCbErr, cb_cut f s1, w, s1)
      else match o with
           | Bug s' => (RBug, rev (visited s'), w, s')
           | Continue s' => pages fuel n f (tl evs) w s' (S k)
           | Done s' =>
             (* final count: modified_at <= filterTime *)
             let w2 := apply_batch (hd [] (tl evs)) w in
             let '(db2, _, _) := w2 in
             if is_k (fail_req f) (S k) then (RReqErr, rev (visited s'), w2, s')
             else if List.length (visited s') <? count_le db2 (ftime s') then (RCountErr, rev (visited s'), w2, s')
             else (ROk, rev (visited s'), w2, s')
           end
  end.

(* pageSize <= 0 means "the maximum page size": 1<<31 - 1; the model takes the effective limit *)
Definition each_collection (fuel n : nat) (f : faults) (evs : list (list event)) (db : list row) (clock : nat)
  : result * list nat * world * st :=
  let w := apply_batch (hd [] evs) (db, clock, map uuid db) in
  if is_k (fail_req f) 0 then (RReqErr, [], w, init)
  else pages fuel n f (tl evs) w init 1.

(* ====================== (b) the index readers ====================== *)
Local Open Scope string_scope.
Definition LF : ascii := ascii_of_nat 10.
Definition CR : ascii := ascii_of_nat 13.
Definition SP : ascii := ascii_of_nat 32.

(* pieces between line feeds; always at least one piece (the part after the last LF, possibly empty) *)
Fixpoint split_on (sep : ascii) (s : string) : list string :=
  match s with
  | EmptyString => [EmptyString]
  | String c r =>
    if Ascii.eqb c sep then EmptyString :: split_on sep r
    else match split_on sep r with
         | p :: ps => String c p :: ps
         | [] => [String c EmptyString]   (* unreachable *)
         end
  end.

Fixpoint nlen (s : string) : N := match s with EmptyString => 0%N | String _ r => N.succ (nlen r) end.
(* dropCR *)
Fixpoint drop_cr (s : string) : string :=
  match s with
  | EmptyString => EmptyString
  | String c EmptyString => if Ascii.eqb c CR then EmptyString else s
  | String c r => String c (drop_cr r)
  end.

(* bufio.Scanner with ScanLines and the default buffer: a line (terminated or not) of 65536 bytes or
   more makes Scan stop with ErrTooLong after the lines before it have been delivered *)
Definition max_token : N := 65536%N.
Fixpoint deliver (pieces : list string) : list string * bool (* error *) :=
  match pieces with
  | [] => ([], false)
  | p :: r => if (max_token <=? nlen p)%N then ([], true)
              else let '(ts, e) := deliver r in (drop_cr p :: ts, e)
  end.
(* tokens of a body: the last piece is a token only if it is non-empty (unterminated final line) *)
Definition scan_lines (body : string) : list string * bool :=
  let ps := split_on LF body in
  match rev ps with
  | EmptyString :: front => deliver (rev front)
  | _ => deliver ps
  end.

(* strconv.ParseInt(s, 10, 64) *)
Definition digit_val (c : ascii) : option N :=
  let n := N_of_ascii c in if ((48 <=? n) && (n <=? 57))%N then Some (n - 48)%N else None.
Fixpoint parse_digits (s : string) (acc : N) : option N :=
  match s with
  | EmptyString => Some acc
  | String c r => match digit_val c with Some d => parse_digits r (acc * 10 + d)%N | None => None end
  end.
Definition parse_unsigned (s : string) : option N :=
  match s with EmptyString => None | _ => parse_digits s 0%N end.
Definition two63 : Z := 9223372036854775808%Z.
Definition parse_int64 (s : string) : option Z :=
  match s with
  | EmptyString => None
  | String c r =>
    if Ascii.eqb c "+"%char then
      match parse_unsigned r with Some n => if (Z.of_N n <? two63)%Z then Some (Z.of_N n) else None | None => None end
    else if Ascii.eqb c "-"%char then
      match parse_unsigned r with Some n => if (Z.of_N n <=? two63)%Z then Some (- Z.of_N n)%Z else None | None => None end
    else
      match parse_unsigned s with Some n => if (Z.of_N n <? two63)%Z then Some (Z.of_N n) else None | None => None end
  end.
(* int64 arithmetic wraps *)
Definition wrap64 (z : Z) : Z := ((z + two63) mod (2 * two63) - two63)%Z.
(* "An old version of keepstore is giving us timestamps in seconds" *)
Definition norm_mtime (m : Z) : Z := if (m <? 1000000000000)%Z then wrap64 (m * 1000000000) else m.

Inductive ierr := ENonTerminalBlank | EFields | EMtime | EScan | ENoEOF.

(* the loop body of KeepService.index over the delivered lines *)
Fixpoint index_lines (ts : list string) (sawEOF : bool) (acc : list (string * Z)) : ierr + (bool * list (string * Z)) :=
  match ts with
  | [] => inr (sawEOF, rev acc)
  | line :: r =>
    if sawEOF then inl ENonTerminalBlank
    else match line with
         | EmptyString => index_lines r true acc
         | _ => match split_on SP line with
                | [d; m] => match parse_int64 m with
                            | Some z => index_lines r false ((d, norm_mtime z) :: acc)
                            | None => inl EMtime
                            end
                | _ => inl EFields
                end
         end
  end.

(* sdk/go/arvados.KeepService.index on a 200 response with this body *)
Definition parse_index (body : string) : ierr + list (string * Z) :=
  let '(ts, scanerr) := scan_lines body in
  match index_lines ts false [] with
  | inl e => inl e
  | inr (sawEOF, entries) =>
    if scanerr then inl EScan else if sawEOF then inr entries else inl ENoEOF
  end.

(* keepclient.GetIndex on a 200 response with this body: the reader content, or ErrIncompleteIndex *)
Fixpoint ends_lflf (s : string) : bool :=
  match s with
  | EmptyString => false
  | String a EmptyString => false
  | String a (String b EmptyString) => Ascii.eqb a LF && Ascii.eqb b LF
  | String _ r => ends_lflf r
  end.
Fixpoint drop_last (s : string) : string :=
  match s with
  | EmptyString => EmptyString
  | String c EmptyString => EmptyString
  | String c r => String c (drop_last r)
  end.
Definition get_index (body : string) : option string :=
  if String.eqb body (String LF EmptyString) || ends_lflf body then Some (drop_last body) else None.

(* a well-formed index: lines `locator SP decimal-mtime LF`, then one empty line *)
Definition render_line (e : string * string) : string := fst e ++ String SP (snd e) ++ String LF EmptyString.
Definition render_lines (es : list (string * string)) : string := fold_right (fun e acc => render_line e ++ acc) "" es.
Definition render_index (es : list (string * string)) : string := render_lines es ++ String LF EmptyString.

(* ====================== (c) keepstore handleIndex ====================== *)
(* one volume: what IndexTo wrote before returning, and whether it returned an error *)
Record vol_out := { v_text : string; v_ok : bool }.
Fixpoint handle_index (vols : list vol_out) : string :=
  match vols with
  | [] => String LF EmptyString                 (* every volume succeeded: terminating blank line *)
  | v :: r => if v_ok v then v_text v ++ handle_index r
              else v_text v                      (* log and return: no terminator *)
  end.

(* ====================== (d) Balancer.Run: phases and the effect of one failing request ====================== *)
Local Close Scope string_scope.
Local Open Scope list_scope.
(* requests a sweep can make (services, mounts and collection requests are numbered by the harness) *)
Inductive req :=
| QKeepServices (page : nat)      (* GET arvados/v1/keep_services *)
| QMounts (srv : nat)             (* GET <keepstore>/mounts *)
| QCurrentUser                    (* CheckSanityEarly *)
| QNullModified                   (* CheckSanityEarly: collections with modified_at = null *)
| QClearTrash (srv : nat)         (* PUT <keepstore>/trash []  (ClearTrashLists) *)
| QDiscovery                      (* GetCurrentState *)
| QIndex (mnt : nat)              (* GET <keepstore>/mounts/<uuid>/blocks *)
| QCollections (i : nat)          (* EachCollection: count, pages, count *)
| QPull (srv : nat)               (* PUT <keepstore>/pull  (CommitPulls) *)
| QTrash (srv : nat).             (* PUT <keepstore>/trash (CommitTrash) *)

Definition req_eqb (a b : req) : bool :=
  match a, b with
  | QKeepServices x, QKeepServices y | QMounts x, QMounts y | QClearTrash x, QClearTrash y
  | QIndex x, QIndex y | QCollections x, QCollections y | QPull x, QPull y | QTrash x, QTrash y => Nat.eqb x y
  | QCurrentUser, QCurrentUser | QNullModified, QNullModified | QDiscovery, QDiscovery => true
  | _, _ => false
  end.

Record sweep_cfg := {
  s_services : list nat;                 (* disk services *)
  s_ks_pages : nat;                      (* keep_services list pages *)
  s_indexed : list nat;                  (* mounts whose index is fetched (one per device) *)
  s_coll_reqs : nat;                     (* collection requests of a complete scan *)
  s_clear : bool;                        (* CommitTrash && rendezvous state changed: ClearTrashLists first *)
  s_commit_pulls : bool;
  s_commit_trash : bool;
  s_sane : bool;                         (* CheckSanityLate passes *)
  s_plan : list (nat * (nat * nat))      (* service -> (#trash, #pull) computed from the complete view *)
}.

Inductive put := PutTrash (srv items : nat) | PutPull (srv items : nat).
Definition put_items (p : put) : nat := match p with PutTrash _ n | PutPull _ n => n end.
Definition is_trash (p : put) : bool := match p with PutTrash _ _ => true | _ => false end.

Fixpoint plan_of (pl : list (nat * (nat * nat))) (s : nat) : nat * nat :=
  match pl with [] => (0, 0) | (k, v) :: r => if Nat.eqb k s then v else plan_of r s end.

(* the phases before anything is committed, in order; a phase is a set of requests that are all
   issued (sequentially or concurrently) unless an earlier phase failed *)
Definition pre_phases (c : sweep_cfg) : list (list req) :=
  [ map QKeepServices (seq 0 (s_ks_pages c));
    map QMounts (s_services c);
    [QCurrentUser]; [QNullModified] ] ++
  (if s_clear c then [map QClearTrash (s_services c)] else []) ++
  [ [QDiscovery];
    map QIndex (s_indexed c) ++ map QCollections (seq 0 (s_coll_reqs c)) ].

(* PUTs sent by a phase *)
Definition phase_puts (ph : list req) : list put :=
  flat_map (fun r => match r with QClearTrash s => [PutTrash s 0] | _ => [] end) ph.

(* run the pre-commit phases: the PUTs sent, and whether every phase succeeded *)
Fixpoint run_pre (fails : req -> bool) (phs : list (list req)) : list put * bool :=
  match phs with
  | [] => ([], true)
  | ph :: r =>
    if existsb fails ph then (phase_puts ph, false)
    else let '(ps, ok) := run_pre fails r in (phase_puts ph ++ ps, ok)
  end.

(* Run: PUT requests received by the keepstores, and whether Run returned nil *)
Definition sweep (c : sweep_cfg) (fails : req -> bool) : list put * bool :=
  let '(pre, ok) := run_pre fails (pre_phases c) in
  if negb ok then (pre, false)
  else if negb (s_sane c) then (pre, false)
  else
    let pulls := if s_commit_pulls c then map (fun s => PutPull s (snd (plan_of (s_plan c) s))) (s_services c) else [] in
    let pull_failed := s_commit_pulls c && existsb (fun s => fails (QPull s)) (s_services c) in
    if pull_failed then (pre ++ pulls, false)       (* "Skip trash if we can't pull" *)
    else
      let trashes := if s_commit_trash c then map (fun s => PutTrash s (fst (plan_of (s_plan c) s))) (s_services c) else [] in
      let trash_failed := s_commit_trash c && existsb (fun s => fails (QTrash s)) (s_services c) in
      (pre ++ pulls ++ trashes, negb trash_failed).
