(* C06 — keep-balance acts only on a complete view.  Executable models (definitions only):
   (a) services/keep-balance/collection.go: EachCollection (paging in (modified_at, uuid) order with the
       four filter modes, the skip rule, the mode switches, the final count check), the API server's
       list call as sort-filter-take, and the environment of concurrent modify/add/delete events;
   (b) the two index readers: sdk/go/arvados/keep_service.go:index (bufio.Scanner lines) and
       sdk/go/keepclient/keepclient.go:GetIndex (terminator test);
   (c) services/keepstore/handlers.go:handleIndex (terminating blank line only after every volume);
   (d) the phase structure of services/keep-balance/balance.go: Balancer.Run / GetCurrentState with one
       request failing.
   uuids and timestamps are naturals (the harness prints uuids zero-padded so that Go's string order
   is the numeric order; timestamp n is base+n seconds, 0 is Go's zero time). *)
From Coq Require Import List Arith Bool NArith ZArith Ascii String.
Import ListNotations.

(* ====================== (a) EachCollection ====================== *)
Record row := { uuid : nat; mtime : nat }.

Definition key_ltb (a b : row) : bool :=
  (mtime a <? mtime b) || ((mtime a =? mtime b) && (uuid a <? uuid b)).

(* params.Filters as EachCollection sets them *)
Inductive flt :=
| FNone
| FGe (t : nat) (notu : nat)     (* modified_at >= t, uuid != notu *)
| FEq (t : nat) (gtu : nat)      (* modified_at = t, uuid > gtu *)
| FGt (t : nat).                 (* modified_at > t *)

Definition matches (f : flt) (r : row) : bool :=
  match f with
  | FNone => true
  | FGe t u => (t <=? mtime r) && negb (uuid r =? u)
  | FEq t u => (mtime r =? t) && (u <? uuid r)
  | FGt t => t <? mtime r
  end.

(* the API server: rows matching the filters, ordered by (modified_at, uuid), first `limit` *)
Fixpoint insert (x : row) (l : list row) : list row :=
  match l with
  | [] => [x]
  | y :: r => if key_ltb x y then x :: l else y :: insert x r
  end.
Definition isort (l : list row) : list row := fold_right insert [] l.
Definition page (db : list row) (f : flt) (n : nat) : list row :=
  firstn n (isort (filter (matches f) db)).
(* count=exact with modified_at <= t *)
Definition count_le (db : list row) (t : nat) : nat := List.length (filter (fun r => mtime r <=? t) db).

(* the scanner's variables: last, filterTime, gettingExactTimestamp, params.Filters; visited = the uuids
   handed to the callback, most recent first (callCount = length visited) *)
Record st := { last : option row; ftime : nat; exact : bool; cur : flt; visited : list nat }.
Definition init : st := {| last := None; ftime := 0; exact := false; cur := FNone; visited := [] |}.

(* `last.ModifiedAt == coll.ModifiedAt && last.UUID >= coll.UUID` (last is the zero Collection at first:
   its UUID "" is >= no uuid, and items with a zero timestamp are only skipped if ... see skip) *)
Definition skip (l : option row) (c : row) : bool :=
  match l with
  | Some l => (mtime l =? mtime c) && (uuid c <=? uuid l)
  | None => false
  end.
Definition visit (s : st) (c : row) : st :=
  if skip (last s) c then s
  else {| last := Some c; ftime := ftime s; exact := exact s; cur := cur s; visited := uuid c :: visited s |}.
Definition process (s : st) (pg : list row) : st := fold_left visit pg s.

Inductive outcome := Continue (s : st) | Done (s : st) | Bug (s : st).
Definition lastm (s : st) : nat := match last s with Some l => mtime l | None => 0 end.
Definition lastu (s : st) : nat := match last s with Some l => uuid l | None => 0 end.

(* the item loop followed by the if / else-if chain *)
Definition advance (s : st) (pg : list row) : outcome :=
  let s := process s pg in
  match pg, exact s with
  | [], false => Done s
  | _, _ =>
    if lastm s =? 0 then Bug s
    else if (negb (List.length pg =? 0)) && (lastm s =? ftime s) then
      Continue {| last := last s; ftime := ftime s; exact := true;
                  cur := FEq (ftime s) (lastu s); visited := visited s |}
    else if exact s then
      Continue {| last := last s; ftime := ftime s; exact := false;
                  cur := FGt (ftime s); visited := visited s |}
    else
      Continue {| last := last s; ftime := lastm s; exact := false;
                  cur := FGe (lastm s) (lastu s); visited := visited s |}
  end.

(* ---- environment: what other clients do between two requests ---- *)
(* Before every request "now" moves forward (clock + 1).  Modify/Add stamp the row with the current
   clock, so several rows touched without a Tick in between share one fresh timestamp. *)
Inductive event := Modify (u : nat) | Add (u : nat) | Delete (u : nat) | Tick.

Definition touch (clock u : nat) (r : row) : row :=
  if uuid r =? u then {| uuid := u; mtime := clock |} else r.
Definition has_uuid (db : list row) (u : nat) : bool := existsb (fun r => uuid r =? u) db.

(* world = (table, clock, uuids present since the start of the scan and never deleted) *)
Definition world := (list row * nat * list nat)%type.
Definition apply_event (w : world) (e : event) : world :=
  let '(db, clock, alive) := w in
  match e with
  | Modify u => (map (touch clock u) db, clock, alive)
  | Add u => if has_uuid db u then w else ({| uuid := u; mtime := clock |} :: db, clock, alive)
  | Delete u => (filter (fun r => negb (uuid r =? u)) db, clock, remove Nat.eq_dec u alive)
  | Tick => (db, S clock, alive)
  end.
Definition apply_batch (evs : list event) (w : world) : world :=
  let '(db, clock, alive) := w in fold_left apply_event evs (db, S clock, alive).

(* ---- the whole call ---- *)
Inductive result := ROk | RReqErr | RCbErr | RBug | RCountErr | RFuel.

(* request k fails (0 = the initial count, then the pages, then the final count);
   the j-th callback invocation (0-based) returns an error *)
Record faults := { fail_req : option nat; fail_cb : option nat }.
Definition is_k (o : option nat) (k : nat) : bool := match o with Some x => x =? k | None => false end.
Definition cb_failed (f : faults) (s : st) : bool :=
  match fail_cb f with Some j => j <? List.length (visited s) | None => false end.
(* the callback sequence up to and including the failing call *)
Definition cb_cut (f : faults) (s : st) : list nat :=
  match fail_cb f with Some j => firstn (S j) (rev (visited s)) | None => rev (visited s) end.

Fixpoint pages (fuel n : nat) (f : faults) (evs : list (list event)) (w : world) (s : st) (k : nat)
  : result * list nat * world * st :=
  match fuel with
  | O => (RFuel, rev (visited s), w, s)
  | S fuel =>
    let w := apply_batch (hd [] evs) w in
    let '(db, clock, alive) := w in
    if is_k (fail_req f) k then (RReqErr, rev (visited s), w, s)
    else
      let o := advance s (page db (cur s) n) in
      let s1 := match o with Continue x => x | Done x => x | Bug x => x end in
      if cb_failed f s1 then (RCbErr, cb_cut f s1, w, s1)
      else match o with
           | Bug s' => (RBug, rev (visited s'), w, s')
           | Continue s' => pages fuel n f (tl evs) w s' (S k)
           | Done s' =>
             (* final count: modified_at <= filterTime *)
             let w2 := apply_batch (hd [] (tl evs)) w in
             let '(db2, _, _) := w2 in
             if is_k (fail_req f) (S k) then (RReqErr, rev (visited s'), w2, s')
             else if List.length (visited s') <? count_le db2 (ftime s') then (RCountErr, rev (visited s'), w2, s')
             else (ROk, rev (visited s'), w2, s')
           end
  end.

(* pageSize <= 0 means "the maximum page size": 1<<31 - 1; the model takes the effective limit *)
Definition each_collection (fuel n : nat) (f : faults) (evs : list (list event)) (db : list row) (clock : nat)
  : result * list nat * world * st :=
  let w := apply_batch (hd [] evs) (db, clock, map uuid db) in
  if is_k (fail_req f) 0 then (RReqErr, [], w, init)
  else pages fuel n f (tl evs) w init 1.
