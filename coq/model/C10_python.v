(* C10 — model of the Python SDK pieces: /repo/sdk/python/arvados/_normalize_stream.py (escape, normalize_stream);
   first_block / locators_and_ranges of _ranges.py are py_first / py_lar in C10_ranges.v. *)
From Coq Require Import NArith List Ascii String Bool.
From AV Require Import lib.Str model.C10_manifest model.C10_ranges model.C10_fs model.C10_gomanifest.
Import ListNotations.
Local Open Scope string_scope.

(* re.sub('\\\\', '\\134'), then re.sub('[:\000-\040]', octal) *)
Definition py_escape (s : string) : string :=
  escape_with (fun a => (cn a <=? 32)%N || Ascii.eqb a c_colon) (escape_with (fun a => Ascii.eqb a c_bs) s).

(* LocatorAndRange(locator, block_size, segment_offset, segment_size) *)
Definition pseg := (string * N * N * N)%type.
Definition pfiles := list (string * list pseg).        (* dict: filename -> segments *)

Definition pn_block (st : list string * list (string * N) * N) (sg : pseg) : list string * list (string * N) * N :=
  let '(toks, blocks, off) := st in
  let '(loc, bsize, _, _) := sg in
  match assoc_get loc blocks with
  | Some _ => st
  | None => ((toks ++ [loc])%list, (blocks ++ [(loc, off)])%list, (off + bsize)%N)
  end.
Definition pn_seg (blocks : list (string * N)) (fout : string) (st : list string * option (N * N)) (sg : pseg)
  : list string * option (N * N) :=
  let '(toks, span) := st in
  let '(loc, _, o, n) := sg in
  let so := (match assoc_get loc blocks with Some b => b | None => 0%N end + o)%N in
  match span with
  | None => (toks, Some (so, (so + n)%N))
  | Some (a, b) =>
      if (so =? b)%N then (toks, Some (a, (b + n)%N))
      else ((toks ++ [span_token a b fout])%list, Some (so, (so + n)%N))
  end.
Definition pn_file (blocks : list (string * N)) (toks : list string) (f : string * list pseg) : list string :=
  let fout := py_escape (fst f) in
  let '(toks1, span) := fold_left (pn_seg blocks fout) (snd f) (toks, None) in
  let toks2 := match span with Some (a, b) => (toks1 ++ [span_token a b fout])%list | None => toks1 end in
  match snd f with [] => (toks2 ++ [("0:0:" ++ fout)%string])%list | _ => toks2 end.
Definition py_sorted_files (sf : pfiles) : pfiles :=
  map (fun k => (k, match assoc_get k sf with Some l => l | None => [] end)) (sort_strs (map fst sf)).
(* normalize_stream(stream_name, stream) -> list of tokens *)
Definition py_normalize_stream (name : string) (sf : pfiles) : list string :=
  let files := py_sorted_files sf in
  let '(toks, blocks, _) := fold_left pn_block (flat_map snd files) ([py_escape name], [], 0%N) in
  let toks1 := match toks with [_] => (toks ++ [empty_block])%list | _ => toks end in
  fold_left (pn_file blocks) files toks1.

(* locators_and_ranges over a stream's blocks, as LocatorAndRange tuples; None = exception *)
Definition py_segs (blocks : list string) (sizes : list N) (pos len : N) : option (list pseg) :=
  match py_lar sizes pos len with
  | PySegs l => Some (map (fun '(i, o, n) => (nth i blocks "", nth i sizes 0%N, o, n)) l)
  | PyPanic => None
  end.
