(* loadManifest over plain trees.  Go's loader builds a pointer tree; model/CFS_bg.v's b_load builds
   it inside the inode table that the operation model runs on.  This file states the same loader over
   an inductive tree whose files are byte strings, which is what the round-trip theorem
   (props/C09.v) is about.  That the two loader models build the same tree is evaluated on every
   manifest of every case (CFS_run.model_b), and b_load is compared with the Go loader by the
   c08load stage. *)
From Coq Require Import NArith List Arith String Bool Ascii.
From AV Require Import lib.Str lib.Path model.CFS_file model.CFS_tree model.CFS_inst model.C08_run model.CFS_bg.
Import ListNotations.
Local Open Scope string_scope.
Local Open Scope list_scope.
Local Open Scope nat_scope.
Notation byte := CFS_file.byte.

Inductive T := TF (b : list byte) | TD (ents : list (string * T)).

Fixpoint tents_find (l : list (string * T)) (name : string) : option T :=
  match l with [] => None | (n, t) :: r => if String.eqb n name then Some t else tents_find r name end.
(* same placement rule as CFS_tree.ents_put *)
Fixpoint tents_put (l : list (string * T)) (name : string) (t : T) : list (string * T) :=
  match l with
  | [] => [(name, t)]
  | (n, x) :: r => if String.eqb n name then (name, t) :: r
                   else if str_ltb name n then (name, t) :: l
                   else (n, x) :: tents_put r name t
  end.

(* rewrite the subtree at [path] (which must exist; every proper prefix must be a directory) *)
Fixpoint tmod (t : T) (path : list string) (f : T -> option T) : option T :=
  match path with
  | [] => f t
  | n :: r =>
      match t with
      | TF _ => None
      | TD ents =>
          match tents_find ents n with
          | None => None
          | Some c => match tmod c r f with
                      | Some c' => Some (TD (tents_put ents n c'))
                      | None => None
                      end
          end
      end
  end.

(* make sure directory [name] exists inside the directory at [cur] *)
Definition ensure_dir (name : string) (d : T) : option T :=
  match d with
  | TF _ => None
  | TD ents => match tents_find ents name with
               | Some (TD _) => Some d
               | Some (TF _) => None
               | None => Some (TD (tents_put ents name (TD [])))
               end
  end.

(* the directory walk of createFileAndParents: "" and "." are skipped, ".." steps up (not above
   the root), anything else is entered, creating it when missing *)
Fixpoint tmkdirs (t : T) (cur : list string) (names : list string) : option (T * list string) :=
  match names with
  | [] => Some (t, cur)
  | name :: r =>
      if String.eqb name "" || String.eqb name "." then tmkdirs t cur r
      else if String.eqb name ".." then
        match cur with [] => None | _ => tmkdirs t (removelast cur) r end
      else match tmod t cur (ensure_dir name) with
           | Some t' => tmkdirs t' (cur ++ [name]) r
           | None => None
           end
  end.

Definition ensure_file (name : string) (d : T) : option T :=
  match d with
  | TF _ => None
  | TD ents => match tents_find ents name with
               | Some (TD _) => None
               | Some (TF _) => Some d
               | None => Some (TD (tents_put ents name (TF [])))
               end
  end.

(* Some (t, None): the path named a directory marker ("."), Some (t, Some p): file at path p *)
Definition tcreate (t : T) (path : string) : option (T * option (list string)) :=
  let names := split_slash path in
  let base := last names "" in
  match tmkdirs t [] (removelast names) with
  | None => None
  | Some (t1, cur) =>
      if String.eqb base "." then Some (t1, None)
      else if special_name base then None
      else match tmod t1 cur (ensure_file base) with
           | Some t2 => Some (t2, Some (cur ++ [base]))
           | None => None
           end
  end.

Definition tappend (b : list byte) (f : T) : option T :=
  match f with TF b0 => Some (TF (b0 ++ b)) | TD _ => None end.

Definition segs_bytes (l : list seg) : list byte := flat_map sbytes l.

(* one stream (manifest line): same token handling as CFS_bg.load_tokens *)
Fixpoint t_load_tokens (tab : list (list byte * string)) (dirname : string) (toks : list string) (t : T)
   (blks : list lseg) (anyfile : bool) (segIdx pos : nat) : option (T * bool * nat) :=
  match toks with
  | [] => Some (t, anyfile, List.length blks)
  | tk :: r =>
      match classify tab tk with
      | TBad => None
      | TBlock b => if anyfile then None else t_load_tokens tab dirname r t (blks ++ [b]) anyfile segIdx pos
      | TFile offset length nm =>
          match blks with
          | [] => None
          | _ =>
            let name := (dirname ++ "/" ++ manifest_unescape nm)%string in
            match tcreate t name with
            | None => None
            | Some (t1, None) => if Nat.eqb length 0 then t_load_tokens tab dirname r t1 blks true segIdx pos else None
            | Some (t1, Some p) =>
                let '(si, p0) := if offset <? pos then (0, 0) else (segIdx, pos) in
                match map_range (S (List.length blks)) blks si p0 offset length [] with
                | None => None
                | Some (si', p', sgs) =>
                    match tmod t1 p (tappend (segs_bytes sgs)) with
                    | Some t2 => t_load_tokens tab dirname r t2 blks true si' p'
                    | None => None
                    end
                end
            end
          end
      end
  end.

Fixpoint t_load_streams (tab : list (list byte * string)) (streams : list string) (t : T) : option T :=
  match streams with
  | [] => Some t
  | st :: r =>
      match split_char " "%char st with
      | [] => None
      | d :: toks =>
          let dirname := manifest_unescape d in
          match t_load_tokens tab dirname toks t [] false 0 0 with
          | None => None
          | Some (t1, anyfile, nblk) =>
              if negb anyfile || Nat.eqb nblk 0 || String.eqb dirname "" then None else t_load_streams tab r t1
          end
      end
  end.

Definition t_load (tab : list (list byte * string)) (txt : string) : option T :=
  let streams := split_char (ascii_of_N 10) txt in
  if negb (String.eqb (last streams "x") "") then None
  else t_load_streams tab (removelast streams) (TD []).

(* every path below a directory, in entry order, with Some bytes (file) or None (directory):
   the same listing as CFS_run.tree_listing *)
Fixpoint listing_T (prefix : string) (t : T) : list (string * option (list byte)) :=
  match t with
  | TF _ => []
  | TD ents =>
      flat_map (fun e =>
        let path := (prefix ++ "/" ++ fst e)%string in
        match snd e with
        | TF b => [(path, Some b)]
        | TD _ => (path, None) :: listing_T path (snd e)
        end) ents
  end.

(* ---- conditions of the round-trip theorem, as computable checks ---- *)
(* every file that marshalManifest visits below d holds stored segments only, and its recursion
   (bounded by the table size) never reaches its bound at a directory *)
Definition is_sto (x : seg) : bool := match x with Sto _ _ _ _ => true | Mem _ _ => false end.
Fixpoint ready (mb fuel : nat) (s : fs (Conc mb)) (d : nat) : bool :=
  match fuel with
  | O => false
  | S f => forallb (fun e => if is_dir (Conc mb) s (snd e) then ready mb f s (snd e)
                             else forallb is_sto (file_segs mb s (snd e)))
                   (dir_ents (Conc mb) s d)
  end.

(* the recursion bound alone: no directory at depth fuel below d *)
Fixpoint deep_ok (mb fuel : nat) (s : fs (Conc mb)) (d : nat) : bool :=
  match fuel with
  | O => false
  | S f => forallb (fun e => if is_dir (Conc mb) s (snd e) then deep_ok mb f s (snd e) else true) (dir_ents (Conc mb) s d)
  end.

Fixpoint has_char (c : ascii) (s : string) : bool :=
  match s with EmptyString => false | String x r => Ascii.eqb x c || has_char c r end.
Definition bytes_beq (d d' : list byte) : bool :=
  Nat.eqb (List.length d) (List.length d') && forallb (fun p => Nat.eqb (fst p) (snd p)) (combine d d').
(* a locator: no separator characters, and the size of its block after the first '+' *)
Definition loc_ok_b (d : list byte) (l : string) : bool :=
  negb (has_char ":"%char l) && negb (has_char " "%char l) && negb (has_char (ascii_of_N 10) l) &&
  match splitn3 "+"%char l with
  | _ :: sz :: _ => match parse_dec sz with Some n => Nat.eqb n (List.length d) | None => false end
  | _ => false
  end.
(* every entry well formed; equal locators name equal blocks *)
Definition tab_ok_b (tab : list (list byte * string)) : bool :=
  forallb (fun e => loc_ok_b (fst e) (snd e)) tab &&
  forallb (fun e => forallb (fun e' => negb (String.eqb (snd e) (snd e')) || bytes_beq (fst e) (fst e')) tab) tab.
Definition in_tab_b (tab : list (list byte * string)) (blks : list (list byte)) : bool :=
  forallb (fun d => existsb (fun e => bytes_beq (fst e) d) tab) blks.
