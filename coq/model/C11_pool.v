(* C11 — the process-wide pool of HTTP clients and the timeouts a Put runs under.  Executable model of
     sdk/go/keepclient/keepclient.go  httpClient()  (package variable defaultClient[insecure][nonDisk], the four
                                      Default*Timeout package variables)
   together with foundNonDiskSvc from the shared discovery model (model/KC_discover.v: k_nondisk, sticky).
   Several KeepClients of one process share the pool; each must be handed a client built for ITS OWN
   (ApiInsecure, disk/proxy) configuration.  A response slower than the client's request timeout is no
   response at all for putReplicas (status 0: retried) — [timed].  Definitions only. *)
From Coq Require Import Arith NArith List Ascii String Bool.
From AV Require Import lib.Str model.KC_discover model.C11_model.
Import ListNotations.
Local Open Scope N_scope.

(* the observable part of an *http.Client built by httpClient(): Timeout, Transport.TLSHandshakeTimeout (ms),
   Transport.TLSClientConfig.InsecureSkipVerify *)
Record hcfg := { h_timeout : N; h_tls_timeout : N; h_insecure : bool }.

(* DefaultRequestTimeout, DefaultProxyRequestTimeout, DefaultTLSHandshakeTimeout, DefaultProxyTLSHandshakeTimeout *)
Record defaults := { df_req : N; df_proxy_req : N; df_tls : N; df_proxy_tls : N }.

(* the client httpClient() builds for a KeepClient with these two flags *)
Definition mk_client (d : defaults) (insecure nondisk : bool) : hcfg :=
  {| h_timeout := if nondisk then df_proxy_req d else df_req d;
     h_tls_timeout := if nondisk then df_proxy_tls d else df_tls d;
     h_insecure := insecure |}.

(* defaultClient: map[bool]map[bool]HTTPClient *)
Definition pool := list (bool * bool * hcfg).
Fixpoint pool_get (p : pool) (insecure nondisk : bool) : option hcfg :=
  match p with
  | [] => None
  | (a, b, c) :: r => if Bool.eqb a insecure && Bool.eqb b nondisk then Some c else pool_get r insecure nondisk
  end.

(* httpClient() with kc.HTTPClient == nil: look up [ApiInsecure][foundNonDiskSvc], else build and store there *)
Definition http_client (d : defaults) (p : pool) (insecure nondisk : bool) : hcfg * pool :=
  match pool_get p insecure nondisk with
  | Some c => (c, p)
  | None => let c := mk_client d insecure nondisk in (c, (insecure, nondisk, c) :: p)
  end.

(* one KeepClient of the process: its TLS setting and the service lists it was given so far *)
Record kuse := { u_insecure : bool; u_lists : list (list dsvc) }.
Definition use_nondisk (u : kuse) : bool := k_nondisk (load_all kstate0 (u_lists u)).

(* the KeepClients of a process ask for their HTTP client one after the other *)
Fixpoint run_uses (d : defaults) (p : pool) (us : list kuse) : list hcfg :=
  match us with
  | [] => []
  | u :: r => let '(c, p') := http_client d p (u_insecure u) (use_nondisk u) in c :: run_uses d p' r
  end.

(* ---- specification vocabulary ---- *)
Definition has_nondisk (l : list dsvc) : bool := existsb (fun s => negb (is_disk s)) (kept l).
Definition cfg_eqb (a b : hcfg) : bool :=
  (h_timeout a =? h_timeout b) && (h_tls_timeout a =? h_tls_timeout b) && Bool.eqb (h_insecure a) (h_insecure b).

(* The client a KeepClient is handed must carry its own TLS setting; proxy timeouts if the list in force has a
   service that is not a disk, disk timeouts if no list it was ever given had one (in between — only an earlier
   list had one — the code keeps the proxy timeouts; either is accepted). *)
Definition use_ok_b (d : defaults) (u : kuse) (c : hcfg) : bool :=
  Bool.eqb (h_insecure c) (u_insecure u) &&
  (if has_nondisk (current_list (u_lists u)) then cfg_eqb c (mk_client d (u_insecure u) true)
   else if existsb has_nondisk (u_lists u) then
     cfg_eqb c (mk_client d (u_insecure u) true) || cfg_eqb c (mk_client d (u_insecure u) false)
   else cfg_eqb c (mk_client d (u_insecure u) false)).

Fixpoint uses_ok_b (d : defaults) (us : list kuse) (cs : list hcfg) : bool :=
  match us, cs with
  | [], [] => true
  | u :: us', c :: cs' => use_ok_b d u c && uses_ok_b d us' cs'
  | _, _ => false
  end.

(* a response that takes [lat] under a client whose request timeout is [timeout]: what putReplicas sees *)
Definition timed (timeout lat : N) (o : outcome) : outcome := if lat <? timeout then o else ConnErr.

(* ---- evaluator for the generated cases of stage c11pool ---- *)
Record pcase := { p_defaults : defaults; p_uses : list kuse; p_obs : list hcfg }.
Definition pool_spec_b (c : pcase) : bool := uses_ok_b (p_defaults c) (p_uses c) (p_obs c).
Fixpoint cfgs_eqb (a b : list hcfg) : bool :=
  match a, b with [], [] => true | x :: a', y :: b' => cfg_eqb x y && cfgs_eqb a' b' | _, _ => false end.
Definition pool_model_b (c : pcase) : bool := cfgs_eqb (p_obs c) (run_uses (p_defaults c) [] (p_uses c)).
Definition pool_check_case (c : pcase) : N :=
  (if pool_model_b c then 0 else 1) + (if pool_spec_b c then 0 else 2).
Fixpoint pool_failing_from (i : N) (cs : list pcase) : list (N * N) :=
  match cs with
  | [] => []
  | c :: r => let k := pool_check_case c in
              if N.eqb k 0 then pool_failing_from (N.succ i) r else (i, k) :: pool_failing_from (N.succ i) r
  end.
Definition pool_failing (cs : list pcase) : list (N * N) := pool_failing_from 0 cs.

(* short constructors for generated files *)
Definition HC (t tls : N) (ins : bool) : hcfg := {| h_timeout := t; h_tls_timeout := tls; h_insecure := ins |}.
Definition U (ins : bool) (ls : list (list dsvc)) : kuse := {| u_insecure := ins; u_lists := ls |}.
Definition DF (a b c e : N) : defaults := {| df_req := a; df_proxy_req := b; df_tls := c; df_proxy_tls := e |}.

(* the variant in which a new client is filed under the transposed key (regression witness, proofs file) *)
Definition http_client_transposed (d : defaults) (p : pool) (insecure nondisk : bool) : hcfg * pool :=
  match pool_get p insecure nondisk with
  | Some c => (c, p)
  | None => let c := mk_client d insecure nondisk in (c, (nondisk, insecure, c) :: p)
  end.
Fixpoint run_uses_transposed (d : defaults) (p : pool) (us : list kuse) : list hcfg :=
  match us with
  | [] => []
  | u :: r => let '(c, p') := http_client_transposed d p (u_insecure u) (use_nondisk u) in c :: run_uses_transposed d p' r
  end.

(* ------------------------------------------------------------------ the discovery cache between a refresh and its answer
   (discover.go, method poll of cachedSvcList: the goroutine owning the cached keep_services list of one API host) *)
Inductive cache_state := CHas (l : list dsvc) | CWaiting.      (* CWaiting: nothing is offered on "latest" *)
Inductive cache_event :=
| EvClear                       (* RefreshServiceDiscovery / SIGHUP: `<-ent.clear` *)
| EvFetched (l : list dsvc).    (* a successful API call: `replace <- next` *)
Definition cache_step (st : cache_state) (e : cache_event) : cache_state :=
  match e with
  | EvClear => CWaiting                       (* wakeup <- ...; current = <-replace : blocks until the next success *)
  | EvFetched l => CHas l
  end.
(* what a KeepClient asking now (discoverServices: `sl := <-cacheEnt.latest`) gets: None = it blocks *)
Definition cache_offer (st : cache_state) : option (list dsvc) := match st with CHas l => Some l | CWaiting => None end.
Definition cache_run (st : cache_state) (evs : list cache_event) : cache_state := fold_left cache_step evs st.

(* stage c11refresh: the lists the API served (the last one requested by a refresh whose answer was withheld until the
   Put had started), and the base URLs the Put's requests went to *)
Record fcase := { f_lists : list (list dsvc); f_contacted : list string }.
Definition refresh_spec_b (c : fcase) : bool :=
  let l := current_list (f_lists c) in
  negb (uuids_distinct_b l) ||
  forallb (fun u => existsb (String.eqb u) (map d_url (filter writable_svc (kept l)))) (f_contacted c).
Definition refresh_check_case (c : fcase) : N := if refresh_spec_b c then 0 else 3.
Fixpoint refresh_failing_from (i : N) (cs : list fcase) : list (N * N) :=
  match cs with
  | [] => []
  | c :: r => let k := refresh_check_case c in
              if N.eqb k 0 then refresh_failing_from (N.succ i) r else (i, k) :: refresh_failing_from (N.succ i) r
  end.
Definition refresh_failing (cs : list fcase) : list (N * N) := refresh_failing_from 0 cs.
