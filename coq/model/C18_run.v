(* C18: evaluator for generated case files (stage c18: package lib/controller/federation).
   CGet  = Conn.CollectionGet by portable data hash with gated stub backends (release order = arrivals)
   CUuid = Conn.CollectionGet by uuid
   CRw   = rewriteManifest called directly;  CPdh = arvados.PortableDataHash called directly.
   [model_b] compares the model with the observation; [spec_b] judges the observation with the
   specification: acceptance by hash, provenance of the result, error class, and, for valid manifests,
   the only-signatures-rewritten relation stated on the parsed manifest. *)
From Coq Require Import NArith List Ascii String Bool.
From AV Require Import lib.Str lib.Md5 lib.TokSplit lib.ManifestTok model.C18_model.
Import ListNotations.
Local Open Scope string_scope.

Inductive case :=
| CGet (local_id req fwd : string) (local : answer) (arrivals : list (string * answer))
       (calls : list string)          (* "backend|uuid|forwarded_for" for every CollectionGet a stub received *)
       (res : result)
| CUuid (local_id : string) (remotes : list string) (uuid : string) (served_by : string) (a : answer) (res : result)
| CRw (m r out : string)
| CPdh (m out : string).

Definition result_eqb (a b : result) : bool :=
  match a, b with ROk x, ROk y => x =? y | RErr x, RErr y => N.eqb x y | _, _ => false end.
Fixpoint count (x : string) (l : list string) : nat :=
  match l with [] => O | y :: r => (if x =? y then 1 else 0) + count x r end.
Definition perm_b (a b : list string) : bool := forallb (fun x => Nat.eqb (count x a) (count x b)) (a ++ b).

Definition jarr (req : string) (arr : list (string * answer)) : list (string * janswer) :=
  map (fun ra => (fst ra, judge req (snd ra))) arr.
Definition call_key (b u f : string) : string := b ++ "|" ++ u ++ "|" ++ f.

(* ---------- model ---------- *)
Definition model_get (local_id req fwd : string) (jl : janswer) (ja : list (string * janswer))
  (calls : list string) (res : result) : bool :=
  result_eqb (collection_get_j fwd jl ja) res &&
  perm_b calls (call_key "" req (local_id ++ "-" ++ fwd) ::
                if remotes_asked fwd jl then map (fun ra => call_key (fst ra) req (local_id ++ "-" ++ fwd)) ja else []).

(* ---------- specification ---------- *)
(* what a relayed manifest must look like: unchanged from the local cluster; from remote r, if the
   manifest is valid, exactly the parsed manifest with every A-hint turned into an R<r>- hint *)
Definition remote_ok (r m m' : string) : bool :=
  match parse m with
  | Some ss => m' =? render (map (rw_stream r) ss)
  | None => true
  end.
Definition relayed_ok (r m m' : string) : bool := if r =? "" then m' =? m else remote_ok r m m'.
Definition explains (m' : string) (ra : string * janswer) : bool :=
  match snd ra with JCol m true => relayed_ok (fst ra) m m' | _ => false end.
Definition accepting (a : janswer) : bool := match a with JCol _ true => true | _ => false end.
Definition is404 (a : janswer) : bool := match a with JErr c => N.eqb c 404 | _ => false end.

Definition spec_get (fwd : string) (jl : janswer) (ja : list (string * janswer)) (res : result) : bool :=
  match res with
  | ROk m' =>
    (* handed out only if some answer really hashes to the requested value, and it is that answer, relayed *)
    existsb (explains m') (("", jl) :: ja)
  | RErr c =>
    (* an error only if the local answer does not verify ... *)
    negb (accepting jl) &&
    (* ... and, when the federation is searched (local 404, not forwarded), no remote answer verifies:
       a bad remote never wins over an honest one; all-404 => 404, otherwise 502 *)
    (negb (is404 jl && (fwd =? "")) ||
     (negb (existsb (fun ra => accepting (snd ra)) ja) &&
      N.eqb c (if forallb (fun ra => is404 (snd ra)) ja then 404 else 502)))
  end.

Definition spec_uuid (local_id uuid : string) (a : answer) (res : result) : bool :=
  match a, res with
  | ACol m, ROk m' => if take 5 uuid =? local_id then m' =? m else remote_ok (take 5 uuid) m m'
  | ACol _, RErr _ => false
  | _, ROk _ => false
  | _, RErr _ => true
  end.

Definition model_b (c : case) : bool :=
  match c with
  | CGet lid req fwd l arr calls res => model_get lid req fwd (judge req l) (jarr req arr) calls res
  | CUuid lid rems uuid by_ a res => result_eqb (collection_get_uuid lid uuid a) res && (uuid_backend lid rems uuid =? by_)
  | CRw m r out => rewrite_manifest m r =? out
  | CPdh m out => pdh m =? out
  end.
Definition spec_b (c : case) : bool :=
  match c with
  | CGet lid req fwd l arr calls res => spec_get fwd (judge req l) (jarr req arr) res
  | CUuid lid rems uuid by_ a res => spec_uuid lid uuid a res
  | CRw m r out => remote_ok r m out
  | CPdh m out => true
  end.

(* the hash check is the expensive part: judge every answer once and share it between model and spec *)
Definition check_case (c : case) : N :=
  match c with
  | CGet lid req fwd l arr calls res =>
    let jl := judge req l in let ja := jarr req arr in
    ((if model_get lid req fwd jl ja calls res then 0 else 1) + (if spec_get fwd jl ja res then 0 else 2))%N
  | _ => ((if model_b c then 0 else 1) + (if spec_b c then 0 else 2))%N
  end.

Fixpoint failing_from (i : N) (cs : list case) : list (N * N) :=
  match cs with
  | [] => []
  | c :: r => let k := check_case c in
              if N.eqb k 0 then failing_from (N.succ i) r else (i, k) :: failing_from (N.succ i) r
  end.
Definition failing (cs : list case) : list (N * N) := failing_from 0%N cs.
