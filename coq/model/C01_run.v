(* C01 — evaluator for generated case files.
   A case = the planted volumes (in volume-manager order), the request sequence, and for every request
   what the real router answered plus the directory listing observed afterwards.
   [spec_b] judges the OBSERVED behaviour only (it never looks at the model); [model_b] compares the
   model's prediction with the observation.  proofs/C01_proofs.v shows spec_b <-> Spec (Prop level) and
   that the model's own trace satisfies Spec for every digest function, volume set and request list. *)
From Coq Require Import NArith List String Bool.
From AV Require Import lib.Str model.C01_model.
Import ListNotations.
Local Open Scope N_scope.

(* one observed answer *)
Record obs := {
  o_code : N;                              (* HTTP status *)
  o_body : option content;                 (* body of a 200 answer to GET/HEAD, as {cid; length} *)
  o_cl : option N;                         (* Content-Length header, when present and numeric *)
  o_after : list (list (string * copy));   (* per volume: what is stored under each block name of the case *)
  o_extra : N                              (* directory entries that are neither block files of the case
                                              nor planted by the harness (temp files…) *)
}.

Record case := {
  c_digest : list (N * string);            (* cid -> MD5 hex, computed by Go *)
  c_names : list string;                   (* the block names (hashes) used by the case *)
  c_vols : list vol;                       (* planted state, volume-manager order *)
  c_ops : list op;
  c_obs : list obs
}.

(* H instantiated by the finite table *)
Fixpoint tbl (t : list (N * string)) (k : N) : string :=
  match t with [] => "" | (i, s) :: r => if i =? k then s else tbl r k end.
Definition digest (c : case) (x : content) : string := tbl (c_digest c) (cid x).

Definition copy_eqb (a b : copy) : bool :=
  match a, b with
  | Absent, Absent => true
  | Unreadable, Unreadable => true
  | File x, File y => content_eqb x y
  | _, _ => false
  end.

Definition listing_of (names : list string) (v : vol) : list (string * copy) :=
  map (fun h => (h, lookup v h)) names.

Fixpoint listing_eqb (a b : list (string * copy)) : bool :=
  match a, b with
  | [], [] => true
  | (h, x) :: r, (h', y) :: r' => String.eqb h h' && copy_eqb x y && listing_eqb r r'
  | _, _ => false
  end.
Fixpoint listings_eqb (a b : list (list (string * copy))) : bool :=
  match a, b with
  | [], [] => true
  | x :: r, y :: r' => listing_eqb x y && listings_eqb r r'
  | _, _ => false
  end.

Definition opt_content_eqb (a b : option content) : bool :=
  match a, b with Some x, Some y => content_eqb x y | None, None => true | _, _ => false end.
Definition opt_N_eqb (a b : option N) : bool :=
  match a, b with Some x, Some y => x =? y | None, None => true | _, _ => false end.

(* ------------------------------------------------------------------ *)
(* The boolean specification, over observations.                        *)

(* "an intact copy of h can be read from this listing": a regular file of at most BlockSize bytes
   whose digest is h, on any volume (all volumes are readable) *)
Definition good_copy (dg : content -> string) (h : string) (x : copy) : bool :=
  match x with File c => String.eqb (dg c) h && (clen c <=? BlockSize) | _ => false end.
Definition holds_intact (dg : content -> string) (h : string) (l : list (string * copy)) : bool :=
  existsb (fun p => String.eqb (fst p) h && good_copy dg h (snd p)) l.
Definition intact_somewhere (dg : content -> string) (h : string) (ls : list (list (string * copy))) : bool :=
  existsb (holds_intact dg h) ls.

Definition ok2 (code : N) : bool := code / 100 =? 2.

(* one request, judged against the listing before it and the answer/listing after it *)
Definition spec_step (dg : content -> string) (before : list (list (string * copy))) (o : op) (a : obs) : bool :=
  match o with
  | Get h | Head h =>
    (* success only with a body that hashes to h and has the reported length *)
    (negb (ok2 (o_code a)) ||
       match o_body a with
       | Some b => String.eqb (dg b) h && opt_N_eqb (o_cl a) (Some (clen b))
       | None => false
       end) &&
    (* an intact copy anywhere => success; none => an error status *)
    Bool.eqb (ok2 (o_code a)) (intact_somewhere dg h before)
  | Put h d =>
    (* acknowledged only if the body hashes to h, and then an intact copy is on disk *)
    negb (ok2 (o_code a)) ||
    (String.eqb (dg d) h && intact_somewhere dg h (o_after a))
  | PutShort h d n =>
    (* the request body is what arrived (d, fewer bytes than announced): the same clause *)
    negb (ok2 (o_code a)) ||
    (String.eqb (dg d) h && intact_somewhere dg h (o_after a))
  | PutCancel h d =>
    negb (ok2 (o_code a)) ||
    (String.eqb (dg d) h && intact_somewhere dg h (o_after a))
  end.

Fixpoint spec_steps (dg : content -> string) (before : list (list (string * copy))) (ops : list op) (os : list obs) : bool :=
  match ops, os with
  | [], [] => true
  | o :: r, a :: r' => spec_step dg before o a && spec_steps dg (o_after a) r r'
  | _, _ => false
  end.

(* "once it is acknowledged an intact copy is retrievable": no request of this vocabulary (GET, HEAD, PUT
   -- complete, cut short, abandoned by its client) takes an intact copy away: a block name that has an
   intact copy somewhere before a request has one after it *)
Definition keep_step (dg : content -> string) (names : list string) (before after : list (list (string * copy))) : bool :=
  forallb (fun h => negb (intact_somewhere dg h before) || intact_somewhere dg h after) names.
Fixpoint keep_steps (dg : content -> string) (names : list string) (before : list (list (string * copy))) (os : list obs) : bool :=
  match os with
  | [] => true
  | a :: r => keep_step dg names before (o_after a) && keep_steps dg names (o_after a) r
  end.

Definition spec_b (c : case) : bool :=
  spec_steps (digest c) (map (listing_of (c_names c)) (c_vols c)) (c_ops c) (c_obs c) &&
  keep_steps (digest c) (c_names c) (map (listing_of (c_names c)) (c_vols c)) (c_obs c).

(* ------------------------------------------------------------------ *)
(* model output = observed output (status class, body, Content-Length, listings, no stray files) *)

Definition obs_of (names : list string) (p : resp * state) : obs :=
  {| o_code := code (fst p); o_body := body (fst p); o_cl := clength (fst p);
     o_after := map (listing_of names) (vols (snd p)); o_extra := 0 |}.

Definition obs_eqb (m a : obs) : bool :=
  (o_code m / 100 =? o_code a / 100) &&
  (negb (ok2 (o_code a)) || (opt_content_eqb (o_body m) (o_body a) && opt_N_eqb (o_cl m) (o_cl a))) &&
  listings_eqb (o_after m) (o_after a) &&
  (o_extra a =? 0).

Fixpoint obs_list_eqb (m a : list obs) : bool :=
  match m, a with
  | [], [] => true
  | x :: r, y :: r' => obs_eqb x y && obs_list_eqb r r'
  | _, _ => false
  end.

Definition model_obs (c : case) : list obs :=
  map (obs_of (c_names c)) (run (digest c) {| vols := c_vols c; counter := 0 |} (c_ops c)).

Definition model_b (c : case) : bool := obs_list_eqb (model_obs c) (c_obs c).

Definition check_case (c : case) : N :=
  (if model_b c then 0 else 1) + (if spec_b c then 0 else 2).

Fixpoint failing_from (i : N) (cs : list case) : list (N * N) :=
  match cs with
  | [] => []
  | c :: r => let k := check_case c in
              if k =? 0 then failing_from (N.succ i) r else (i, k) :: failing_from (N.succ i) r
  end.
Definition failing (cs : list case) : list (N * N) := failing_from 0 cs.

(* short constructors for the generated files *)
Definition C (i l : N) : content := {| cid := i; clen := l |}.
Definition V (r f : bool) (bp : list string) (fs : list (string * copy)) : vol :=
  {| ro := r; full := f; badpfx := bp; files := fs |}.
Definition O (code : N) (b : option content) (cl : option N) (after : list (list (string * copy))) (extra : N) : obs :=
  {| o_code := code; o_body := b; o_cl := cl; o_after := after; o_extra := extra |}.
