(* C11 — evaluator for generated case files.
   [cin] = the inputs of one Put (service list, rendezvous order, want, retries, entry point, data,
   response oracle as a table, completion schedule as a list of picks); [obs] = what the harness saw
   the real KeepClient do in lock-step with the model's schedule.  [spec_b] judges the observation
   (proofs/C11_spec.v: it reflects the Prop-level [Spec], and the model's own run satisfies [Spec] for
   every input), [model_b] compares the observation with the model's run. *)
From Coq Require Import Arith NArith List Ascii String Bool.
From AV Require Import lib.Str model.KC_discover model.C11_model.
Import ListNotations.
Local Open Scope string_scope.
Local Open Scope nat_scope.

(* the C11 view of a list item: the uuid is only a map key *)
Definition k_of (s : dsvc) : ksvc :=
  {| k_host := d_host s; k_port := d_port s; k_ssl := d_ssl s; k_type := d_type s; k_ro := d_ro s |}.

Record cin := {
  i_lists : list (list dsvc);    (* the keep_services lists the client was given, one after the other
                                    (LoadKeepServicesFromJSON each time); the last one is in force for the Put *)
  i_order : list nat;            (* NewRootSorter(all roots, hash) as indices into i_svcs *)
  i_want : nat;                  (* Want_replicas *)
  i_retries : nat;               (* Retries *)
  i_entry : entry;
  i_hash : string;               (* hash argument of PutHB/PutHR (unused by PutB) *)
  i_data : string;
  i_nbytes : N;                  (* dataBytes argument of PutHR *)
  i_md5 : string;                (* md5 hex of i_data (finite table for H, computed by Go) *)
  i_table : list (list outcome); (* per service index, per attempt: the scripted answer (body = suffix) *)
  i_picks : list nat             (* completion schedule *)
}.

(* the list in force when the Put is made (model/KC_discover.v: every load replaces the previous roots) *)
Definition i_svcs (i : cin) : list ksvc := map k_of (current_list (i_lists i)).

(* the same with the digest, the oracle and the schedule as arbitrary functions: the theorems are
   stated for these; a case file supplies finite tables *)
Record gin := {
  g_H : string -> string;
  g_svcs : list ksvc;
  g_order : list nat;
  g_want : nat;
  g_retries : nat;
  g_entry : entry;
  g_hash : string;
  g_data : string;
  g_nbytes : N;
  g_oracle : nat -> nat -> outcome;
  g_pick : nat -> nat
}.

Definition oracle_of (t : list (list outcome)) (srv round : nat) : outcome := nth round (nth srv t []) ConnErr.
Definition pick_of (p : list nat) (k : nat) : nat := nth k p 0.
Definition gin_of (i : cin) : gin :=
  {| g_H := fun _ => i_md5 i; g_svcs := i_svcs i; g_order := i_order i; g_want := i_want i; g_retries := i_retries i;
     g_entry := i_entry i; g_hash := i_hash i; g_data := i_data i; g_nbytes := i_nbytes i;
     g_oracle := oracle_of (i_table i); g_pick := pick_of (i_picks i) |}.

Definition run_g (i : gin) : run :=
  put (g_H i) (g_svcs i) (g_order i) (g_want i) (g_retries i) (g_oracle i) (g_pick i)
      (g_entry i) (g_hash i) (g_data i) (g_nbytes i).
Definition run_model (i : cin) : run := run_g (gin_of i).

(* the hash, length and effective answers the model expects for this input *)
Definition exp_hash (i : gin) : string := put_hash (g_H i) (g_entry i) (g_hash i) (g_data i).
Definition exp_len (i : gin) : N := put_len (g_entry i) (g_data i) (g_nbytes i).
Definition exp_body_ok (i : gin) : bool := body_ok (g_H i) (g_entry i) (exp_hash i) (g_data i) (exp_len i).
Definition exp_answer (i : gin) (srv round : nat) : outcome :=
  eff_answer (g_H i) (g_oracle i) (g_entry i) (exp_hash i) (g_data i) (exp_len i) srv round.
Definition oversize (i : gin) : bool :=
  match g_entry i with EPutHR => (BLOCKSIZE <? g_nbytes i)%N | _ => false end.
Definition sv_of (i : gin) : list nat := put_order (g_svcs i) (g_order i).

(* ---- schedule for the lock-step harness: per step [done; started...], then [abandoned...] ---- *)
Definition sched (i : cin) : list (list N) :=
  let r := run_model i in
  map (fun s => map N.of_nat (st_done s :: st_started s)) (r_steps r) ++ [map N.of_nat (r_abandoned r)].

(* ---- observation ---- *)
Record oreq := { q_svc : nat; q_path : string; q_desired : string; q_clen : N; q_body : string }.

Record obs := {
  ob_steps : list step;     (* st_round = attempt number of st_done as counted by the stub; st_out = answer as issued *)
  ob_extra : list nat;      (* requests that arrived although the schedule did not predict them *)
  ob_res : result;
  ob_reqs : list oreq;      (* every request received, sorted by (service, arrival) *)
  ob_returned : bool;       (* Put returned before the watchdog *)
  ob_sync : bool;           (* the predicted set of outstanding requests was reached at every step *)
  (* kc.LocalRoots(), kc.WritableLocalRoots(), kc.GatewayRoots() read back after the last list was loaded *)
  ob_local : smap;
  ob_writable : smap;
  ob_gateway : smap
}.

Record case := { c_in : cin; c_obs : obs }.

(* ---- decidable equalities ---- *)
Definition opt_nat_eqb (a b : option nat) : bool :=
  match a, b with Some x, Some y => x =? y | None, None => true | _, _ => false end.
Definition outcome_eqb (a b : outcome) : bool :=
  match a, b with
  | Resp c h s, Resp c' h' s' => (c =? c')%N && opt_nat_eqb h h' && String.eqb s s'
  | ConnErr, ConnErr => true
  | _, _ => false
  end.
Fixpoint list_eqb {A} (eqb : A -> A -> bool) (a b : list A) : bool :=
  match a, b with
  | [], [] => true
  | x :: a', y :: b' => eqb x y && list_eqb eqb a' b'
  | _, _ => false
  end.
Definition result_eqb (a b : result) : bool :=
  match a, b with
  | Ok l n, Ok l' n' => String.eqb l l' && (n =? n')
  | Insufficient l n, Insufficient l' n' => String.eqb l l' && (n =? n')
  | Oversize, Oversize => true
  | _, _ => false
  end.

Fixpoint insert_nat (x : nat) (l : list nat) : list nat :=
  match l with [] => [x] | y :: r => if x <=? y then x :: l else y :: insert_nat x r end.
Definition sort_nat (l : list nat) : list nat := fold_right insert_nat [] l.

Definition step_eqb (a b : step) : bool :=
  (st_round a =? st_round b) && list_eqb Nat.eqb (sort_nat (st_started a)) (sort_nat (st_started b)) &&
  (st_done a =? st_done b) && outcome_eqb (st_out a) (st_out b).

(* ---- the boolean specification, on the observation only ---- *)
Definition outs (ss : list step) : list outcome := map st_out ss.
Definition total_stored (ss : list step) : nat := list_sum (map stored_of (outs ss)).
Definition contacted (o : obs) : list nat := flat_map st_started (ob_steps o) ++ ob_extra o.
Fixpoint count_nat (x : nat) (l : list nat) : nat :=
  match l with [] => 0 | y :: r => (if x =? y then 1 else 0) + count_nat x r end.
(* started but not released before Put returned *)
Definition in_flight (o : obs) : list nat :=
  filter (fun i => count_nat i (map st_done (ob_steps o)) <? count_nat i (contacted o)) (nodup Nat.eq_dec (contacted o)).

(* every upload that was started has returned *)
Definition all_returned_b (o : obs) : bool :=
  forallb (fun i => count_nat i (contacted o) <=? count_nat i (map st_done (ob_steps o))) (contacted o).

(* the locator is the body of a counted 200 answer (the empty string if there was none) *)
Definition loc_ok_b (l : string) (ss : list step) : bool :=
  if existsb is200 (outs ss) then existsb (fun o => is200 o && String.eqb (o_body o) l) (outs ss)
  else String.eqb l "".

(* answers of service i received so far *)
Definition hist (i : nat) (ss : list step) : list outcome := outs (filter (fun s => st_done s =? i) ss).
Definition may_contact_b (retries : nat) (seen : list step) (i : nat) : bool :=
  forallb (fun o => retryable (o_code o)) (hist i seen) && (List.length (hist i seen) <=? retries).
(* every request goes to a service that has so far only given retryable answers, fewer than 1+Retries of them *)
Fixpoint retry_ok_b (retries : nat) (seen todo : list step) : bool :=
  match todo with
  | [] => true
  | s :: r => forallb (may_contact_b retries seen) (st_started s) && retry_ok_b retries (seen ++ [s]) r
  end.

(* a service that accepts the block on every attempt *)
Definition accept (o : outcome) : bool := is200 o && (1 <=? o_rep o).
Definition accepts_always (i : gin) (srv : nat) : bool :=
  forallb (fun a => accept (exp_answer i srv a)) (seq 0 (S (g_retries i))).
Definition n_accepting (i : gin) : nat :=
  List.length (filter (accepts_always i) (sv_of i)).

Definition last_retryable (i : nat) (ss : list step) : bool :=
  match rev (hist i ss) with o :: _ => retryable (o_code o) | [] => false end.
(* Put gives up only when every writable service was asked, and those whose last answer was
   transient were asked 1+Retries times *)
Definition exhausted_b (i : gin) (ss : list step) : bool :=
  forallb (fun srv => (1 <=? List.length (hist srv ss)) &&
                      (negb (last_retryable srv ss) || (List.length (hist srv ss) =? S (g_retries i))))
          (sv_of i).

Definition req_ok_b (i : gin) (q : oreq) : bool :=
  String.eqb (q_path q) (exp_hash i) && String.eqb (q_desired q) (dec (N.of_nat (g_want i))) &&
  (q_clen q =? exp_len i)%N &&
  (negb (exp_body_ok i) || String.eqb (q_body q) (if (exp_len i =? 0)%N then "" else g_data i)).

Definition is_ok (r : result) : bool := match r with Ok _ _ => true | _ => false end.

Definition gspec_b (i : gin) (o : obs) : bool :=
  let ss := ob_steps o in
  ob_returned o &&
  (* only writable services are written to *)
  forallb (fun s => mem s (writable_ids (g_svcs i))) (contacted o) &&
  (* every request is for the block's hash and size and carries the data; the answers are the ones
     the services issue for such requests *)
  forallb (req_ok_b i) (ob_reqs o) &&
  forallb (fun s => outcome_eqb (st_out s) (exp_answer i (st_done s) (st_round s))) ss &&
  (* retry policy *)
  retry_ok_b (g_retries i) [] ss &&
  forallb (may_contact_b (g_retries i) ss) (ob_extra o) &&
  (* result *)
  match ob_res o with
  | Ok l n => negb (oversize i) && (g_want i <=? n) && (n <=? total_stored ss) && loc_ok_b l ss
  | Insufficient l n =>
      negb (oversize i) && (n <? g_want i) && (n =? total_stored ss) && loc_ok_b l ss &&
      all_returned_b o &&
      exhausted_b i ss && (n_accepting i <? g_want i)
  | Oversize => oversize i && match contacted o with [] => true | _ => false end &&
                match ob_reqs o with [] => true | _ => false end
  end.

(* discovery: the maps the client uses after its last list satisfy the roots specification of that list
   (writable = exactly the listed services that are not read-only, ...), whatever lists came before *)
Definition disc_spec_b (i : cin) (o : obs) : bool :=
  roots_spec_b (current_list (i_lists i)) (ob_local o) (ob_writable o) (ob_gateway o).

Definition spec_b (c : case) : bool := gspec_b (gin_of (c_in c)) (c_obs c) && disc_spec_b (c_in c) (c_obs c).

(* ---- model = observation ---- *)
Definition model_b (c : case) : bool :=
  let i := c_in c in let o := c_obs c in
  let r := run_model i in
  ob_returned o && ob_sync o &&
  list_eqb step_eqb (ob_steps o) (r_steps r) &&
  match ob_extra o with [] => true | _ => false end &&
  result_eqb (ob_res o) (r_res r) &&
  list_eqb Nat.eqb (sort_nat (in_flight o)) (sort_nat (r_abandoned r)) &&
  list_eqb Nat.eqb (sort_nat (map q_svc (ob_reqs o))) (sort_nat (flat_map st_started (r_steps r))) &&
  (let m := k_roots (load_all kstate0 (i_lists i)) in
   smap_eqb (ob_local o) (r_local m) && smap_eqb (ob_writable o) (r_writable m) && smap_eqb (ob_gateway o) (r_gateway m)).

Definition check_case (c : case) : N :=
  ((if model_b c then 0 else 1) + (if spec_b c then 0 else 2))%N.

Fixpoint failing_from (i : N) (cs : list case) : list (N * N) :=
  match cs with
  | [] => []
  | c :: r => let k := check_case c in
              if N.eqb k 0 then failing_from (N.succ i) r else (i, k) :: failing_from (N.succ i) r
  end.
Definition failing (cs : list case) : list (N * N) := failing_from 0%N cs.

(* constructors with short names for the generated files *)
Definition St (r : nat) (started : list nat) (d : nat) (o : outcome) : step :=
  {| st_round := r; st_started := started; st_done := d; st_out := o |}.
Definition Q (s : nat) (p d : string) (n : N) (b : string) : oreq :=
  {| q_svc := s; q_path := p; q_desired := d; q_clen := n; q_body := b |}.
