(* C20 — federated list-by-UUID.  Executable model of
     lib/controller/federation/list.go : splitListRequest (filter intersection, up-front rejection
       rules, todoByRemote, per-cluster batch loop with progress check, first-error propagation)
     lib/controller/federation/list.go / generated.go : generated_*List (merge of the pages under a
       mutex, re-sort by modified_at when more than one non-empty page was merged)
     lib/controller/federation/conn.go : remotes map / local backend selection inside splitListRequest.
   Definitions only; proofs are in proofs/C20_proofs.v.

   Go maps are modelled as duplicate-free lists in an arbitrary order (the theorems do not depend on
   the order; the evaluator compares batches as sets).  The goroutines (one per cluster) do not share
   state except the merged result, so each cluster's run is a function of that cluster's answers:
   the backend is an oracle  page : cluster -> call number -> batch -> answer. *)
From Coq Require Import NArith ZArith List Ascii String Bool.
From AV Require Import lib.Str lib.SortPerm.
Import ListNotations.
Local Open Scope string_scope.

(* ---------- request vocabulary (arvados.ListOptions, arvados.Filter) ---------- *)
Inductive operand :=
| OStr (s : string)                    (* Go string *)
| OList (l : list (option string))     (* Go []interface{}: Some = string element, None = any other element *)
| OStrs (l : list string)              (* Go []string *)
| OOther.                              (* any other Go type *)
Record lfilter := { f_attr : string; f_op : string; f_operand : operand }.
Record opts := {
  o_bypass : bool; o_fwd : string; o_filters : list lfilter; o_count : string;
  o_limit : Z; o_offset : Z; o_order : list string; o_select : option (list string) }.
Record config := { cf_local : string; cf_remotes : list string; cf_max : Z }.

Record item := { it_uuid : string; it_time : N }.     (* it_time: ModifiedAt (seconds) *)
Inductive answer := AErr (code : N) | AItems (l : list item).

Definition mem (x : string) (l : list string) : bool := existsb (String.eqb x) l.
(* a Go map[string]bool built from a list: keep one copy of each key *)
Fixpoint dedup (l : list string) : list string :=
  match l with [] => [] | x :: r => if mem x r then dedup r else x :: dedup r end.

Fixpoint somes (l : list (option string)) : list string :=
  match l with [] => [] | Some s :: r => s :: somes r | None :: r => somes r end.

(* ---------- the filter loop of splitListRequest ---------- *)
Inductive fclass :=
| FOther                 (* attr <> "uuid", or an operator other than = / in : cannotSplit *)
| FBad                   (* 400 invalid operand type *)
| FSet (l : list string) (* matchThisFilter *).
Definition classify (f : lfilter) : fclass :=
  if negb (f_attr f =? "uuid") then FOther
  else if f_op f =? "=" then match f_operand f with OStr s => FSet [s] | _ => FBad end
  else if f_op f =? "in" then
    match f_operand f with OList l => FSet (somes l) | OStrs l => FSet l | _ => FBad end
  else FOther.

(* returns None for the early "return 400"; otherwise (cannotSplit, matchAllFilters) *)
Fixpoint scan (fs : list lfilter) (cannot : bool) (acc : option (list string)) : option (bool * option (list string)) :=
  match fs with
  | [] => Some (cannot, acc)
  | f :: r =>
    match classify f with
    | FOther => scan r true acc
    | FBad => None
    | FSet s => scan r cannot (Some (match acc with None => dedup s | Some a => filter (fun u => mem u s) a end))
    end
  end.

Definition is27 (u : string) : bool := Nat.eqb (String.length u) 27.
Definition prefix (u : string) : string := take 5 u.
Definition targets (m : list string) : list string := filter is27 m.
Definition clusters (t : list string) : list string := dedup (map prefix t).
Definition todo_of (c : string) (t : list string) : list string := filter (fun u => prefix u =? c) t.
Definition is_nil {A} (l : list A) : bool := match l with [] => true | _ => false end.

Inductive plan :=
| PReject (code : N)                               (* error before any backend call *)
| PNothing                                         (* return nil without calling anything *)
| PPass                                            (* one call to the local backend with the caller's options *)
| PSplit (groups : list (string * list string)).   (* todoByRemote *)

Definition plan_of (cfg : config) (o : opts) : plan :=
  if o_bypass o || negb (o_fwd o =? "") then PPass else
  match scan (o_filters o) false None with
  | None => PReject 400
  | Some (_, None) => PPass
  | Some (cannot, Some m) =>
    let t := targets m in
    let cs := clusters t in
    if is_nil cs then PNothing
    else if Nat.eqb (List.length cs) 1 && mem (cf_local cfg) cs then PPass
    else if cannot then PReject 400
    else if negb (o_count o =? "none") then PReject 400
    else if (0 <=? o_limit o)%Z || negb (o_offset o =? 0)%Z || negb (is_nil (o_order o)) then PReject 400
    else if (cf_max cfg <? Z.of_nat (List.length t))%Z then PReject 400
    else PSplit (map (fun c => (c, todo_of c t)) cs)
  end.

(* ---------- requests as the backends receive them ---------- *)
(* generated_*List: options.ForwardedFor = ClusterID + "-" + options.ForwardedFor *)
Definition fwd_mark (cfg : config) (o : opts) : opts :=
  {| o_bypass := o_bypass o; o_fwd := cf_local cfg ++ "-" ++ o_fwd o; o_filters := o_filters o; o_count := o_count o;
     o_limit := o_limit o; o_offset := o_offset o; o_order := o_order o; o_select := o_select o |}.
(* remoteOpts inside a cluster goroutine *)
Definition remote_opts (cfg : config) (o : opts) (batch : list string) : opts :=
  fwd_mark cfg
  {| o_bypass := o_bypass o; o_fwd := o_fwd o;
     o_filters := [{| f_attr := "uuid"; f_op := "in"; f_operand := OStrs batch |}];
     o_count := o_count o; o_limit := o_limit o; o_offset := o_offset o; o_order := o_order o;
     o_select := match o_select o with None => None | Some s => Some ("uuid" :: s) end |}.

(* ---------- one cluster goroutine ---------- *)
Inductive cstatus := CDone | CFail (code : N) | CFuel.
Definition uuids (l : list item) : list string := map it_uuid l.
Definition trace := list (list string * answer).      (* (batch sent, answer received) per call *)

Section Run.
Variable cfg : config.
Variable page : string -> nat -> list string -> answer.    (* cluster -> number of the call -> batch -> answer *)

(* for len(todo) > 0 { ... } ; batch always equals todo as a set (it is rebuilt whenever todo shrank) *)
Fixpoint cloop (fuel : nat) (c : string) (todo : list string) (n : nat) : trace * cstatus :=
  match fuel with
  | O => ([], CFuel)
  | S f =>
    if is_nil todo then ([], CDone) else
    let a := page c n todo in
    match a with
    | AErr _ => ([(todo, a)], CFail 502)
    | AItems its =>
      let done := uuids its in
      let progress := existsb (fun u => mem u todo) done in
      let todo' := filter (fun u => negb (mem u done)) todo in
      if is_nil its then ([(todo, a)], CDone)
      else if negb progress then ([(todo, a)], CFail 502)
      else let (tr, st) := cloop f c todo' (S n) in ((todo, a) :: tr, st)
    end
  end.

Definition has_backend (c : string) : bool := (c =? cf_local cfg) || mem c (cf_remotes cfg).

Definition crun (c : string) (todo : list string) : trace * cstatus :=
  if has_backend c then cloop (S (List.length todo)) c todo 0 else ([], CFail 404).

(* ---------- whole request ---------- *)
Inductive outcome :=
| ORejected (code : N)
| ONothing
| OPassed (rq : opts) (a : answer)
| OSplit (runs : list (string * (trace * cstatus))).

Definition run (o : opts) : outcome :=
  match plan_of cfg o with
  | PReject c => ORejected c
  | PNothing => ONothing
  | PPass => OPassed (fwd_mark cfg o) (page (cf_local cfg) 0 [])
  | PSplit gs => OSplit (map (fun g => (fst g, crun (fst g) (snd g))) gs)
  end.

(* requests received by backend b, in order *)
Definition calls_to (o : opts) (out : outcome) (b : string) : list opts :=
  match out with
  | OPassed rq _ => if b =? cf_local cfg then [rq] else []
  | OSplit runs => flat_map (fun r => if fst r =? b then map (fun ba => remote_opts cfg o (fst ba)) (fst (snd r)) else []) runs
  | _ => []
  end.
Definition n_calls (out : outcome) : nat :=
  match out with
  | OPassed _ _ => 1
  | OSplit runs => List.length (flat_map (fun r => fst (snd r)) runs)
  | _ => 0
  end.

(* error codes of the failing goroutines; the first one to arrive is returned, so any of them may be *)
Definition errs (out : outcome) : list N :=
  match out with
  | ORejected c => [c]
  | ONothing => []
  | OPassed _ (AErr c) => [c]
  | OPassed _ (AItems _) => []
  | OSplit runs => flat_map (fun r => match snd (snd r) with CFail c => [c] | CFuel => [0%N] | CDone => [] end) runs
  end.

Definition page_items (a : answer) : list item := match a with AItems l => l | AErr _ => [] end.
(* every item handed to the merge function, with the backend it came from *)
Definition delivered (out : outcome) : list (string * item) :=
  match out with
  | OPassed _ a => map (fun i => (cf_local cfg, i)) (page_items a)
  | OSplit runs => flat_map (fun r => map (fun i => (fst r, i)) (flat_map (fun ba => page_items (snd ba)) (fst (snd r)))) runs
  | _ => []
  end.
Definition nonempty_pages (out : outcome) : nat :=
  match out with
  | OSplit runs => List.length (filter (fun ba => negb (is_nil (page_items (snd ba)))) (flat_map (fun r => fst (snd r)) runs))
  | _ => 0
  end.
(* generated_*List: pages are appended in arrival order; when at least two non-empty pages were merged
   the result is re-sorted by modified_at, newest first (deterministic when the times are distinct) *)
Definition merged (out : outcome) : list (string * item) :=
  if Nat.leb 2 (nonempty_pages out)
  then sort (string * item) N (fun x => it_time (snd x)) N.ltb (delivered out)
  else delivered out.
End Run.
