(* C04 (D) — evaluator for delayed-write cases.
   The harness ran ONE request A (PUT or TOUCH) on the instrumented unix_volume.go, alone, and let the
   clock that unix_volume.go reads jump forward while A was parked at some of its yield points (including
   the v.lock points); then it let E more time pass, sent DELETE, and looked at the volume.
   Every step carries two clock values taken on A's own goroutine: when it went on from the yield point
   ([rel]) and when it arrived at the next one / returned ([arr]); whatever clock value A read in between
   lies in [rel, arr].  So the model is run twice (all reads at rel / all reads at arr) and the stored
   timestamp must lie between the two results: no tolerance, no timing assumption.
   [dspec_b] judges the observations only; [dmodel_b] compares with model/C04_delay.v. *)
From Coq Require Import ZArith NArith List Bool Arith String.
From AV Require Import model.C04_race model.C04_delay.
Import ListNotations.
Local Open Scope Z_scope.

Record dcase := {
  d_prior : prior; d_put : bool; d_rm : bool;
  d_ttl : Z;                          (* BlobSigningTTL, ns *)
  d_m0 : Z;                           (* stored mtime of the planted copy (unused for PAbsent) *)
  d_steps : list (string * Z * Z);    (* label, rel, arr *)
  d_a_ok : bool;                      (* A answered 2xx *)
  d_mtime : option Z;                 (* stored timestamp of the block file right after A *)
  d_u_lo : Z; d_u_hi : Z;             (* clock window around the DELETE request *)
  d_b_ok : bool;                      (* DELETE answered 200 *)
  d_present : bool;                   (* a block file is at the path after DELETE *)
  d_get_ok : bool;                    (* GET afterwards answers 200 *)
  d_ntrash : N;                       (* <hash>.trash.* files afterwards *)
  d_stray : N                         (* anything else in the block directory *)
}.

Definition rels (c : dcase) : list (string * Z) := map (fun x => (fst (fst x), snd (fst x))) (d_steps c).
Definition arrs (c : dcase) : list (string * Z) := map (fun x => (fst (fst x), snd x)) (d_steps c).

(* The commit phase takes microseconds in the harness (no clock jump is injected there unless the case
   says so, and then the jump is part of [rel]); MARGIN only keeps the verdict away from the boundary. *)
Definition MARGIN : Z := 5000000000.
(* Stored timestamps are compared with a slack of one second: file systems may keep mtimes at a coarser
   resolution than the clock, and a variant of the code that reads the clock a few instructions earlier
   is not a violation.  Every clock jump of the harness is at least ten minutes. *)
Definition GRAN : Z := 1000000000.

(* ---- specification, on the observations ----
   An acknowledged PUT/TOUCH carries a timestamp that is not older (GRAN) than the moment A left its last
   yield point before the commit phase: time that passed while A waited for the Serialize lock or copied the
   data does not shorten the protection.  Hence a DELETE that arrives less than TTL after that moment
   leaves the block in place (and, after a PUT, readable). *)
Definition dspec_b (c : dcase) : bool :=
  negb (d_a_ok c) ||
  match last_pre None (rels c) with
  | None => true
  | Some t =>
      match d_mtime c with Some m => t - GRAN <=? m | None => false end &&
      (negb (d_u_hi c - t + MARGIN <? d_ttl c) || (d_present c && (negb (d_put c) || d_get_ok c)))
  end.

(* ---- model = implementation ---- *)
Definition cont_good (o : option inode) : bool :=
  match o with Some i => match i_cont i with Good => true | Corrupt => false end | None => false end.
Definition present (s : st) : bool := match path s with Some _ => true | None => false end.

Definition dmodel_b (c : dcase) : bool :=
  let T0 := tinit (d_prior c) (d_put c) (d_rm c) (d_m0 c) in
  match trun T0 (rels c), trun T0 (arrs c) with
  | Some Tlo, Some Thi =>
      a_finished Tlo &&
      Bool.eqb (a_ok (t_s Tlo)) (d_a_ok c) &&
      match path (t_s Tlo), d_mtime c with
      | Some j, Some m => (mtime_of Tlo j - GRAN <=? m) && (m <=? mtime_of Thi j)
      | None, None => true
      | _, _ => false
      end &&
      (d_stray c =? 0)%N &&
      (* the DELETE: youngest possible view (timestamps as late, DELETE as early as possible) and oldest *)
      let sy := after_trash Thi (d_u_lo c) (d_ttl c) in
      let so := after_trash Tlo (d_u_hi c) (d_ttl c) in
      if Bool.eqb (present sy) (present so) && Nat.eqb (List.length (trash sy)) (List.length (trash so))
      then Bool.eqb (present sy) (d_present c) &&
           (N.of_nat (List.length (trash sy)) =? d_ntrash c)%N &&
           Bool.eqb (b_status_ok sy) (d_b_ok c) &&
           Bool.eqb (cont_good (at_path sy)) (d_get_ok c)
      else true      (* the DELETE fell within the measurement window of the TTL boundary: either outcome *)
  | _, _ => false
  end.

Definition dcheck_case (c : dcase) : N :=
  ((if dmodel_b c then 0 else 1) + (if dspec_b c then 0 else 2))%N.

Fixpoint dfailing_from (i : N) (cs : list dcase) : list (N * N) :=
  match cs with
  | [] => []
  | c :: r => let k := dcheck_case c in
              if (k =? 0)%N then dfailing_from (N.succ i) r else (i, k) :: dfailing_from (N.succ i) r
  end.
Definition dfailing (cs : list dcase) : list (N * N) := dfailing_from 0%N cs.

(* ---- for the generator: the label sequence of every scenario, with the commit flag ("label" or
   "!label" = commit phase), printed by coqc and handed to the Go harness ---- *)
Local Open Scope string_scope.
Fixpoint labels_of (fuel : nat) (T : tst) : list string :=
  match fuel with
  | O => []
  | S f =>
    match (if t_aux T then None else aux_before (pa (t_s T))) with
    | Some a => a :: labels_of f {| t_s := t_s T; t_aux := true; t_ts := t_ts T; t_mt := t_mt T; t_early := t_early T |}
    | None =>
      match tstepA T 0 with
      | Some T' => let l := labelA (pa (t_s T)) in (if in_commit l then "!" ++ l else l) :: labels_of f T'
      | None => []
      end
    end
  end.
Definition scenario_labels (p : prior) (put rm : bool) : list string := labels_of 40 (tinit p put rm 0).
