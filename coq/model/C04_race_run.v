(* C04 (I) — evaluator for executed schedules.  The Go schedule controller drove the instrumented
   Touch/Trash/WriteBlock goroutines through a schedule that this model enumerated; the case records
   the schedule as executed (who was released at each step, and the label of the yield point it was
   parked at), whether every lock-step expectation held (which threads were parked / blocked in
   flock(2) after each step), the two HTTP outcomes and the directory at quiescence.
   model_b: the schedule is a maximal run of the model with the same labels and the same outcome.
   spec_b : the contract of volume.go on the observed outcome. *)
From Coq Require Import List Bool Arith String NArith.
From AV Require Import model.C04_race.
Import ListNotations.
Local Open Scope string_scope.

Record case := {
  r_prior : prior; r_put : bool; r_rm : bool;
  r_sched : list (tid * string);
  r_sync : bool;
  r_a_ok : bool;                         (* PUT / TOUCH answered 2xx *)
  r_b_ok : bool;                         (* DELETE answered 200 (404 = block not found) *)
  r_path : option (cont * age);          (* the block file at quiescence *)
  r_trash : list (cont * age);           (* <hash>.trash.* files *)
  r_stray : N                            (* any other file in the block directory (temp files) *)
}.

Definition tid_eqb (a b : tid) : bool := match a, b with TA, TA | TB, TB => true | _, _ => false end.
Definition age_eqb (a b : age) : bool := match a, b with Old, Old | Fresh, Fresh => true | _, _ => false end.
Definition cont_eqb (a b : cont) : bool := match a, b with Good, Good | Corrupt, Corrupt => true | _, _ => false end.
Definition ca_eqb (a b : cont * age) : bool := cont_eqb (fst a) (fst b) && age_eqb (snd a) (snd b).

(* replay: every released thread must be schedulable and parked at the model's yield point *)
Fixpoint replay (s : st) (sch : list (tid * string)) : option st :=
  match sch with
  | [] => Some s
  | (t, l) :: r =>
    if String.eqb (label_t t s) l then
      match step_t t s with Some s' => replay s' r | None => None end
    else None
  end.

Definition ino_obs (i : inode) : cont * age := (i_cont i, i_age i).
Fixpoint count_ca (x : cont * age) (l : list (cont * age)) : nat :=
  match l with [] => O | y :: r => (if ca_eqb x y then 1 else 0) + count_ca x r end.
Definition multiset_eqb (a b : list (cont * age)) : bool :=
  Nat.eqb (List.length a) (List.length b) && forallb (fun x => Nat.eqb (count_ca x a) (count_ca x b)) a.

Definition model_b (c : case) : bool :=
  r_sync c &&
  match replay (init (r_prior c) (r_put c) (r_rm c)) (r_sched c) with
  | None => false
  | Some s =>
    match succs s with
    | [] =>                                   (* maximal, and both threads ran to completion *)
      Bool.eqb (a_ok s) (r_a_ok c) && Bool.eqb (b_status_ok s) (r_b_ok c) &&
      match at_path s, r_path c with
      | Some i, Some o => ca_eqb (ino_obs i) o
      | None, None => true
      | _, _ => false
      end &&
      multiset_eqb (map ino_obs (trashed s)) (r_trash c) && (r_stray c =? 0)%N &&
      match pa s, pb s with A_done _, B_done _ => true | _, _ => false end
    | _ => false
    end
  end.

(* contract (volume.go): an acknowledged Touch/Put leaves the block, intact, at its path; a block
   whose timestamp is newer than the TTL is never trashed *)
Definition spec_b (c : case) : bool :=
  (negb (r_a_ok c) || match r_path c with Some (Good, _) => true | Some (Corrupt, _) => negb (r_put c) | None => false end) &&
  (match r_prior c with PFreshGood => match r_path c with Some (Good, _) => true | _ => false end | _ => true end).

Fixpoint index_of (t : tid) (l : string) (sch : list (tid * string)) (i : nat) : option nat :=
  match sch with
  | [] => None
  | (t', l') :: r => if tid_eqb t t' && String.eqb l l' then Some i else index_of t l r (S i)
  end.

Definition check_case (c : case) : N :=
  ((if model_b c then 0 else 1) + (if spec_b c then 0 else 2))%N.

Fixpoint failing_from (i : N) (cs : list case) : list (N * N) :=
  match cs with
  | [] => []
  | c :: r => let k := check_case c in
              if (k =? 0)%N then failing_from (N.succ i) r else (i, k) :: failing_from (N.succ i) r
  end.
Definition failing (cs : list case) : list (N * N) := failing_from 0%N cs.

(* ---- schedules for the controller: "a3b3b1..." = who is released, then which threads must be at a
   yield point or finished afterwards (bit 0: A, bit 1: B; a cleared bit = blocked in flock(2)) ---- *)
Definition mask (s : st) : string :=
  match parkedA s, parkedB s with
  | true, true => "3" | true, false => "1" | false, true => "2" | false, false => "0"
  end.
Fixpoint sched_strs (fuel : nat) (s : st) : list string :=
  match fuel with
  | O => [""]
  | S f =>
    match stepA s, stepB s with
    | None, None => [""]
    | a, b =>
      (match a with Some x => map (fun r => "a" ++ mask x ++ r) (sched_strs f x) | None => [] end) ++
      (match b with Some x => map (fun r => "b" ++ mask x ++ r) (sched_strs f x) | None => [] end)
    end
  end.
Definition all_priors : list prior := [PAbsent; POldGood; POldCorrupt; PFreshGood].
