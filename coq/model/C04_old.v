(* C04 — the OLD Untrash (code before /repo fa470fa), kept only as a regression witness for finding F20:
   it renamed the first trashed copy over the block path even when a block file was there.  The model
   of the code as it is now is C04_model.v. *)
From Coq Require Import ZArith NArith List String Bool.
From AV Require Import lib.Str model.C04_model.
Import ListNotations.
Local Open Scope Z_scope.

Definition vol_untrash_old (v : vol) (h : string) : ures * vol :=
  if v_ro v then (UErr, v)
  else match first_trash (v_trash v) h None with
       | None => (UNotExist, v)
       | Some t => (UOk, with_both v (set_block (v_blocks v) h (t_mtime t))
                                   (filter (fun x => negb (same_trash h (t_dead t) x)) (v_trash v)))
       end.
Fixpoint untrash_all_old (vs : list vol) (h : string) : nat * list vol :=
  match vs with
  | [] => (O, [])
  | v :: r =>
    let '(n, r') := untrash_all_old r h in
    if v_ro v then (n, v :: r')
    else match vol_untrash_old v h with
         | (UNotExist, v') => (n, v' :: r')
         | (_, v') => (S n, v' :: r')
         end
  end.
Definition h_untrash_old (s : state) (h : string) : N * state :=
  match writable (vols s) with
  | [] => (404%N, s)
  | _ => let '(n, vs') := untrash_all_old (vols s) h in
         ((match n with O => 404 | _ => 200 end)%N, {| vols := vs'; counter := counter s |})
  end.
Definition step_old (c : cfg) (s : state) (now : Z) (o : op) : N * state :=
  match o with
  | Untrash h => h_untrash_old s h
  | _ => step c s now o
  end.
Fixpoint final_old (c : cfg) (s : state) (hs : list (Z * op)) : state :=
  match hs with
  | [] => s
  | (now, o) :: r => final_old c (snd (step_old c s now o)) r
  end.
