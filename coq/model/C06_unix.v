(* C06 (c') - what a Directory volume contributes to an index response.
   Executable model of services/keepstore/unix_volume.go UnixVolume.IndexTo: the volume root is read entry
   by entry; an entry whose name is lowercase hex and compatible with the prefix is opened as a block
   directory and read entry by entry; a block file (32 lowercase hex digits, starting with the prefix)
   yields one line `name+size SP mtime LF`.  A block directory that cannot be opened, or whose listing
   fails after some entries, is logged and remembered (`lastErr`): the scan goes on with the next
   directory, and IndexTo returns that error at the end of the root listing - so handleIndex
   (model/C06_model.v handle_index) leaves out the terminating blank line.
   The listing order of a directory is whatever the file system yields: the model takes the entries in
   the given order, outputs are compared as multisets of lines.
   Definitions only; proofs are in proofs/C06_unix_proofs.v. *)
From Coq Require Import List Arith Bool Ascii String.
From AV Require Import lib.Str model.C06_model.
Import ListNotations.
Local Open Scope string_scope.

(* an entry of a block directory: its name and the two fields of its index line (`name+size`, mtime) *)
Record ufile := { f_name : string; f_entry : string * string }.
(* an entry of the volume root *)
Inductive ukind :=
| UDir (files : list ufile) (fail_at : option nat)   (* can be opened; Some k: the listing fails after k entries *)
| UNoOpen.                                           (* Open fails (dangling link, link loop, ...) *)
Record uent := { e_name : string; e_kind : ukind }.

Definition is_lhex (c : ascii) : bool :=
  let n := nat_of_ascii c in (Nat.leb 48 n && Nat.leb n 57) || (Nat.leb 97 n && Nat.leb n 102).
Fixpoint all_lhex (s : string) : bool :=
  match s with EmptyString => true | String c r => is_lhex c && all_lhex r end.
(* blockDirRe = ^[0-9a-f]+$ , blockFileRe = ^[0-9a-f]{32}$ *)
Definition block_dir_name (s : string) : bool := negb (String.eqb s "") && all_lhex s.
Definition block_file_name (s : string) : bool := Nat.eqb (String.length s) 32 && all_lhex s.

(* `!strings.HasPrefix(names[0], prefix) && !strings.HasPrefix(prefix, names[0])` => skipped *)
Definition dir_selected (pfx : string) (e : uent) : bool :=
  (String.prefix pfx (e_name e) || String.prefix (e_name e) pfx) && block_dir_name (e_name e).
Definition file_selected (pfx : string) (f : ufile) : bool :=
  String.prefix pfx (f_name f) && block_file_name (f_name f).

(* the entries a block directory contributes, and whether it was read to its end *)
Definition dir_out (pfx : string) (k : ukind) : list (string * string) * bool :=
  match k with
  | UNoOpen => ([], false)
  | UDir files None => (map f_entry (filter (file_selected pfx) files), true)
  | UDir files (Some n) => (map f_entry (filter (file_selected pfx) (firstn n files)), false)
  end.

(* IndexTo: (entries written, returned nil?) *)
Fixpoint unix_index (pfx : string) (ents : list uent) : list (string * string) * bool :=
  match ents with
  | [] => ([], true)
  | e :: r =>
    let '(es, ok) := unix_index pfx r in
    if dir_selected pfx e then let '(d, dok) := dir_out pfx (e_kind e) in (List.app d es, dok && ok)
    else (es, ok)
  end.

Definition unix_vol (pfx : string) (ents : list uent) : vol_out :=
  {| v_text := render_lines (fst (unix_index pfx ents)); v_ok := snd (unix_index pfx ents) |}.

(* GET /mounts/<uuid>/blocks?prefix=pfx on a Directory volume *)
Definition unix_response (pfx : string) (ents : list uent) : string := handle_index [unix_vol pfx ents].

(* ---------- comparison up to listing order ---------- *)
Fixpoint sins (x : string) (l : list string) : list string :=
  match l with [] => [x] | y :: r => if str_ltb y x then y :: sins x r else x :: l end.
Definition ssort (l : list string) : list string := fold_right sins [] l.
Fixpoint strs_eqb (a b : list string) : bool :=
  match a, b with [], [] => true | x :: r, y :: s => String.eqb x y && strs_eqb r s | _, _ => false end.
(* same lines (as a multiset, the trailing blank line included) *)
Definition same_lines (a b : string) : bool :=
  strs_eqb (ssort (split_on LF a)) (ssort (split_on LF b)).

(* constructors for the case printer *)
Definition UF (name loc mtime : string) : ufile := {| f_name := name; f_entry := (loc, mtime) |}.
Definition UE (name : string) (k : ukind) : uent := {| e_name := name; e_kind := k |}.
