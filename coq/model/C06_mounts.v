(* C06 (d') - which block indexes a sweep fetches.
   services/keep-balance/balance.go: cleanupMounts drops the read-only mounts whose (non-blank) device is mounted
   read-write somewhere (model/C05_model.v `cleanup`), GetCurrentState then fetches ONE index per device among the
   remaining mounts - `deviceMount[mnt.DeviceID]` remembers the first mount met for a non-blank device id, a blank
   device id is a device of its own - and applies it to every mount of that device.  Which mount of a device is
   asked depends on map iteration order, so the model describes the index requests of a sweep as a set of
   devices, named by the device's lowest-numbered advertised mount.
   Definitions only; proofs are in proofs/C06_mounts_proofs.v. *)
From Coq Require Import List Arith Bool.
From AV Require Import model.C05_model.
Import ListNotations.

(* a mount as advertised by GET /mounts: number, service, device id (0 = ""), read_only *)
Definition MM (num srv d : nat) (ro : bool) : mnt :=
  {| mid := num; msrv := srv; dev := d; mro := ro; mrepl := 1; mclasses := [] |}.

(* the name of a mount's device: the lowest-numbered advertised mount with the same non-blank device id *)
Definition canon (raw : list mnt) (m : mnt) : nat :=
  if dev m =? 0 then mid m
  else fold_left (fun best x => if (dev x =? dev m) && (mid x <? best) then mid x else best) raw (mid m).

Fixpoint ins_nat (x : nat) (l : list nat) : list nat :=
  match l with [] => [x] | y :: r => if x <? y then x :: l else if x =? y then l else y :: ins_nat x r end.
Definition nat_set (l : list nat) : list nat := fold_right ins_nat [] l.

(* the devices whose index a complete sweep fetches *)
Definition index_requests (raw : list mnt) : list nat := nat_set (map (canon raw) (cleanup raw)).

Fixpoint nats_eqb (a b : list nat) : bool :=
  match a, b with [], [] => true | x :: r, y :: s => (x =? y) && nats_eqb r s | _, _ => false end.

(* ---------- the view is complete ---------- *)
(* the index fetched through mount i also lists what mount m holds: the same mount, or the same known device *)
Definition covers_b (i m : mnt) : bool := (mid i =? mid m) || (negb (dev m =? 0) && (dev i =? dev m)).
(* every advertised mount is covered by one of the index requests (idx: numbers of the mounts that were asked) *)
Definition all_covered (raw : list mnt) (idx : list nat) : bool :=
  forallb (fun m => existsb (fun i => mem (mid i) idx && covers_b i m) raw) raw.
