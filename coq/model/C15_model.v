(* C15 — every runnable container finishes; idle instances are released.
   The worker lifecycle (boot/probe timeouts, shutdownIfBroken/IfIdle, drain, destroy retry, disappearance)
   is part of model/C14_pool.v; sync's handling of dead processes is model/C14_sync.v.  This file adds
   fixStaleLocks (scheduler/fix_stale_locks.go) and the closed "healthy round" used for the convergence
   statements.  Definitions only. *)
From Coq Require Import List ZArith Bool NArith.
From AV Require Import model.C16_runq model.C14_sync model.C14_pool model.C14_sys.
Import ListNotations.
Local Open Scope Z_scope.

(* ---- fixStaleLocks ----
   One snapshot per evaluation of the loop condition: (CountWorkers()[StateUnknown] > 0, pool.Running(),
   queue.Entries()).  The list ends when the stale-lock timer fires while the loop is waiting.  Result: the
   uuids passed to queue.Unlock.  When the loop ends because no worker is Unknown any more, the list computed
   in the previous iteration is used, but (since /repo commit 05ee31b, finding F24) containers that
   pool.Running() reports at that moment are skipped. *)
Definition not_running (running : rmap) (u : N) : bool :=
  match rlook u running with Some _ => false | None => true end.
Fixpoint fix_stale_locks (snaps : list (bool * rmap * list ent)) (stale : list N) : list N :=
  match snaps with
  | [] => stale        (* timer fired: Running() is the one the list was computed from *)
  | (unknown, running, ents) :: rest =>
      if negb unknown then filter (not_running running) stale
      else match stale_locks ents running with
           | [] => []                         (* return: nothing is stale *)
           | st => fix_stale_locks rest st
           end
  end.
(* the behaviour before that commit (kept as a regression witness only) *)
Fixpoint fix_stale_locks_old (snaps : list (bool * rmap * list ent)) (stale : list N) : list N :=
  match snaps with
  | [] => stale
  | (unknown, running, ents) :: rest =>
      if negb unknown then stale
      else match stale_locks ents running with
           | [] => []
           | st => fix_stale_locks_old rest st
           end
  end.

(* ---- a closed system for liveness: containers as the API server sees them, the pool, the VMs ---- *)
Record lsys := mkl {
  l_ctrs : list ent;        (* uuid, API state, priority, instance type *)
  l_sys : sys               (* pool + VMs + probes in flight (model/C14_sys.v) *)
}.

Definition set_state (u : N) (st : cstate) (l : list ent) : list ent :=
  map (fun e => if N.eqb (e_uuid e) u then mkent (e_uuid e) st (e_prio e) (e_it e) else e) l.
Definition state_of (u : N) (l : list ent) : option cstate :=
  match filter (fun e => N.eqb (e_uuid e) u) l with e :: _ => Some (e_state e) | [] => None end.

(* what the API server does with the scheduler's asynchronous calls in a healthy round *)
Definition apply_locks (locks : list N) (l : list ent) : list ent :=
  fold_left (fun l u => match state_of u l with Some Queued => set_state u Locked l | _ => l end) locks l.
Definition apply_unlocks (us : list N) (l : list ent) : list ent :=
  fold_left (fun l u => match state_of u l with Some Locked => set_state u Queued l | _ => l end) us l.
Definition apply_cancels (us : list N) (l : list ent) : list ent :=
  fold_left (fun l u => match state_of u l with Some Complete | Some Cancelled | None => l | _ => set_state u Cancelled l end) us l.

Definition unlocks_of (log : list ev) : list N := flat_map (fun e => match e with EUnlock u => [u] | _ => [] end) log.

(* all workers of a pool are probed once, truthfully, by healthy VMs (boot ok, list ok, not broken) *)
Definition probe_all (c : cfg) (s : sys) : sys :=
  fold_left (fun s id =>
               match step c (LProbeBegin id true true false false) s with
               | Some s1 => match step c (LProbeEnd id) s1 with Some s2 => s2 | None => s end
               | None => s
               end) (map w_id (p_workers (spool s))) s.

(* every start command in flight returns and its crunch-run runs the container to completion and exits *)
Definition land_all (c : cfg) (l : lsys) : lsys :=
  let starts := flat_map (fun w => map (fun r => (w_id w, ru r)) (w_starting w)) (p_workers (spool (l_sys l))) in
  fold_left (fun l iu =>
               match step c (LLands (fst iu) (snd iu) true) (l_sys l) with
               | Some s1 =>
                   (* crunch-run: Locked -> Running -> Complete, then the process ends *)
                   let ctrs := match state_of (snd iu) (l_ctrs l) with
                               | Some Locked => set_state (snd iu) Complete (l_ctrs l)
                               | _ => l_ctrs l
                               end in
                   match step c (LProcExit (fst iu) (snd iu)) s1 with
                   | Some s2 => mkl ctrs s2
                   | None => mkl ctrs s1
                   end
               | None => l
               end) starts l.

(* every crunch-run process that is alive finishes its container (if it is Running) and exits *)
Definition complete_all (c : cfg) (l : lsys) : lsys :=
  fold_left (fun l iu =>
               let ctrs := match state_of (snd iu) (l_ctrs l) with
                           | Some Running => set_state (snd iu) Complete (l_ctrs l)
                           | _ => l_ctrs l end in
               match step c (LProcExit (fst iu) (snd iu)) (l_sys l) with
               | Some s' => mkl ctrs s'
               | None => mkl ctrs (l_sys l)
               end)
            (flat_map (fun v => map (fun u => (v_id v, u)) (v_procs v)) (s_vms (l_sys l))) l.

(* instances on which Destroy has been called disappear from the cloud (healthy cloud) *)
Definition destroy_all (c : cfg) (s : sys) : sys :=
  fold_left (fun s w => if N.eqb (w_destroys w) 0 then s
                        else match step c (LVMGone (w_id w)) s with Some s' => s' | None => s end)
            (p_workers (spool s)) s.

(* pending kills are delivered *)
Definition deliver_kills (c : cfg) (s : sys) : sys :=
  fold_left (fun s iu => match step c (LKillDelivered (fst iu) (snd iu)) s with Some s' => s' | None => s end)
            (flat_map (fun w => map (fun r => (w_id w, ru r)) (filter rstop (w_running w ++ w_starting w))) (p_workers (spool s))) s.

Definition advance_clock (q : Z) (s : sys) : sys :=
  let p := spool s in
  set_pool s (mkp (p_workers p) (p_exited p) (p_clock p + q) false (p_loaded p)).   (* quotaErrorTTL passes too *)

(* one round of a healthy dispatcher: queue poll + runQueue + the API calls it spawned + sync and its
   calls + start commands land and containers complete + kills delivered + every worker probed + idle
   sweep + cloud listing + destroyed instances vanish + time passes *)
Definition round (c : cfg) (quantum : Z) (l : lsys) : lsys :=
  let s := l_sys l in
  let cache := l_ctrs l in
  let qupd := p_clock (spool s) in
  (* runQueue -- not while fixStaleLocks is still waiting for undiscovered instances (assumption A2 of C14) *)
  let '(s1, ctrs1) :=
    match step c (LSched (psort cache)) s with
    | None => (s, cache)
    | Some s1 =>
        let res := sched_pass (psort cache) (s_env s) in
        (s1, apply_unlocks (unlocks_of (r_log res)) (apply_locks (r_locks res) cache))
    end in
  (* sync on the same cache snapshot *)
  let acts := sync cache (pool_running (spool s1)) (Nat.ltb 0 (pool_count (spool s1) WUnknown)) qupd [] in
  let cancels := flat_map (fun a => match a with ACancel u => [u] | _ => [] end) acts in
  let requeues := flat_map (fun a => match a with ARequeue u => [u] | _ => [] end) acts in
  let kills := flat_map (fun a => match a with AKill u => [u] | _ => [] end) acts in
  let ctrs2 := apply_unlocks requeues (apply_cancels cancels ctrs1) in
  let s2 := fold_left (fun s u => match step c (LKill u) s with
                                  | Some s' => match step c (LForget u) s' with Some s'' => s'' | None => s' end
                                  | None => s end) kills s1 in
  let l3 := complete_all c (land_all c (mkl ctrs2 s2)) in
  let s4 := deliver_kills c (l_sys l3) in
  let s5 := probe_all c s4 in
  let s6 := match step c LSweep s5 with Some x => x | None => s5 end in
  let s7 := destroy_all c s6 in
  let s8 := match step c (LPoolSync []) s7 with Some x => x | None => s7 end in
  mkl (l_ctrs l3) (advance_clock quantum s8).

Fixpoint rounds (c : cfg) (q : Z) (n : nat) (l : lsys) : lsys :=
  match n with O => l | S k => rounds c q k (round c q l) end.

Definition finished (l : lsys) : bool :=
  forallb (fun e => cstate_eqb (e_state e) Complete || cstate_eqb (e_state e) Cancelled || (e_prio e <? 1)) (l_ctrs l).
Definition released (l : lsys) : bool := match s_vms (l_sys l) with [] => true | _ => false end.

(* the lexicographic measure the convergence check reports: unfinished containers, live processes and start
   commands, instances *)
Definition measure (l : lsys) : nat * nat * nat :=
  (List.length (filter (fun e => negb (cstate_eqb (e_state e) Complete || cstate_eqb (e_state e) Cancelled || (e_prio e <? 1))) (l_ctrs l)),
   List.length (all_procs (l_sys l)),
   List.length (s_vms (l_sys l))).

(* ---- fault operations for the bounded convergence sweep ---- *)
Inductive fop :=
| FSched                      (* a scheduling pass and the API effects of its Lock/Unlock calls *)
| FProbe (id : N)             (* a healthy probe of one instance *)
| FProbeDown (id : N)         (* the instance does not answer (boot probe and crunch-run --list fail) *)
| FProbeBroken (id : N)       (* crunch-run --list answers "broken" *)
| FLand (ok : bool)           (* every start command in flight returns; ok: crunch-run runs and sets state Running *)
| FCrash                      (* every crunch-run process dies without finalizing its container *)
| FComplete                   (* every crunch-run process completes its container and exits *)
| FRestart                    (* the dispatcher is replaced *)
| FPoolSync                   (* cloud listing *)
| FVMGone (id : N)            (* an instance disappears *)
| FCancel (u : N)             (* somebody cancels the container *)
| FDrain (id : N)             (* management API: drain *)
| FQuota                      (* the next Create hits a quota error *)
| FCreateErr                  (* the next Create fails *)
| FTick.                      (* a long time passes (all timeouts expire) *)

Definition with_sys (l : lsys) (o : option sys) : lsys := match o with Some s => mkl (l_ctrs l) s | None => l end.
Definition push_create (o : N) (s : sys) : sys :=
  mksys (mkpe (pe_pool (s_env s)) (pe_next (s_env s)) (o :: pe_create (s_env s))) (s_vms s) (s_probes s).

Definition apply_fop (c : cfg) (quantum : Z) (f : fop) (l : lsys) : lsys :=
  let s := l_sys l in
  match f with
  | FSched =>
      match step c (LSched (psort (l_ctrs l))) s with
      | None => l
      | Some s1 => let res := sched_pass (psort (l_ctrs l)) (s_env s) in
                   mkl (apply_unlocks (unlocks_of (r_log res)) (apply_locks (r_locks res) (l_ctrs l))) s1
      end
  | FProbe id =>
      match step c (LProbeBegin id true true false false) s with
      | Some s1 => with_sys l (step c (LProbeEnd id) s1)   (* a probe excluded by assumption A3 does not happen *)
      | None => l
      end
  | FProbeDown id =>
      match step c (LProbeBegin id false false false false) s with
      | Some s1 => with_sys l (step c (LProbeEnd id) s1)   (* a probe excluded by assumption A3 does not happen *)
      | None => l
      end
  | FProbeBroken id =>
      match step c (LProbeBegin id true true true false) s with
      | Some s1 => with_sys l (step c (LProbeEnd id) s1)   (* a probe excluded by assumption A3 does not happen *)
      | None => l
      end
  | FLand ok =>
      let starts := flat_map (fun w => map (fun r => (w_id w, ru r)) (w_starting w)) (p_workers (spool s)) in
      fold_left (fun l iu =>
                   match step c (LLands (fst iu) (snd iu) ok) (l_sys l) with
                   | Some s1 => mkl (if ok then match state_of (snd iu) (l_ctrs l) with
                                                | Some Locked => set_state (snd iu) Running (l_ctrs l)
                                                | _ => l_ctrs l end
                                     else l_ctrs l) s1
                   | None => l
                   end) starts l
  | FCrash =>
      fold_left (fun l iu => with_sys l (step c (LProcExit (fst iu) (snd iu)) (l_sys l)))
                (flat_map (fun v => map (fun u => (v_id v, u)) (v_procs v)) (s_vms s)) l
  | FComplete =>
      fold_left (fun l iu =>
                   let ctrs := match state_of (snd iu) (l_ctrs l) with
                               | Some Running => set_state (snd iu) Complete (l_ctrs l)
                               | _ => l_ctrs l end in
                   with_sys (mkl ctrs (l_sys l)) (step c (LProcExit (fst iu) (snd iu)) (l_sys l)))
                (flat_map (fun v => map (fun u => (v_id v, u)) (v_procs v)) (s_vms s)) l
  | FRestart => with_sys l (step c LRestart s)
  | FPoolSync => with_sys l (step c (LPoolSync []) s)
  | FVMGone id => with_sys l (step c (LVMGone id) s)
  | FCancel u => mkl (apply_cancels [u] (l_ctrs l)) s
  | FDrain id => with_sys l (step c (LSetIB id IDrain) s)
  | FQuota => mkl (l_ctrs l) (push_create 1 s)
  | FCreateErr => mkl (l_ctrs l) (push_create 2 s)
  | FTick => mkl (l_ctrs l) (advance_clock quantum s)
  end.

Definition apply_fops (c : cfg) (q : Z) (fs : list fop) (l : lsys) : lsys := fold_left (fun l f => apply_fop c q f l) fs l.

(* number of healthy rounds needed to finish everything and release every instance (None = more than n) *)
Fixpoint converge_in (c : cfg) (q : Z) (n : nat) (l : lsys) : option nat :=
  if finished l && released l then Some O
  else match n with
       | O => None
       | S k => match converge_in c q k (round c q l) with Some r => Some (S r) | None => None end
       end.

Fixpoint seqs {A} (alphabet : list A) (n : nat) : list (list A) :=
  match n with
  | O => [[]]
  | S k => [] :: flat_map (fun a => map (cons a) (seqs alphabet k)) alphabet
  end.
