(* Keep client service discovery, shared by C11 (writes) and C12 (probe order).  Executable model of
     sdk/go/keepclient/discover.go   loadKeepServers (called by LoadKeepServicesFromJSON and, through
                                     discoverServices, with every list the poller delivers)
     sdk/go/keepclient/keepclient.go setServiceRoots / LocalRoots / WritableLocalRoots / GatewayRoots
   A keep_services/accessible list is turned into three uuid -> base-URL maps (local, writable, gateway)
   and the replicasPerService flag; every load REPLACES what an earlier load installed.
   Go maps are association lists here (insertion order; assigning to a key that exists replaces its
   value).  Definitions only; proofs in proofs/KC_discover_proofs.v. *)
From Coq Require Import Arith NArith List Ascii String Bool.
From AV Require Import lib.Str.
Import ListNotations.
Local Open Scope string_scope.

(* one item of the list (arvadosclient keepService: uuid, service_host, service_port, service_ssl_flag,
   service_type, read_only) *)
Record dsvc := { d_uuid : string; d_host : string; d_port : N; d_ssl : bool; d_type : string; d_ro : bool }.

(* fmt.Sprintf("%s://%s:%d", scheme, service.Hostname, service.Port) *)
Definition d_url (s : dsvc) : string :=
  ((if d_ssl s then "https" else "http") ++ "://" ++ d_host s ++ ":" ++ dec (d_port s))%string.

(* map[string]string *)
Definition smap := list (string * string).
Fixpoint mset (m : smap) (k v : string) : smap :=
  match m with
  | [] => [(k, v)]
  | (k', v') :: r => if String.eqb k' k then (k, v) :: r else (k', v') :: mset r k v
  end.
Fixpoint mget (m : smap) (k : string) : option string :=
  match m with [] => None | (k', v) :: r => if String.eqb k' k then Some v else mget r k end.
Definition mkeys (m : smap) : list string := map fst m.

(* what one call of loadKeepServers leaves in the client *)
Record roots := {
  r_local : smap;           (* kc.localRoots *)
  r_writable : smap;        (* kc.writableLocalRoots *)
  r_gateway : smap;         (* kc.gatewayRoots *)
  r_rps : nat               (* kc.replicasPerService: 1 = every writable service is a disk, 0 = unknown *)
}.

(* the loop state: `listed` plus the maps under construction *)
Record lacc := { a_listed : list string; a_roots : roots; a_nondisk : bool }.

Definition is_disk (s : dsvc) : bool := String.eqb (d_type s) "disk".

(* one iteration of `for _, service := range list.Items` *)
Definition load_step (a : lacc) (s : dsvc) : lacc :=
  let url := d_url s in
  if existsb (String.eqb url) (a_listed a) then a            (* Skip duplicates *)
  else
    let r := a_roots a in
    {| a_listed := url :: a_listed a;
       a_roots :=
         {| r_local := mset (r_local r) (d_uuid s) url;
            r_writable := if d_ro s then r_writable r else mset (r_writable r) (d_uuid s) url;
            r_gateway := mset (r_gateway r) (d_uuid s) url;
            r_rps := if negb (d_ro s) && negb (is_disk s) then 0 else r_rps r |};
       a_nondisk := a_nondisk a || negb (is_disk s) |}.

Definition empty_roots : roots := {| r_local := []; r_writable := []; r_gateway := []; r_rps := 1 |}.

(* the client state that discovery touches: the installed maps and the sticky foundNonDiskSvc flag
   (the flag only selects HTTP timeouts) *)
Record kstate := { k_roots : roots; k_nondisk : bool }.

(* loadKeepServers(list): fresh maps, replicasPerService = 1, the loop, setServiceRoots.  Nothing of
   the previously installed maps is read. *)
Definition load_keep_servers (st : kstate) (l : list dsvc) : kstate :=
  let a := fold_left load_step l {| a_listed := []; a_roots := empty_roots; a_nondisk := k_nondisk st |} in
  {| k_roots := a_roots a; k_nondisk := a_nondisk a |}.

Definition kstate0 : kstate := {| k_roots := empty_roots; k_nondisk := false |}.

(* a client that is given one list after the other (initial discovery, periodic refresh, SIGHUP,
   repeated LoadKeepServicesFromJSON) *)
Definition load_all (st : kstate) (ls : list (list dsvc)) : kstate := fold_left load_keep_servers ls st.

Definition load_roots (l : list dsvc) : roots := k_roots (load_keep_servers kstate0 l).

(* ------------------------------------------------------------------ specification vocabulary *)
(* the items that survive "skip duplicates": the first item with each URL *)
Fixpoint kept_from (listed : list string) (l : list dsvc) : list dsvc :=
  match l with
  | [] => []
  | s :: r => if existsb (String.eqb (d_url s)) listed then kept_from listed r
              else s :: kept_from (d_url s :: listed) r
  end.
Definition kept (l : list dsvc) : list dsvc := kept_from [] l.

Definition root_entry (s : dsvc) : string * string := (d_uuid s, d_url s).
Definition writable_svc (s : dsvc) : bool := negb (d_ro s).

Definition pair_eqb (a b : string * string) : bool := String.eqb (fst a) (fst b) && String.eqb (snd a) (snd b).
Definition subset_b (a b : smap) : bool := forallb (fun p => existsb (pair_eqb p) b) a.
Definition same_pairs_b (a b : smap) : bool := subset_b a b && subset_b b a.

Fixpoint nodup_b (l : list string) : bool :=
  match l with [] => true | x :: r => negb (existsb (String.eqb x) r) && nodup_b r end.
Definition uuids_distinct_b (l : list dsvc) : bool := nodup_b (map d_uuid l).

(* The boolean specification of the three maps a client must be using after it was given list [l]
   (judges maps read back from the implementation):
     local    = exactly the listed services (first item per URL),
     writable = exactly those of them that are not read-only,
     gateway  contains every one of them (so that a +K@uuid hint naming any listed service is usable)
                and nothing that is not an item of the list.
   Lists with repeated uuids are outside the statement (the API never produces them). *)
Definition roots_spec_b (l : list dsvc) (local writable gateway : smap) : bool :=
  negb (uuids_distinct_b l) ||
  (same_pairs_b local (map root_entry (kept l)) &&
   same_pairs_b writable (map root_entry (filter writable_svc (kept l))) &&
   subset_b (map root_entry (kept l)) gateway &&
   subset_b gateway (map root_entry l)).

(* model = observation, maps compared as sets of pairs of equal size *)
Definition smap_eqb (a b : smap) : bool := Nat.eqb (List.length a) (List.length b) && same_pairs_b a b.

(* the list in force after a sequence of loads (none: no service at all) *)
Definition current_list (ls : list (list dsvc)) : list dsvc := last ls [].

(* constructor with a short name for generated case files *)
Definition D (u h : string) (p : N) (ssl : bool) (t : string) (ro : bool) : dsvc :=
  {| d_uuid := u; d_host := h; d_port := p; d_ssl := ssl; d_type := t; d_ro := ro |}.
