(* C05 — trash lists across balancing runs.
   Executable model of what services/keep-balance/balance.go Balancer.Run sends to the keepstores over a
   SEQUENCE of runs of one keep-balance process (server.go Server.runOnce hands the returned RunOptions to the
   next run, also when the run failed): `rs := bal.rendezvousState()`, ClearTrashLists when CommitTrash and
   rs differs from RunOptions.SafeRendezvousState, SafeRendezvousState := rs only after every empty list was
   accepted, then the index/collection phase, CommitPulls, CommitTrash (commitAsync: every server is sent its
   list even when another server fails).  A keepstore keeps the last trash list it accepted until it accepts
   another one, and may carry it out at any time.
   Services are numbered by the harness; a "service list" is the sorted list of the registered disk services.
   Definitions only; proofs are in proofs/C05_sweeps_proofs.v. *)
From Coq Require Import List Arith Bool.
From AV Require Import model.C06_model.
Import ListNotations.

(* what the keepstores see, in order of arrival *)
Inductive ev :=
| EvIndex (srv : nat)                             (* GET /mounts/<uuid>/blocks answered by srv *)
| EvTrash (srv items : nat) (delivered : bool)    (* PUT /trash with `items` entries; delivered = accepted (2xx) *)
| EvPull (srv items : nat) (delivered : bool).    (* PUT /pull *)

Fixpoint list_nat_eqb (a b : list nat) : bool :=
  match a, b with [], [] => true | x :: r, y :: s => (x =? y) && list_nat_eqb r s | _, _ => false end.

(* ---------- one run ---------- *)
Record run_in := {
  i_restart : bool;                     (* keep-balance was restarted before this run: SafeRendezvousState = "" *)
  i_set : list nat;                     (* the registered disk services *)
  i_fail : option req;                  (* the one request of this run that fails, if any *)
  i_plan : list (nat * (nat * nat))     (* service -> (#trash, #pull) entries computed by this run *)
}.

(* where the failing request sits in Run *)
Inductive fpoint := FNone | FEarly | FClear (s : nat) | FMid | FPull (s : nat) | FTrash (s : nat).
Definition classify (f : option req) : fpoint :=
  match f with
  | None => FNone
  | Some (QKeepServices _) | Some (QMounts _) | Some QCurrentUser | Some QNullModified => FEarly
  | Some (QClearTrash s) => FClear s
  | Some QDiscovery | Some (QIndex _) | Some (QCollections _) => FMid
  | Some (QPull s) => FPull s
  | Some (QTrash s) => FTrash s
  end.
Definition is_fclear (fp : fpoint) (s : nat) : bool := match fp with FClear x => x =? s | _ => false end.
Definition is_fpull (fp : fpoint) (s : nat) : bool := match fp with FPull x => x =? s | _ => false end.
Definition is_ftrash (fp : fpoint) (s : nat) : bool := match fp with FTrash x => x =? s | _ => false end.

Definition same_set (safe : option (list nat)) (set : list nat) : bool :=
  match safe with Some a => list_nat_eqb a set | None => false end.

(* Run: the requests the keepstores see (index requests: one per registered service - the model does not
   predict which mounts are indexed, it lets every service be asked), whether Run returned nil, and the
   SafeRendezvousState handed to the next run.  cp / ct = CommitPulls / CommitTrash. *)
Definition run_model (cp ct : bool) (safe : option (list nat)) (i : run_in) : list ev * bool * option (list nat) :=
  let safe0 := if i_restart i then None else safe in
  let set := i_set i in
  let fp := classify (i_fail i) in
  let clear := ct && negb (same_set safe0 set) in
  match fp with
  | FEarly => ([], false, safe0)
  | _ =>
    let clear_evs := if clear then map (fun s => EvTrash s 0 (negb (is_fclear fp s))) set else [] in
    if clear && existsb (is_fclear fp) set then (clear_evs, false, safe0)
    else
      let safe1 := if clear then Some set else safe0 in
      let idx := map EvIndex set in
      match fp with
      | FMid => (clear_evs ++ idx, false, safe1)
      | _ =>
        let pulls := if cp then map (fun s => EvPull s (snd (plan_of (i_plan i) s)) (negb (is_fpull fp s))) set else [] in
        if cp && existsb (is_fpull fp) set then (clear_evs ++ idx ++ pulls, false, safe1)
        else
          let trashes := if ct then map (fun s => EvTrash s (fst (plan_of (i_plan i) s)) (negb (is_ftrash fp s))) set else [] in
          (clear_evs ++ idx ++ pulls ++ trashes, negb (ct && existsb (is_ftrash fp) set), safe1)
      end
  end.

(* a keep-balance process: SafeRendezvousState starts empty *)
Fixpoint seq_model (cp ct : bool) (safe : option (list nat)) (ins : list run_in) : list (list nat * list ev * bool) :=
  match ins with
  | [] => []
  | i :: r => let '(evs, ok, safe') := run_model cp ct safe i in (i_set i, evs, ok) :: seq_model cp ct safe' r
  end.

(* ---------- the keepstores' pending trash lists ---------- *)
(* server -> origin of the non-empty trash list it holds: Some l = computed by a run whose service list
   was l, None = of unknown origin (left behind by an earlier keep-balance process); no entry = empty list *)
Definition pend := list (nat * option (list nat)).
Fixpoint pget (p : pend) (s : nat) : option (option (list nat)) :=
  match p with [] => None | (k, v) :: r => if k =? s then Some v else pget r s end.
Definition premove (s : nat) (p : pend) : pend := filter (fun kv => negb (fst kv =? s)) p.
Definition pset (s : nat) (v : option (list nat)) (p : pend) : pend := (s, v) :: premove s p.

(* an accepted PUT /trash replaces the server's list *)
Definition apply_ev (set : list nat) (p : pend) (e : ev) : pend :=
  match e with
  | EvTrash s n true => if n =? 0 then premove s p else pset s (Some set) p
  | _ => p
  end.
Definition pend_after (set : list nat) (log : list ev) (p : pend) : pend := fold_left (apply_ev set) log p.

(* server s holds a non-empty list that was not computed for the service list `set` *)
Definition stale (p : pend) (set : list nat) (s : nat) : bool :=
  match pget p s with
  | None => false
  | Some None => true
  | Some (Some l) => negb (list_nat_eqb l set)
  end.

(* does some index of this run get read on a server that holds a stale list at that moment? *)
Fixpoint reads_stale (set : list nat) (log : list ev) (p : pend) : bool :=
  match log with
  | [] => false
  | e :: r => (match e with EvIndex s => stale p set s | _ => false end) || reads_stale set r (apply_ev set p e)
  end.
(* no run of a process that commits trash lists reads an index from a server that still holds a trash list
   computed for another service list: that list may be carried out after the index was read and remove a
   replica the run counts on (ct = CommitTrash; a process that never sends trash lists never clears any) *)
Fixpoint stale_free (ct : bool) (runs : list (list nat * list ev)) (p : pend) : bool :=
  match runs with
  | [] => true
  | (set, log) :: r => negb (ct && reads_stale set log p) && stale_free ct r (pend_after set log p)
  end.

(* ---------- comparison of a run with what was observed ---------- *)
Definition ev_key (e : ev) : nat * nat * nat * nat :=
  match e with
  | EvIndex s => (0, s, 0, 0)
  | EvTrash s n d => (1, s, n, if d then 1 else 0)
  | EvPull s n d => (2, s, n, if d then 1 else 0)
  end.
Definition key4_leb (a b : nat * nat * nat * nat) : bool :=
  let '(a1, a2, a3, a4) := a in let '(b1, b2, b3, b4) := b in
  (a1 <? b1) || ((a1 =? b1) && ((a2 <? b2) || ((a2 =? b2) && ((a3 <? b3) || ((a3 =? b3) && (a4 <=? b4)))))).
Fixpoint ev_ins (x : ev) (l : list ev) : list ev :=
  match l with [] => [x] | y :: r => if key4_leb (ev_key x) (ev_key y) then x :: l else y :: ev_ins x r end.
Definition ev_sort (l : list ev) : list ev := fold_right ev_ins [] l.
Fixpoint evs_eqb (a b : list ev) : bool :=
  match a, b with
  | [], [] => true
  | x :: r, y :: s =>
    (let '(a1, a2, a3, a4) := ev_key x in let '(b1, b2, b3, b4) := ev_key y in
     (a1 =? b1) && (a2 =? b2) && (a3 =? b3) && (a4 =? b4)) && evs_eqb r s
  | _, _ => false
  end.
Definition is_put (e : ev) : bool := match e with EvIndex _ => false | _ => true end.
(* the PUTs of a run as a multiset (requests of one phase are concurrent) *)
Definition puts_of (log : list ev) : list ev := ev_sort (filter is_put log).
