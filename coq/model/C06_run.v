(* C06 — evaluator for generated case files (four kinds of cases, one per harness stage).
   check_case: 0 ok, +1 the model disagrees with what the implementation did, +2 the observed
   behaviour violates the specification of that part of the property. *)
From Coq Require Import List Arith Bool NArith ZArith Ascii String.
From AV Require Import lib.Str model.C05_model model.C06_model model.C06_unix model.C06_mounts model.C06_azure.
Import ListNotations.

Inductive case :=
(* EachCollection against the simulated collections table.  ores: 0 nil, 1 request error, 2 callback
   error, 3 "BUG", 4 count mismatch; ovis: uuids handed to the callback, in order;
   faulted: the fake server really failed a request *)
| CPage (db : list row) (clock limit fuel : nat) (evs : list (list event)) (freq fcb : option nat)
        (faulted : bool) (ores : nat) (ovis : list nat)
(* arvados.KeepService.index on body = first `cut` bytes of the well-formed index of es (cut = None:
   the raw body); rderr: the body reader fails with an error after those bytes.
   operr: 0 ok, 1 non-terminal blank, 2 fields, 3 mtime, 4 scan error, 5 no EOF marker *)
| CIndexA (es : list (string * string)) (cut : option nat) (raw : string) (rderr : bool)
          (operr : nat) (oent : list (string * Z))
(* keepclient.GetIndex on the same kind of body: accepted?, content of the returned reader *)
| CIndexK (es : list (string * string)) (cut : option nat) (raw : string) (rderr : bool)
          (ook : bool) (obody : string)
(* every truncation point of the well-formed index of es at once: operrs/ooks = outcome for the first k
   bytes, k = 0 .. length (the last one is the complete text), oent / obody = result for the complete text *)
| CIndexTA (es : list (string * string)) (operrs : list nat) (oent : list (string * Z))
| CIndexTK (es : list (string * string)) (ooks : list bool) (obody : string)
(* one line "abc+1 000...05" of len bytes, followed by LF LF or by nothing (scanner buffer limit) *)
| CIndexLA (len : N) (terminated : bool) (operr : nat) (oent : list (string * Z))
| CIndexLK (len : N) (terminated : bool) (ook : bool) (olen : N)
(* keepstore handleIndex with volumes whose IndexTo writes v_text and fails unless v_ok *)
| CHandler (vols : list vol_out) (obody : string)
(* GET /mounts/<uuid>/blocks?prefix=pfx answered by the real handler over a real Directory volume whose root holds
   the entries ents (block directories, entries that cannot be opened or listed, other names) *)
| CUnix (pfx : string) (ents : list uent) (obody : string)
(* the same request answered by the real handler over a real AzureBlobVolume talking to a stub service that answers the
   successive list requests of every page as scripted (ListBlobsMaxAttempts = maxatt) *)
| CAzure (maxatt : nat) (pages : list apage) (obody : string)
(* Balancer.Run with (at most) one failing request: PUTs received by the keepstores, Run returned nil?
   mounts: what the keepstores advertise (GET /mounts); oidx: the mounts whose index was requested in this run *)
| CSweep (cfg : sweep_cfg) (mounts : list mnt) (failed : option req) (oidx : list nat) (oputs : list put) (ook : bool).

(* ---------- helpers ---------- *)
Fixpoint list_nat_eqb (a b : list nat) : bool :=
  match a, b with [], [] => true | x :: r, y :: s => (x =? y) && list_nat_eqb r s | _, _ => false end.
Definition in_nat (x : nat) (l : list nat) : bool := existsb (Nat.eqb x) l.
Definition deleted_in (u : nat) (evs : list (list event)) : bool :=
  existsb (fun b => existsb (fun e => match e with Delete v => v =? u | _ => false end) b) evs.

Definition res_code (r : result) : nat :=
  match r with ROk => 0 | RReqErr => 1 | RCbErr => 2 | RBug => 3 | RCountErr => 4 | RFuel => 99 end.
Definition ierr_code (e : ierr) : nat :=
  match e with ENonTerminalBlank => 1 | EFields => 2 | EMtime => 3 | EScan => 4 | ENoEOF => 5 end.

Definition body_of (es : list (string * string)) (cut : option nat) (raw : string) : string :=
  match cut with Some k => take k (render_index es) | None => raw end.
(* a proper prefix of a well-formed index? (only meaningful for cut = Some k) *)
Definition truncated (es : list (string * string)) (cut : option nat) : bool :=
  match cut with Some k => k <? String.length (render_index es) | None => false end.

Fixpoint ent_eqb (a b : list (string * Z)) : bool :=
  match a, b with
  | [], [] => true
  | (d, m) :: r, (d', m') :: s => String.eqb d d' && Z.eqb m m' && ent_eqb r s
  | _, _ => false
  end.

(* a failing body reader: the complete lines are processed, the unterminated rest is delivered by
   Scan together with the error and is skipped (`if scanner.Err() != nil { break }`), then the error *)
Definition parse_index_rd (body : string) (rderr : bool) : ierr + list (string * Z) :=
  if rderr then
    let '(ts, _) := deliver (removelast (split_on LF body)) in
    match index_lines ts false [] with inl e => inl e | inr _ => inl EScan end
  else parse_index body.

Definition long_line (len : N) (terminated : bool) : string :=
  ("abc+1 " ++ N.iter (len - 7) (String "0"%char) (String "5"%char EmptyString) ++
   (if terminated then String LF (String LF EmptyString) else EmptyString))%string.

Definition perr_code (r : ierr + list (string * Z)) : nat := match r with inl e => ierr_code e | inr _ => 0 end.
Fixpoint bools_eqb (a b : list bool) : bool :=
  match a, b with [], [] => true | x :: r, y :: s => Bool.eqb x y && bools_eqb r s | _, _ => false end.
Definition is_some {A} (o : option A) : bool := match o with Some _ => true | None => false end.
(* prefixes 0 .. length *)
Definition cuts (w : string) : list nat := seq 0 (S (String.length w)).

Definition put_key (p : put) : nat * nat * nat :=
  match p with PutTrash s n => (0, s, n) | PutPull s n => (1, s, n) end.
Definition key_leb (a b : nat * nat * nat) : bool :=
  let '(a1, a2, a3) := a in let '(b1, b2, b3) := b in
  (a1 <? b1) || ((a1 =? b1) && ((a2 <? b2) || ((a2 =? b2) && (a3 <=? b3)))).
Fixpoint put_ins (x : put) (l : list put) : list put :=
  match l with [] => [x] | y :: r => if key_leb (put_key x) (put_key y) then x :: l else y :: put_ins x r end.
Definition put_sort (l : list put) : list put := fold_right put_ins [] l.
Fixpoint puts_eqb (a b : list put) : bool :=
  match a, b with
  | [], [] => true
  | x :: r, y :: s => (let '(a1, a2, a3) := put_key x in let '(b1, b2, b3) := put_key y in (a1 =? b1) && (a2 =? b2) && (a3 =? b3)) && puts_eqb r s
  | _, _ => false
  end.
Definition is_commit (r : req) : bool := match r with QPull _ | QTrash _ => true | _ => false end.
Definition fails_of (failed : option req) (r : req) : bool :=
  match failed with Some f => req_eqb f r | None => false end.

(* ---------- specification of the observed behaviour ---------- *)
Definition spec_b (c : case) : bool :=
  match c with
  | CPage db clock limit fuel evs freq fcb faulted ores ovis =>
    (* returned nil => every collection present at the start and never deleted was visited;
       a failed request => an error is returned *)
    (negb (ores =? 0) ||
       forallb (fun r => deleted_in (uuid r) evs || in_nat (uuid r) ovis) db) &&
    (negb faulted || negb (ores =? 0))
  | CIndexA es cut raw rderr operr oent =>
    (* a response cut short (or a failing read) is reported as an error *)
    negb (truncated es cut || rderr) || negb (operr =? 0)
  | CIndexK es cut raw rderr ook obody =>
    negb (truncated es cut || rderr) || negb ook
  | CIndexTA es operrs oent =>
    (* every proper prefix is rejected *)
    forallb (fun e => negb (e =? 0)) (removelast operrs)
  | CIndexTK es ooks obody => forallb negb (removelast ooks)
  | CIndexLA _ _ _ _ | CIndexLK _ _ _ _ => true
  | CHandler vols obody =>
    (* the terminating blank line is present only if every volume succeeded: otherwise both readers
       must reject the body (judged on the model of the readers, which the other stages tie to the code) *)
    forallb v_ok vols ||
      (match parse_index obody with inl _ => true | inr _ => false end &&
       match get_index obody with None => true | Some _ => false end)
  | CUnix pfx ents obody =>
    (* a block directory could not be opened or listed to its end: both readers must reject the response *)
    snd (unix_index pfx ents) ||
      (match parse_index obody with inl _ => true | inr _ => false end &&
       match get_index obody with None => true | Some _ => false end)
  | CAzure maxatt pages obody =>
    snd (az_index maxatt pages) ||
      (match parse_index obody with inl _ => true | inr _ => false end &&
       match get_index obody with None => true | Some _ => false end)
  | CSweep cfg mounts failed oidx oputs ook =>
    (* a sweep that reports success has fetched an index covering every mount the keepstores advertise *)
    (negb ook || all_covered mounts oidx) &&
    match failed with
    | None => true
    | Some f =>
      negb ook &&
      (if is_commit f then
         (* a failing pull commit: no trash list is sent (only the empty ClearTrashLists ones before) *)
         match f with QPull _ => forallb (fun p => negb (is_trash p) || (put_items p =? 0)) oputs | _ => true end
       else
         (* any failure before the commit phase: no server was asked to trash or pull anything *)
         forallb (fun p => put_items p =? 0) oputs)
    end
  end.

(* ---------- model = implementation ---------- *)
Definition model_b (c : case) : bool :=
  match c with
  | CPage db clock limit fuel evs freq fcb faulted ores ovis =>
    let '(res, vis, _, _) := each_collection fuel limit {| fail_req := freq; fail_cb := fcb |} evs db clock in
    (res_code res =? ores) && list_nat_eqb vis ovis
  | CIndexA es cut raw rderr operr oent =>
    match parse_index_rd (body_of es cut raw) rderr with
    | inl e => ierr_code e =? operr
    | inr ents => (operr =? 0) && ent_eqb ents oent
    end
  | CIndexK es cut raw rderr ook obody =>
    match (if rderr then None else get_index (body_of es cut raw)) with
    | None => negb ook
    | Some b => ook && String.eqb b obody
    end
  | CIndexTA es operrs oent =>
    let w := render_index es in
    list_nat_eqb (map (fun k => perr_code (parse_index (take k w))) (cuts w)) operrs &&
    match parse_index w with inr ents => ent_eqb ents oent | inl _ => false end
  | CIndexTK es ooks obody =>
    let w := render_index es in
    bools_eqb (map (fun k => is_some (get_index (take k w))) (cuts w)) ooks &&
    match get_index w with Some b => String.eqb b obody | None => false end
  | CIndexLA len t operr oent =>
    match parse_index (long_line len t) with
    | inl e => ierr_code e =? operr
    | inr ents => (operr =? 0) && ent_eqb ents oent
    end
  | CIndexLK len t ook olen =>
    match get_index (long_line len t) with
    | None => negb ook
    | Some b => ook && N.eqb (nlen b) olen
    end
  | CHandler vols obody => String.eqb (handle_index vols) obody
  | CUnix pfx ents obody => same_lines (unix_response pfx ents) obody
  | CAzure maxatt pages obody => String.eqb (az_response maxatt pages) obody
  | CSweep cfg mounts failed oidx oputs ook =>
    let '(puts, ok) := sweep cfg (fails_of failed) in
    puts_eqb (put_sort puts) (put_sort oputs) && Bool.eqb ok ook &&
    (* the index requests of a complete sweep: one per device of the mounts that survive cleanupMounts *)
    nats_eqb (nat_set (s_indexed cfg)) (index_requests mounts)
  end.

Definition check_case (c : case) : N :=
  ((if model_b c then 0 else 1) + (if spec_b c then 0 else 2))%N.

Fixpoint failing_from (i : N) (cs : list case) : list (N * N) :=
  match cs with
  | [] => []
  | c :: r => let k := check_case c in
              if N.eqb k 0 then failing_from (N.succ i) r else (i, k) :: failing_from (N.succ i) r
  end.
Definition failing (cs : list case) : list (N * N) := failing_from 0%N cs.

(* constructors for the case printer *)
Definition R (u t : nat) : row := {| uuid := u; mtime := t |}.
Definition V (t : string) (ok : bool) : vol_out := {| v_text := t; v_ok := ok |}.
