(* C19 — a token secret never leaves the cluster unsalted.  Executable model of
     sdk/go/auth/salt.go                      SaltToken (after the F6a fix: "already salted" = 40 lowercase hex digits)
     sdk/go/auth/auth.go                      LoadTokensFromHTTPRequest (order in which tokens are found)
     lib/controller/federation/conn.go        saltedTokenProvider
     lib/controller/federation.go             Handler.saltAuthToken (legacy path; still has F6b),
                                              Handler.remoteClusterRequest with proxy.Do (what is put on the wire)
     lib/controller/federation/conn.go        Conn.ContainerRequestCreate (which runtime_token is forwarded)
     services/keepstore/proxy_remote.go       remoteProxy.remoteClient (token part)
   HMAC-SHA1 is a parameter [hm key msg] of the *_k definitions so that the case evaluator can share
   computed digests; the un-suffixed definitions use lib/Sha1.  Definitions only. *)
From Coq Require Import NArith List Ascii String Bool.
From AV Require Import lib.Str lib.Sha1 lib.TokSplit.
Import ListNotations.
Local Open Scope string_scope.

Definition hmfun := string -> string -> string.   (* key -> message -> 40 hex digits *)

(* ---- SaltToken ---- *)
Inductive salt_result := Salted (t : string) | ErrObsolete | ErrFormat | ErrSalted.

(* reObsoleteToken ^[0-9a-z]{41,}$   reSaltedSecret ^[0-9a-f]{40}$ *)
Definition is_obsolete_char (c : ascii) : bool := is_digit c || is_lower c.
Definition is_obsolete (s : string) : bool := Nat.leb 41 (String.length s) && all_chars is_obsolete_char s.
Definition is_salted_secret (s : string) : bool := Nat.eqb (String.length s) 40 && all_chars is_lhex s.

Definition salt_token_k (hm : hmfun) (token remote : string) : salt_result :=
  match split_on "/" token with
  | v :: uuid :: secret :: _ =>
    if negb (String.eqb v "v2") then (if is_obsolete token then ErrObsolete else ErrFormat)
    else if negb (is_salted_secret secret) then Salted ("v2/" ++ uuid ++ "/" ++ hm secret remote)
    else if has_prefix remote uuid then Salted token
    else ErrSalted
  | _ => if is_obsolete token then ErrObsolete else ErrFormat
  end.
Definition salt_token := salt_token_k hmac_sha1_hex.

(* ---- saltedTokenProvider ----
   [local tok] is what local.APIClientAuthorizationCurrent answers for a context holding exactly tok *)
Inductive aca_result :=
| AcaUnauthorized                      (* error with HTTP status 401 *)
| AcaError                             (* any other error *)
| AcaOk (uuid api_token : string).     (* the token record: TokenV2() = v2/uuid/api_token *)

Definition provide_one_k (hm : hmfun) (local : string -> aca_result) (remote token : string) : option string :=
  match salt_token_k hm token remote with
  | Salted t => Some t
  | ErrSalted => Some token
  | ErrFormat => Some token
  | ErrObsolete =>
    match local token with
    | AcaUnauthorized => Some token
    | AcaError => None
    | AcaOk uuid api =>
      if has_prefix remote uuid then Some token
      else match salt_token_k hm ("v2/" ++ uuid ++ "/" ++ api) remote with
           | Salted t => Some t
           | _ => None
           end
    end
  end.
(* the loop returns at the first error *)
Fixpoint provide_all_k (hm : hmfun) (local : string -> aca_result) (remote : string) (tokens : list string) : option (list string) :=
  match tokens with
  | [] => Some []
  | t :: r =>
    match provide_one_k hm local remote t with
    | None => None
    | Some o => match provide_all_k hm local remote r with None => None | Some os => Some (o :: os) end
    end
  end.
(* creds = None: no credentials in the context ("no token provided") *)
Definition provider_k (hm : hmfun) (local : string -> aca_result) (remote : string) (creds : option (list string)) : option (list string) :=
  match creds with None => None | Some ts => provide_all_k hm local remote ts end.
Definition provide_one := provide_one_k hmac_sha1_hex.
Definition provider := provider_k hmac_sha1_hex.

(* ---- keepstore remoteClient: the token given to the remote cluster, or an error ---- *)
Definition remote_client_k (hm : hmfun) (token remote : string) : option string :=
  match salt_token_k hm token remote with Salted t => Some t | _ => None end.
Definition remote_client := remote_client_k hmac_sha1_hex.

(* ---- legacy Handler.saltAuthToken ----
   A request, as far as tokens are concerned: the Authorization header, the query parameters, the
   content type with the urlencoded form parameters of the body, and the decoded value of the
   arvados_api_token cookie. *)
Inductive auth_hdr :=
| ANone
| ABearer (t : string)               (* "Bearer t" or "OAuth2 t" *)
| ABasic (user pass : string)        (* "Basic base64(user:pass)" *)
| AOther (v : string).               (* some other scheme *)
Record lreq := {
  l_auth : auth_hdr;
  l_query : list (string * string);
  l_ctype : string;
  l_form : list (string * string);
  l_cookie : option string
}.
Definition values (k : string) (ps : list (string * string)) : list string :=
  map snd (filter (fun p => String.eqb (fst p) k) ps).
Definition without (k : string) (ps : list (string * string)) : list (string * string) :=
  filter (fun p => negb (String.eqb (fst p) k)) ps.
(* auth.LoadTokensFromHTTPRequest: header, basic-auth password, api_token query values, cookie *)
Definition load_tokens (r : lreq) : list string :=
  (match l_auth r with ABearer t => [t] | ABasic _ p => [p] | _ => [] end ++
   values "api_token" (l_query r) ++
   match l_cookie r with Some t => if String.eqb t "" then [] else [t] | None => [] end)%list.

(* what h.validateAPItoken finds in the database *)
Inductive db_result :=
| DbError
| DbNotFound
| DbFound (user_uuid auth_uuid secret : string).

Inductive lres :=
| LErr                                   (* saltAuthToken returns an error: nothing is forwarded *)
| LFwd (r : lreq).                       (* the request that will be forwarded *)

Definition legacy_k (hm : hmfun) (db : string -> db_result) (r : lreq) (remote : string) : lres :=
  match load_tokens r with
  | [] =>
    (* the form-body branch compares the content type with "application/x-www-form-encoded"; with that
       literal LoadTokensFromHTTPRequestBody finds nothing and the body is replaced by an empty one *)
    if String.eqb (l_ctype r) "application/x-www-form-encoded"
    then LFwd {| l_auth := l_auth r; l_query := l_query r; l_ctype := l_ctype r; l_form := []; l_cookie := l_cookie r |}
    else LFwd r
  | t0 :: _ =>
    let fwd t := LFwd {| l_auth := ABearer t; l_query := without "api_token" (l_query r);
                         l_ctype := l_ctype r; l_form := l_form r; l_cookie := l_cookie r |} in
    match salt_token_k hm t0 remote with
    | Salted t => fwd t
    | ErrSalted => LErr
    | ErrObsolete | ErrFormat =>
      match db t0 with
      | DbError => LErr
      | DbNotFound => fwd t0
      | DbFound user_uuid auth_uuid secret =>
        if has_prefix remote user_uuid then fwd t0
        else match salt_token_k hm ("v2/" ++ auth_uuid ++ "/" ++ secret) remote with
             | Salted t => fwd t
             | _ => LErr
             end
      end
    end
  end.
Definition legacy := legacy_k hmac_sha1_hex.

(* every token string the forwarded request carries, wherever it rides *)
Definition carried (r : lreq) : list string :=
  (match l_auth r with ABearer t => [t] | ABasic _ p => [p] | AOther v => [v] | ANone => [] end ++
   values "api_token" (l_query r) ++
   values "api_token" (l_form r) ++
   match l_cookie r with Some t => [t] | None => [] end)%list.

(* ---- Handler.remoteClusterRequest + proxy.Do (lib/controller/federation.go, proxy.go) ----
   the request put on the wire for a configured remote: the outgoing URL takes path and query string of the
   request saltAuthToken returned; proxy.Do copies that request's header (hop-by-hop headers dropped) and body *)
Definition remote_request_k (hm : hmfun) (db : string -> db_result) (r : lreq) (remote : string) : lres :=
  match legacy_k hm db r remote with
  | LErr => LErr
  | LFwd s => LFwd {| l_auth := l_auth s; l_query := l_query s; l_ctype := l_ctype s; l_form := l_form s; l_cookie := l_cookie s |}
  end.
Definition remote_request := remote_request_k hmac_sha1_hex.

(* ---- federation.Conn.ContainerRequestCreate ---- *)
(* chooseBackend: the cluster an id (cluster id or object uuid) names *)
Definition cluster_of (id : string) : option string :=
  if Nat.eqb (String.length id) 27 then Some (take 5 id)
  else if Nat.eqb (String.length id) 5 then Some id else None.
Definition is_remote (local : string) (remotes : list string) (id : string) : bool :=
  match cluster_of id with
  | Some c => negb (String.eqb c local) && existsb (String.eqb c) remotes
  | None => false
  end.

(* the current token as local.APIClientAuthorizationCurrent reports it: uuid, api_token (secret), scopes *)
Definition aca_rec := (string * string * list string)%type.
Definition scope_all (scopes : list string) : bool :=
  match scopes with s :: _ => String.eqb s "all" | [] => false end.

(* the runtime_token attribute of the request that goes to the remote cluster *)
Inductive crt :=
| CrtGiven (t : string)      (* the caller's own runtime_token attribute, untouched *)
| CrtMint (user : string)    (* a new time-limited token is created for this user (token issued by this cluster) *)
| CrtCurrent (t : string)    (* the current token in v2 form (token issued by another cluster) *)
| CrtErr.                    (* the call fails before anything is sent *)
Definition crc_runtime_token (local : string) (rt : option string) (aca : option aca_rec) (user : option string) : crt :=
  match rt with
  | Some t => CrtGiven t
  | None =>
    match aca with
    | None => CrtErr
    | Some (uuid, api, scopes) =>
      match user with
      | None => CrtErr
      | Some u =>
        if negb (scope_all scopes) then CrtErr
        else if has_prefix local uuid then CrtMint u
        else CrtCurrent ("v2/" ++ uuid ++ "/" ++ api)
      end
    end
  end.

(* the whole call.  lookup: the provider's local lookup of legacy tokens; mint: outcome of creating a token
   (None: it fails -- always the case when the local backend is not the database-backed one) *)
Inductive crc_res :=
| CrcLocal                               (* handled by the local backend *)
| CrcErr                                 (* nothing is sent *)
| CrcSent (auth rt : string).            (* Authorization header and runtime_token of the request sent to the remote *)
Definition crc_k (hm : hmfun) (lookup : string -> aca_result) (mint : string -> option string)
           (local : string) (remotes : list string) (target : string) (creds : list string)
           (rt : option string) (aca : option aca_rec) (user : option string) : crc_res :=
  if negb (is_remote local remotes target) then CrcLocal
  else
    let dest := match cluster_of target with Some c => c | None => "" end in
    let send t :=
        match provider_k hm lookup dest (Some creds) with
        | None => CrcErr
        | Some [] => CrcSent "Bearer -" t
        | Some (a :: _) => CrcSent ("Bearer " ++ a) t
        end in
    match crc_runtime_token local rt aca user with
    | CrtGiven t => send t
    | CrtCurrent t => send t
    | CrtMint u => match mint u with Some t => send t | None => CrcErr end
    | CrtErr => CrcErr
    end.
Definition crc := crc_k hmac_sha1_hex.
