(* C14 / C15 — lib/dispatchcloud/worker: the bookkeeping of Pool and worker as a state machine.
   Transcribes pool.go (Running, Unallocated, CountWorkers, AtQuota, Create, StartContainer, KillContainer,
   ForgetContainer, Shutdown, SetIdleBehavior, sync/updateWorker, the shutdownIfIdle sweep of runProbes) and
   worker.go (startContainer and its landing goroutine, probeAndUpdate split into begin/end, updateRunning,
   closeRunner, shutdownIfBroken, eligibleForShutdown, shutdownIfIdle, shutdown, setIdleBehavior,
   onKilled, onUnkillable) and the Kill loop of runner.go at the granularity of one pool-mutex critical
   section per step.  Time is a logical clock that advances whenever the code reads time.Now() for a value
   it stores or compares; timeouts are durations in clock units (the harness configures 1 ns = 1 = "always
   expired" or 1 h = 10^9 = "never").  What the remote side answers (boot probe, crunch-run --list, cloud
   Create) is an input of the step.  Definitions only. *)
From Coq Require Import List ZArith Bool NArith.
From AV Require Import model.C16_runq.
Import ListNotations.
Local Open Scope Z_scope.

Inductive wstate := WUnknown | WBooting | WIdle | WRunning | WShutdown.
Inductive ibeh := IRun | IHold | IDrain.
Definition wstate_eqb (a b : wstate) : bool :=
  match a, b with
  | WUnknown, WUnknown | WBooting, WBooting | WIdle, WIdle | WRunning, WRunning | WShutdown, WShutdown => true
  | _, _ => false
  end.
Definition ibeh_eqb (a b : ibeh) : bool :=
  match a, b with IRun, IRun | IHold, IHold | IDrain, IDrain => true | _, _ => false end.

(* remoteRunner: uuid, stopping (Kill was called), givenup (timeoutTERM reached) *)
Record runner := mkrun { ru : N; rstop : bool; rgiven : bool }.

Record wkr := mkw {
  w_id : N; w_st : wstate; w_ib : ibeh; w_it : N;
  w_starting : list runner; w_running : list runner;
  w_probed : Z; w_updated : Z; w_busy : Z; w_destroyed : Z;   (* 0 = zero time *)
  w_last : N;          (* lastUUID, 0 = "" *)
  w_stale : Z;         (* staleRunLockSince, 0 = zero *)
  w_destroys : N       (* Destroy() calls issued on the instance so far *)
}.

Record cfg := mkcfg { t_boot : Z; t_probe : Z; t_idle : Z; t_shutdown : Z; t_stale : Z }.

Record wpool := mkp {
  p_workers : list wkr;        (* wp.workers, in order of appearance (Go: a map) *)
  p_exited : list (N * Z);     (* wp.exited *)
  p_clock : Z;
  p_quota : bool;              (* time.Now().Before(wp.atQuotaUntil) *)
  p_loaded : bool
}.

Definition empty_pool (clock : Z) : wpool := mkp [] [] clock false false.

(* ---- small helpers ---- *)
Definition set_workers (p : wpool) (ws : list wkr) : wpool := mkp ws (p_exited p) (p_clock p) (p_quota p) (p_loaded p).
Definition set_exited (p : wpool) (ex : list (N * Z)) : wpool := mkp (p_workers p) ex (p_clock p) (p_quota p) (p_loaded p).
Definition tick (p : wpool) : Z * wpool :=
  (p_clock p + 1, mkp (p_workers p) (p_exited p) (p_clock p + 1) (p_quota p) (p_loaded p)).
Fixpoint find_w (id : N) (ws : list wkr) : option wkr :=
  match ws with [] => None | w :: r => if N.eqb (w_id w) id then Some w else find_w id r end.
Fixpoint put_w (w : wkr) (ws : list wkr) : list wkr :=
  match ws with [] => [] | x :: r => if N.eqb (w_id x) (w_id w) then w :: r else x :: put_w w r end.
Definition has_run (u : N) (l : list runner) : bool := existsb (fun r => N.eqb (ru r) u) l.
Definition del_run (u : N) (l : list runner) : list runner := filter (fun r => negb (N.eqb (ru r) u)) l.
Fixpoint get_run (u : N) (l : list runner) : option runner :=
  match l with [] => None | r :: t => if N.eqb (ru r) u then Some r else get_run u t end.
Definition nrun (w : wkr) : nat := (List.length (w_running w) + List.length (w_starting w))%nat.

Definition with_st (w : wkr) (s : wstate) : wkr :=
  mkw (w_id w) s (w_ib w) (w_it w) (w_starting w) (w_running w) (w_probed w) (w_updated w) (w_busy w) (w_destroyed w) (w_last w) (w_stale w) (w_destroys w).
Definition with_ib (w : wkr) (b : ibeh) : wkr :=
  mkw (w_id w) (w_st w) b (w_it w) (w_starting w) (w_running w) (w_probed w) (w_updated w) (w_busy w) (w_destroyed w) (w_last w) (w_stale w) (w_destroys w).
Definition with_runs (w : wkr) (st rn : list runner) : wkr :=
  mkw (w_id w) (w_st w) (w_ib w) (w_it w) st rn (w_probed w) (w_updated w) (w_busy w) (w_destroyed w) (w_last w) (w_stale w) (w_destroys w).
Definition with_updated (w : wkr) (t : Z) : wkr :=
  mkw (w_id w) (w_st w) (w_ib w) (w_it w) (w_starting w) (w_running w) (w_probed w) t (w_busy w) (w_destroyed w) (w_last w) (w_stale w) (w_destroys w).
Definition with_busy (w : wkr) (t : Z) : wkr :=
  mkw (w_id w) (w_st w) (w_ib w) (w_it w) (w_starting w) (w_running w) (w_probed w) (w_updated w) t (w_destroyed w) (w_last w) (w_stale w) (w_destroys w).
Definition with_probed (w : wkr) (t : Z) : wkr :=
  mkw (w_id w) (w_st w) (w_ib w) (w_it w) (w_starting w) (w_running w) t (w_updated w) (w_busy w) (w_destroyed w) (w_last w) (w_stale w) (w_destroys w).
Definition with_last (w : wkr) (u : N) : wkr :=
  mkw (w_id w) (w_st w) (w_ib w) (w_it w) (w_starting w) (w_running w) (w_probed w) (w_updated w) (w_busy w) (w_destroyed w) u (w_stale w) (w_destroys w).
Definition with_stale (w : wkr) (t : Z) : wkr :=
  mkw (w_id w) (w_st w) (w_ib w) (w_it w) (w_starting w) (w_running w) (w_probed w) (w_updated w) (w_busy w) (w_destroyed w) (w_last w) t (w_destroys w).

(* ---- worker.shutdown(): updated = destroyed = now, state Shutdown, go instance.Destroy() ---- *)
Definition w_shutdown (now : Z) (w : wkr) : wkr :=
  mkw (w_id w) WShutdown (w_ib w) (w_it w) (w_starting w) (w_running w) (w_probed w) now (w_busy w) now (w_last w) (w_stale w) (w_destroys w + 1).

(* ---- worker.eligibleForShutdown(); [now] is the time.Since reference ---- *)
Definition eligible_shutdown (c : cfg) (now : Z) (w : wkr) : bool :=
  match w_ib w with
  | IHold => false
  | ib =>
      let draining := ibeh_eqb ib IDrain in
      match w_st w with
      | WBooting => draining
      | WIdle => draining || (t_idle c <=? now - w_busy w)
      | WRunning => draining && forallb rgiven (w_running w) && forallb rgiven (w_starting w)
      | _ => false
      end
  end.

(* ---- worker.shutdownIfIdle(): returns the worker and the advanced clock ---- *)
Definition shutdown_if_idle (c : cfg) (w : wkr) (clock : Z) : wkr * Z * bool :=
  if eligible_shutdown c (clock + 1) w then (w_shutdown (clock + 1) w, clock + 1, true) else (w, clock, false).

(* ---- worker.setIdleBehavior(): set, (saveTags), shutdownIfIdle ---- *)
Definition set_idle_behavior (c : cfg) (w : wkr) (b : ibeh) (clock : Z) : wkr * Z :=
  let '(w', clock', _) := shutdown_if_idle c (with_ib w b) clock in (w', clock').

(* ---- worker.shutdownIfBroken(dur) ---- *)
Definition shutdown_if_broken (c : cfg) (dur : Z) (w : wkr) (clock : Z) : wkr * Z :=
  match w_ib w with
  | IHold => (w, clock)
  | _ =>
      let threshold := match w_st w with WUnknown | WBooting => t_boot c | _ => t_probe c end in
      if dur <? threshold then (w, clock) else (w_shutdown (clock + 1) w, clock + 1)
  end.

(* ---- worker.closeRunner(uuid) ---- *)
Definition close_runner (u : N) (w : wkr) (ex : list (N * Z)) (clock : Z) : wkr * list (N * Z) * Z :=
  if negb (has_run u (w_running w)) then (w, ex, clock)
  else
    let now := clock + 1 in
    let w1 := with_updated (with_runs w (w_starting w) (del_run u (w_running w))) now in
    let w2 := if wstate_eqb (w_st w1) WRunning && Nat.eqb (nrun w1) 0 then with_st w1 WIdle else w1 in
    (w2, (u, now) :: filter (fun kv => negb (N.eqb (fst kv) u)) ex, now).

(* ---- worker.updateRunning(ctrUUIDs) ---- *)
Fixpoint add_alive (uuids : list N) (w : wkr) (changed : bool) : wkr * bool :=
  match uuids with
  | [] => (w, changed)
  | u :: r =>
      if has_run u (w_running w) then add_alive r w changed
      else match get_run u (w_starting w) with
           | Some rr => add_alive r (with_runs w (del_run u (w_starting w)) (w_running w ++ [rr])) true
           | None => add_alive r (with_runs w (w_starting w) (w_running w ++ [mkrun u false false])) true
           end
  end.
Fixpoint close_dead (dead : list N) (w : wkr) (ex : list (N * Z)) (clock : Z) : wkr * list (N * Z) * Z :=
  match dead with
  | [] => (w, ex, clock)
  | u :: r => let '(w', ex', clock') := close_runner u w ex clock in close_dead r w' ex' clock'
  end.
Definition update_running (uuids : list N) (w : wkr) (ex : list (N * Z)) (clock : Z) : wkr * list (N * Z) * Z * bool :=
  let '(w1, ch1) := add_alive uuids w false in
  let dead := filter (fun u => negb (memN u uuids)) (map ru (w_running w1)) in
  let '(w2, ex2, clock2) := close_dead dead w1 ex clock in
  (w2, ex2, clock2, ch1 || negb (match dead with [] => true | _ => false end)).

(* ================= Pool methods ================= *)

(* Running(): starting and running of every worker -> zero time; exited placeholders override *)
Definition pool_running (p : wpool) : list (N * Z) :=
  let live := flat_map (fun w => map ru (w_running w) ++ map ru (w_starting w)) (p_workers p) in
  p_exited p ++ map (fun u => (u, 0)) (filter (fun u => negb (memN u (map fst (p_exited p)))) live).

(* Unallocated() with no Create call in flight *)
Definition unalloc_worker (w : wkr) : bool :=
  negb (wstate_eqb (w_st w) WShutdown) && negb (wstate_eqb (w_st w) WRunning) && ibeh_eqb (w_ib w) IRun &&
  match w_running w with [] => true | _ => false end.
Fixpoint uinc (it : N) (m : list (N * Z)) : list (N * Z) :=
  match m with [] => [(it, 1)] | (k, v) :: r => if N.eqb k it then (k, v + 1) :: r else (k, v) :: uinc it r end.
Definition pool_unallocated (p : wpool) : list (N * Z) :=
  fold_left (fun m w => if unalloc_worker w then uinc (w_it w) m else m) (p_workers p) [].

Definition pool_count (p : wpool) (s : wstate) : nat := List.length (filter (fun w => wstate_eqb (w_st w) s) (p_workers p)).

(* updateWorker for an instance that is not yet known *)
Definition new_worker (id it : N) (st : wstate) (ib : ibeh) (now : Z) : wkr :=
  mkw id st ib it [] [] now now now 0 0 0 0.

(* Create(it) followed by the completion of the cloud call: 0 = instance created, 1 = quota error,
   2 = other error.  Returns what Create returned. *)
Definition pool_create (it newid : N) (outcome : N) (p : wpool) : bool * wpool :=
  if p_quota p then (false, p)
  else
    let (_, p1) := tick p in           (* now := time.Now() for creating[secret] *)
    match outcome with
    | 0%N => let (now, p2) := tick p1 in
             (true, set_workers p2 (p_workers p2 ++ [new_worker newid it WBooting IRun now]))
    | 1%N => (true, mkp (p_workers p1) (p_exited p1) (p_clock p1) true (p_loaded p1))
    | _ => (true, p1)
    end.

(* StartContainer(it, ctr): the idle, IdleBehavior=run worker of that type with the latest busy time *)
Definition start_candidate (it : N) (w : wkr) : bool :=
  N.eqb (w_it w) it && wstate_eqb (w_st w) WIdle && ibeh_eqb (w_ib w) IRun.
Fixpoint pick_latest (it : N) (ws : list wkr) (best : option wkr) : option wkr :=
  match ws with
  | [] => best
  | w :: r =>
      if start_candidate it w then
        match best with
        | None => pick_latest it r (Some w)
        | Some b => if w_busy b <? w_busy w then pick_latest it r (Some w) else pick_latest it r best
        end
      else pick_latest it r best
  end.
(* worker.startContainer: starting[uuid] = new runner; state = Running *)
Definition start_container (u : N) (w : wkr) : wkr :=
  with_st (with_runs w (w_starting w ++ [mkrun u false false]) (w_running w)) WRunning.
Definition pool_start (it u : N) (p : wpool) : option N * wpool :=
  match pick_latest it (p_workers p) None with
  | None => (None, p)
  | Some w => (Some (w_id w), set_workers p (put_w (start_container u w) (p_workers p)))
  end.

(* the goroutine of startContainer after rr.Start() returned (whatever the remote command answered):
   updated = busy = now; delete(starting, uuid); running[uuid] = rr; lastUUID = uuid.  If a probe has
   already moved the runner to running only the stamps change.  (If the runner had already been moved AND
   closed, Go re-inserts the closed runner; that sequence is not generated, see notes/C14.md.) *)
Definition start_lands (id u : N) (p : wpool) : wpool :=
  match find_w id (p_workers p) with
  | None => p
  | Some w =>
      let rr := match get_run u (w_starting w) with Some r => r | None => mkrun u false false end in
      let (now, p1) := tick p in
      let w1 := with_last (with_busy (with_updated (with_runs w (del_run u (w_starting w))
                  (if has_run u (w_running w) then w_running w else w_running w ++ [rr])) now) now) u in
      set_workers p1 (put_w w1 (p_workers p1))
  end.

(* KillContainer(uuid): the first worker that has a runner for it (running, else starting): rr.Kill sets
   stopping.  Returns whether a runner was found. *)
Definition mark_stop (u : N) (l : list runner) : list runner :=
  map (fun r => if N.eqb (ru r) u then mkrun (ru r) true (rgiven r) else r) l.
Fixpoint kill_in (u : N) (ws : list wkr) : bool * list wkr :=
  match ws with
  | [] => (false, [])
  | w :: r =>
      if has_run u (w_running w) then (true, with_runs w (w_starting w) (mark_stop u (w_running w)) :: r)
      else if has_run u (w_starting w) then (true, with_runs w (mark_stop u (w_starting w)) (w_running w) :: r)
      else let (b, r') := kill_in u r in (b, w :: r')
  end.
Definition pool_kill (u : N) (p : wpool) : bool * wpool :=
  let (b, ws) := kill_in u (p_workers p) in (b, set_workers p ws).

(* one successful SIGTERM round of the Kill loop: onKilled -> closeRunner *)
Definition kill_delivered (id u : N) (p : wpool) : wpool :=
  match find_w id (p_workers p) with
  | None => p
  | Some w => let '(w', ex, clock) := close_runner u w (p_exited p) (p_clock p) in
              mkp (put_w w' (p_workers p)) ex clock (p_quota p) (p_loaded p)
  end.

(* the Kill loop reaching timeoutTERM: givenup = true; onUnkillable: drain unless held *)
Definition mark_given (u : N) (l : list runner) : list runner :=
  map (fun r => if N.eqb (ru r) u then mkrun (ru r) (rstop r) true else r) l.
Definition give_up (c : cfg) (id u : N) (p : wpool) : wpool :=
  match find_w id (p_workers p) with
  | None => p
  | Some w =>
      let w1 := with_runs w (mark_given u (w_starting w)) (mark_given u (w_running w)) in
      match w_ib w1 with
      | IHold => set_workers p (put_w w1 (p_workers p))
      | _ => let (w2, clock) := set_idle_behavior c w1 IDrain (p_clock p) in
             mkp (put_w w2 (p_workers p)) (p_exited p) clock (p_quota p) (p_loaded p)
      end
  end.

Definition pool_forget (u : N) (p : wpool) : wpool :=
  set_exited p (filter (fun kv => negb (N.eqb (fst kv) u)) (p_exited p)).

(* SetIdleBehavior(id, b) *)
Definition pool_set_ib (c : cfg) (id : N) (b : ibeh) (p : wpool) : wpool :=
  match find_w id (p_workers p) with
  | None => p
  | Some w => let (w', clock) := set_idle_behavior c w b (p_clock p) in
              mkp (put_w w' (p_workers p)) (p_exited p) clock (p_quota p) (p_loaded p)
  end.

(* Shutdown(it): candidates are the Booting workers of that type that are not held, else the Idle ones;
   Go takes the first in map order, so the choice is a parameter that must be a candidate *)
Definition shut_ok (it : N) (st : wstate) (w : wkr) : bool :=
  negb (ibeh_eqb (w_ib w) IHold) && wstate_eqb (w_st w) st && N.eqb (w_it w) it.
Definition shutdown_candidates (it : N) (p : wpool) : list N :=
  match filter (shut_ok it WBooting) (p_workers p) with
  | [] => map w_id (filter (shut_ok it WIdle) (p_workers p))
  | l => map w_id l
  end.
Definition pool_shutdown (it chosen : N) (p : wpool) : bool * wpool :=
  match shutdown_candidates it p with
  | [] => (false, p)
  | _ =>
      match find_w chosen (p_workers p) with
      | None => (true, p)                           (* not a choice the code can make *)
      | Some w =>
          let want := match filter (shut_ok it WBooting) (p_workers p) with [] => WIdle | _ => WBooting end in
          if shut_ok it want w then
            let (now, p1) := tick p in (true, set_workers p1 (put_w (w_shutdown now w) (p_workers p1)))
          else (true, p)                            (* not a choice the code can make *)
      end
  end.

(* the sweep at the top of every runProbes round: shutdownIfIdle on every worker that is not shut down *)
Fixpoint sweep_idle (c : cfg) (ws : list wkr) (clock : Z) : list wkr * Z :=
  match ws with
  | [] => ([], clock)
  | w :: r =>
      if wstate_eqb (w_st w) WShutdown then let (r', k) := sweep_idle c r clock in (w :: r', k)
      else let '(w', clock', _) := shutdown_if_idle c w clock in
           let (r', k) := sweep_idle c r clock' in (w' :: r', k)
  end.
Definition pool_sweep (c : cfg) (p : wpool) : wpool :=
  let (ws, clock) := sweep_idle c (p_workers p) (p_clock p) in mkp ws (p_exited p) clock (p_quota p) (p_loaded p).

(* Pool.sync(threshold, instances): listed = (instance id, instance type, IdleBehavior tag) *)
Fixpoint sync_listed (c : cfg) (listed : list (N * N * ibeh)) (ws : list wkr) (clock : Z) : list wkr * Z :=
  match listed with
  | [] => (ws, clock)
  | (id, it, ib) :: r =>
      match find_w id ws with
      | Some w =>
          let now := clock + 1 in                     (* wkr.updated = time.Now() *)
          let w1 := with_updated w now in
          (* still listed after shutdown: retry *)
          if wstate_eqb (w_st w1) WShutdown && (t_shutdown c <? (now + 1) - w_destroyed w1)
          then sync_listed c r (put_w (w_shutdown (now + 1) w1) ws) (now + 1)
          else sync_listed c r (put_w w1 ws) now
      | None =>
          let now := clock + 1 in
          sync_listed c r (ws ++ [new_worker id it WUnknown ib now]) now
      end
  end.
Definition pool_sync (c : cfg) (listed : list (N * N * ibeh)) (p : wpool) : wpool :=
  let (threshold, p1) := tick p in
  let (ws, clock) := sync_listed c listed (p_workers p1) (p_clock p1) in
  (* workers not updated after the threshold have disappeared *)
  mkp (filter (fun w => threshold <? w_updated w) ws) (p_exited p1) clock (p_quota p1) true.

(* ================= probeAndUpdate ================= *)
(* what was read before the remote commands ran *)
Record probe0 := mkpb { pb_id : N; pb_updated : Z; pb_init : wstate; pb_start : Z }.
(* answers of the remote side: boot probe ok, crunch-run --list ok, listed uuids, "broken" line, a stale line *)
Record presp := mkpr { pr_boot : bool; pr_list_ok : bool; pr_uuids : list N; pr_broken : bool; pr_stale : bool }.

Definition probe_begin (id : N) (p : wpool) : option probe0 * wpool :=
  match find_w id (p_workers p) with
  | None => (None, p)
  | Some w =>
      match w_st w with
      | WShutdown => (None, p)
      | st => let (now, p1) := tick p in (Some (mkpb id (w_updated w) st now), p1)
      end
  end.

(* was crunch-run --list executed at all?  (booted || wkr.state == StateUnknown) *)
Definition probe_booted (pb : probe0) (r : presp) : bool :=
  match pb_init pb with WIdle | WRunning => true | _ => pr_boot r end.
Definition probe_lists (pb : probe0) (r : presp) : bool :=
  probe_booted pb r || wstate_eqb (pb_init pb) WUnknown.

Definition probe_end (c : cfg) (pb : probe0) (r : presp) (p : wpool) : wpool :=
  match find_w (pb_id pb) (p_workers p) with
  | None => p
  | Some w =>
      let booted := probe_booted pb r in
      let listed := probe_lists pb r in
      let ok := listed && pr_list_ok r in
      let uuids := if ok then pr_uuids r else [] in
      (* tail of probeRunning (only when the command succeeded): staleRunLockSince *)
      let '(w0, clock0, broken_stale) :=
        if ok then
          if negb (pr_stale r) then (with_stale w 0, p_clock p, false)
          else if w_stale w =? 0 then (with_stale w (p_clock p + 1), p_clock p + 1, false)
          else (w, p_clock p + 1, t_stale c <? (p_clock p + 1) - w_stale w)
        else (w, p_clock p, false) in
      let broken := ok && (pr_broken r || broken_stale) in
      (* reportedBroken && idleBehavior == run => drain *)
      let '(w1, clock1) := if broken && ibeh_eqb (w_ib w0) IRun then set_idle_behavior c w0 IDrain clock0 else (w0, clock0) in
      if negb ok || (negb booted && match uuids with [] => true | _ => false end && match w_running w1 with [] => true | _ => false end) then
        if wstate_eqb (w_st w1) WShutdown && (pb_updated pb <? w_updated w1) then
          mkp (put_w w1 (p_workers p)) (p_exited p) clock1 (p_quota p) (p_loaded p)
        else
          let (w2, clock2) := shutdown_if_broken c (pb_start pb - w_probed w1) w1 clock1 in
          mkp (put_w w2 (p_workers p)) (p_exited p) clock2 (p_quota p) (p_loaded p)
      else
        let update_time := clock1 + 1 in
        let w2 := with_probed w1 update_time in
        if negb (pb_updated pb =? w_updated w2) then
          mkp (put_w w2 (p_workers p)) (p_exited p) update_time (p_quota p) (p_loaded p)
        else
          let w3 := match uuids with
                    | u :: _ => with_last (with_busy w2 update_time) u
                    | [] => match w_running w2 with [] => w2 | _ => with_busy w2 update_time end
                    end in
          let '(w4, ex4, clock4, changed0) := update_running uuids w3 (p_exited p) update_time in
          let first_boot := booted && (wstate_eqb (w_st w4) WUnknown || wstate_eqb (w_st w4) WBooting) in
          let w5 := if first_boot then with_st w4 WIdle else w4 in
          let changed := changed0 || first_boot in
          if negb changed then mkp (put_w w5 (p_workers p)) ex4 clock4 (p_quota p) (p_loaded p)
          else
            let w6 := if wstate_eqb (w_st w5) WIdle && negb (Nat.eqb (nrun w5) 0) then with_st w5 WRunning
                      else if wstate_eqb (w_st w5) WRunning && Nat.eqb (nrun w5) 0 then with_st w5 WIdle else w5 in
            mkp (put_w (with_updated w6 update_time) (p_workers p)) ex4 clock4 (p_quota p) (p_loaded p)
  end.

(* ================= the pool as the P of runQueue (model/C16_runq.v) ================= *)
(* Create inside a scheduling pass: the cloud's answer and the new instance id come from an oracle that is
   part of the environment; it is threaded with the pool *)
Record penv := mkpe { pe_pool : wpool; pe_next : N; pe_create : list N }.   (* next instance id, create outcomes *)
Definition pe_quota (e : penv) : bool * penv := (p_quota (pe_pool e), e).
Definition pe_kill (u : N) (e : penv) : bool * penv :=
  let (b, p) := pool_kill u (pe_pool e) in (b, mkpe p (pe_next e) (pe_create e)).
Definition pe_create_it (it : N) (e : penv) : bool * penv :=
  let outcome := match pe_create e with [] => 2%N | o :: _ => o end in
  let rest := match pe_create e with [] => [] | _ :: r => r end in
  let (b, p) := pool_create it (pe_next e) outcome (pe_pool e) in
  (b, mkpe p (pe_next e + 1)%N rest).
Definition pe_start (it u : N) (e : penv) : bool * penv :=
  let (r, p) := pool_start it u (pe_pool e) in
  (match r with Some _ => true | None => false end, mkpe p (pe_next e) (pe_create e)).

(* one scheduler pass over a sorted queue with this pool *)
Definition sched_pass (sorted : list ent) (e : penv) : rq_result penv :=
  run_queue_sorted penv pe_quota pe_kill pe_create_it pe_start (map fst (pool_running (pe_pool e))) sorted
                   (pool_unallocated (pe_pool e)) e.
