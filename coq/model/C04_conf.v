(* C04 — which of the cluster's volumes a keepstore server uses, and which of them it may change.
   Transcribes services/keepstore/volume.go makeRRVolumeManager (the loop over cluster.Volumes):
     va, ok := cfgvol.AccessViaHosts[myURL]
     if !ok && len(cfgvol.AccessViaHosts) > 0 { continue }          -- another server's volume
     mnt.ReadOnly = cfgvol.ReadOnly || va.ReadOnly                  -- advertised by GET /mounts
     vm.readables = append(vm.readables, mnt)
     if !mnt.ReadOnly { vm.writables = append(vm.writables, mnt) }
   Every handler that changes something (PutBlock/CompareAndTouch, handleTOUCH, handleDELETE,
   handleUntrash, TrashItem with mount_uuid "", the emptyTrash sweep) ranges over vm.writables, and
   Lookup(uuid, needWrite=true) (TrashItem with a mount_uuid) refuses a mount whose ReadOnly is set;
   UnixVolume itself only knows the volume-level flag.  So the mount's flag computed here is the
   v_ro of model/C04_model.v.  cluster.Volumes is a Go map: the order of the mounts is whatever the
   iteration gave, the configuration is listed in that order.  Definitions only. *)
From Coq Require Import List String Bool.
Import ListNotations.

Record cvol := {
  cv_uuid : string;
  cv_ro : bool;                          (* Volumes.<uuid>.ReadOnly *)
  cv_access : list (string * bool)       (* Volumes.<uuid>.AccessViaHosts: server URL -> ReadOnly *)
}.

(* map lookup *)
Fixpoint host_entry (host : string) (acc : list (string * bool)) : option bool :=
  match acc with
  | [] => None
  | (u, r) :: rest => if String.eqb u host then Some r else host_entry host rest
  end.

Record mount := { m_uuid : string; m_ro : bool }.

(* one iteration of the loop *)
Definition mount_of (host : string) (cv : cvol) : option mount :=
  match host_entry host (cv_access cv) with
  | Some r => Some {| m_uuid := cv_uuid cv; m_ro := cv_ro cv || r |}
  | None =>
    match cv_access cv with
    | [] => Some {| m_uuid := cv_uuid cv; m_ro := cv_ro cv |}       (* va is the zero value *)
    | _ :: _ => None                                                 (* continue *)
    end
  end.

Definition is_mounted (host : string) (cv : cvol) : bool :=
  match mount_of host cv with Some _ => true | None => false end.

Fixpoint make_mounts (host : string) (cvs : list cvol) : list mount :=
  match cvs with
  | [] => []
  | cv :: r => match mount_of host cv with
               | Some m => m :: make_mounts host r
               | None => make_mounts host r
               end
  end.

(* vm.writables; Lookup *)
Definition writables (ms : list mount) : list mount := filter (fun m => negb (m_ro m)) ms.
Fixpoint lookup (ms : list mount) (uuid : string) (need_write : bool) : option mount :=
  match ms with
  | [] => None
  | m :: r => if String.eqb (m_uuid m) uuid then (if need_write && m_ro m then None else Some m)
              else lookup r uuid need_write
  end.
